//! C07: serde serialization through every route, and the round trip.
//!
//! cases:
//!   `d<flags> <tokens…>` (the flags only tell the model which repaired behaviours to follow) a dynamic serde-data-model value (`SVal`, prefix notation, see `parse_sval`)
//!   `t <type> <seed>`  a value of one of the declared derive(Serialize, Deserialize) types, generated
//!                      deterministically from the 64-bit seed
//! output: space separated `field=value`;
//!   routes ts tp es ep (text routes), ed (to_document tree), vt (Value::try_from), tt (Table::try_from):
//!     `<r>=ok:<plain tree>` | `<r>=err:<ErrorVariant>`;  plain tree of a text route = the text re-parsed
//!   `rtt<flags> <ty> <dec>` / `dvc <target> <ty> <seed>`  typed values of the type grammar: see c07typed.rs
//!   `<r>.x=<hex text>` for text routes; typed cases add `<r>.rt=<eq|NE|deerr>[,<eq|NE|deerr>]` and `sval=<tokens joined by ','>`
use crate::canon::{plain_toml, plain_toml_table};
use crate::util::*;
use serde::de::DeserializeOwned;
use serde::ser::{
    self, SerializeMap, SerializeSeq, SerializeStruct, SerializeStructVariant, SerializeTuple,
    SerializeTupleStruct, SerializeTupleVariant, Serializer,
};
use serde::{Deserialize, Serialize};
use std::cell::RefCell;
use std::collections::{BTreeMap, HashMap};
use toml_datetime::{Date, Datetime, Offset, Time};

// ------------------------------------------------------------------------------------------
// the serde data model as a value
// ------------------------------------------------------------------------------------------

type N = &'static str;

#[derive(Clone, Debug, PartialEq)]
pub enum SVal {
    Bool(bool),
    I8(i8),
    I16(i16),
    I32(i32),
    I64(i64),
    U8(u8),
    U16(u16),
    U32(u32),
    U64(u64),
    I128(i128),
    U128(u128),
    F32(u32),
    F64(u64),
    Char(char),
    Str(String),
    Bytes(Vec<u8>),
    None,
    Some(Box<SVal>),
    Unit,
    UnitStruct(N),
    Newtype(N, Box<SVal>),
    Seq(Vec<SVal>),
    Tuple(Vec<SVal>),
    TupleStruct(N, Vec<SVal>),
    Map(Vec<(SVal, SVal)>),
    Struct(N, Vec<(N, SVal)>),
    UnitVariant(N, N),
    NewtypeVariant(N, N, Box<SVal>),
    TupleVariant(N, N, Vec<SVal>),
    StructVariant(N, N, Vec<(N, SVal)>),
}

thread_local! {
    static INTERN: RefCell<HashMap<String, &'static str>> = RefCell::new(HashMap::new());
}

pub(crate) fn intern(s: &str) -> &'static str {
    INTERN.with(|m| {
        let mut m = m.borrow_mut();
        if let Some(x) = m.get(s) {
            return *x;
        }
        let l: &'static str = Box::leak(s.to_string().into_boxed_str());
        m.insert(s.to_string(), l);
        l
    })
}

impl Serialize for SVal {
    fn serialize<S: Serializer>(&self, s: S) -> Result<S::Ok, S::Error> {
        match self {
            SVal::Bool(b) => s.serialize_bool(*b),
            SVal::I8(v) => s.serialize_i8(*v),
            SVal::I16(v) => s.serialize_i16(*v),
            SVal::I32(v) => s.serialize_i32(*v),
            SVal::I64(v) => s.serialize_i64(*v),
            SVal::U8(v) => s.serialize_u8(*v),
            SVal::U16(v) => s.serialize_u16(*v),
            SVal::U32(v) => s.serialize_u32(*v),
            SVal::U64(v) => s.serialize_u64(*v),
            SVal::I128(v) => s.serialize_i128(*v),
            SVal::U128(v) => s.serialize_u128(*v),
            SVal::F32(b) => s.serialize_f32(f32::from_bits(*b)),
            SVal::F64(b) => s.serialize_f64(f64::from_bits(*b)),
            SVal::Char(c) => s.serialize_char(*c),
            SVal::Str(x) => s.serialize_str(x),
            SVal::Bytes(x) => s.serialize_bytes(x),
            SVal::None => s.serialize_none(),
            SVal::Some(x) => s.serialize_some(&**x),
            SVal::Unit => s.serialize_unit(),
            SVal::UnitStruct(n) => s.serialize_unit_struct(n),
            SVal::Newtype(n, x) => s.serialize_newtype_struct(n, &**x),
            SVal::Seq(xs) => {
                let mut q = s.serialize_seq(Some(xs.len()))?;
                for x in xs {
                    q.serialize_element(x)?;
                }
                q.end()
            }
            SVal::Tuple(xs) => {
                let mut q = s.serialize_tuple(xs.len())?;
                for x in xs {
                    q.serialize_element(x)?;
                }
                q.end()
            }
            SVal::TupleStruct(n, xs) => {
                let mut q = s.serialize_tuple_struct(n, xs.len())?;
                for x in xs {
                    q.serialize_field(x)?;
                }
                q.end()
            }
            SVal::Map(kvs) => {
                let mut q = s.serialize_map(Some(kvs.len()))?;
                for (k, v) in kvs {
                    q.serialize_key(k)?;
                    q.serialize_value(v)?;
                }
                q.end()
            }
            SVal::Struct(n, fs) => {
                let mut q = s.serialize_struct(n, fs.len())?;
                for (k, v) in fs {
                    q.serialize_field(k, v)?;
                }
                q.end()
            }
            SVal::UnitVariant(n, v) => s.serialize_unit_variant(n, 0, v),
            SVal::NewtypeVariant(n, v, x) => s.serialize_newtype_variant(n, 0, v, &**x),
            SVal::TupleVariant(n, v, xs) => {
                let mut q = s.serialize_tuple_variant(n, 0, v, xs.len())?;
                for x in xs {
                    q.serialize_field(x)?;
                }
                q.end()
            }
            SVal::StructVariant(n, v, fs) => {
                let mut q = s.serialize_struct_variant(n, 0, v, fs.len())?;
                for (k, x) in fs {
                    q.serialize_field(k, x)?;
                }
                q.end()
            }
        }
    }
}

// ---- tokens ---------------------------------------------------------------------------------

fn hx(s: &str) -> String {
    hex(s.as_bytes())
}

pub fn tokens(v: &SVal, out: &mut Vec<String>) {
    match v {
        SVal::Bool(b) => out.push(if *b { "b1".into() } else { "b0".into() }),
        SVal::I8(x) => out.push(format!("i8:{x}")),
        SVal::I16(x) => out.push(format!("i16:{x}")),
        SVal::I32(x) => out.push(format!("i32:{x}")),
        SVal::I64(x) => out.push(format!("i64:{x}")),
        SVal::U8(x) => out.push(format!("u8:{x}")),
        SVal::U16(x) => out.push(format!("u16:{x}")),
        SVal::U32(x) => out.push(format!("u32:{x}")),
        SVal::U64(x) => out.push(format!("u64:{x}")),
        SVal::I128(x) => out.push(format!("i128:{x}")),
        SVal::U128(x) => out.push(format!("u128:{x}")),
        SVal::F32(b) => out.push(format!("f32:{b:08x}")),
        SVal::F64(b) => out.push(format!("f64:{b:016x}")),
        SVal::Char(c) => out.push(format!("c:{}", *c as u32)),
        SVal::Str(s) => out.push(format!("s:{}", hx(s))),
        SVal::Bytes(b) => out.push(format!("y:{}", hex(b))),
        SVal::None => out.push("none".into()),
        SVal::Some(x) => {
            out.push("some".into());
            tokens(x, out);
        }
        SVal::Unit => out.push("unit".into()),
        SVal::UnitStruct(n) => out.push(format!("us:{}", hx(n))),
        SVal::Newtype(n, x) => {
            out.push("nt".into());
            out.push(hx(n));
            tokens(x, out);
        }
        SVal::Seq(xs) => {
            out.push("seq".into());
            out.push(xs.len().to_string());
            xs.iter().for_each(|x| tokens(x, out));
        }
        SVal::Tuple(xs) => {
            out.push("tup".into());
            out.push(xs.len().to_string());
            xs.iter().for_each(|x| tokens(x, out));
        }
        SVal::TupleStruct(n, xs) => {
            out.push("ts".into());
            out.push(hx(n));
            out.push(xs.len().to_string());
            xs.iter().for_each(|x| tokens(x, out));
        }
        SVal::Map(kvs) => {
            out.push("map".into());
            out.push(kvs.len().to_string());
            for (k, v) in kvs {
                tokens(k, out);
                tokens(v, out);
            }
        }
        SVal::Struct(n, fs) => {
            out.push("st".into());
            out.push(hx(n));
            out.push(fs.len().to_string());
            for (k, v) in fs {
                out.push(hx(k));
                tokens(v, out);
            }
        }
        SVal::UnitVariant(n, v) => {
            out.push("uv".into());
            out.push(hx(n));
            out.push(hx(v));
        }
        SVal::NewtypeVariant(n, v, x) => {
            out.push("nv".into());
            out.push(hx(n));
            out.push(hx(v));
            tokens(x, out);
        }
        SVal::TupleVariant(n, v, xs) => {
            out.push("tv".into());
            out.push(hx(n));
            out.push(hx(v));
            out.push(xs.len().to_string());
            xs.iter().for_each(|x| tokens(x, out));
        }
        SVal::StructVariant(n, v, fs) => {
            out.push("sv".into());
            out.push(hx(n));
            out.push(hx(v));
            out.push(fs.len().to_string());
            for (k, x) in fs {
                out.push(hx(k));
                tokens(x, out);
            }
        }
    }
}

struct Toks<'a> {
    t: Vec<&'a str>,
    i: usize,
}

impl<'a> Toks<'a> {
    fn next(&mut self) -> &'a str {
        let x = self.t.get(self.i).copied().expect("token");
        self.i += 1;
        x
    }
    fn name(&mut self) -> N {
        intern(&unhex_str(self.next()))
    }
    fn count(&mut self) -> usize {
        self.next().parse().expect("count")
    }
}

fn parse_sval(t: &mut Toks<'_>) -> SVal {
    let tok = t.next();
    if let Some((tag, rest)) = tok.split_once(':') {
        return match tag {
            "i8" => SVal::I8(rest.parse().unwrap()),
            "i16" => SVal::I16(rest.parse().unwrap()),
            "i32" => SVal::I32(rest.parse().unwrap()),
            "i64" => SVal::I64(rest.parse().unwrap()),
            "u8" => SVal::U8(rest.parse().unwrap()),
            "u16" => SVal::U16(rest.parse().unwrap()),
            "u32" => SVal::U32(rest.parse().unwrap()),
            "u64" => SVal::U64(rest.parse().unwrap()),
            "i128" => SVal::I128(rest.parse().unwrap()),
            "u128" => SVal::U128(rest.parse().unwrap()),
            "f32" => SVal::F32(u32::from_str_radix(rest, 16).unwrap()),
            "f64" => SVal::F64(u64::from_str_radix(rest, 16).unwrap()),
            "c" => SVal::Char(char::from_u32(rest.parse().unwrap()).expect("scalar")),
            "s" => SVal::Str(unhex_str(rest)),
            "y" => SVal::Bytes(unhex(rest)),
            "us" => SVal::UnitStruct(intern(&unhex_str(rest))),
            _ => panic!("tag"),
        };
    }
    match tok {
        "b0" => SVal::Bool(false),
        "b1" => SVal::Bool(true),
        "none" => SVal::None,
        "unit" => SVal::Unit,
        "some" => SVal::Some(Box::new(parse_sval(t))),
        "nt" => {
            let n = t.name();
            SVal::Newtype(n, Box::new(parse_sval(t)))
        }
        "seq" => {
            let n = t.count();
            SVal::Seq((0..n).map(|_| parse_sval(t)).collect())
        }
        "tup" => {
            let n = t.count();
            SVal::Tuple((0..n).map(|_| parse_sval(t)).collect())
        }
        "ts" => {
            let name = t.name();
            let n = t.count();
            SVal::TupleStruct(name, (0..n).map(|_| parse_sval(t)).collect())
        }
        "map" => {
            let n = t.count();
            SVal::Map(
                (0..n)
                    .map(|_| {
                        let k = parse_sval(t);
                        let v = parse_sval(t);
                        (k, v)
                    })
                    .collect(),
            )
        }
        "st" => {
            let name = t.name();
            let n = t.count();
            SVal::Struct(
                name,
                (0..n)
                    .map(|_| {
                        let k = t.name();
                        (k, parse_sval(t))
                    })
                    .collect(),
            )
        }
        "uv" => {
            let n = t.name();
            let v = t.name();
            SVal::UnitVariant(n, v)
        }
        "nv" => {
            let n = t.name();
            let v = t.name();
            SVal::NewtypeVariant(n, v, Box::new(parse_sval(t)))
        }
        "tv" => {
            let n = t.name();
            let v = t.name();
            let c = t.count();
            SVal::TupleVariant(n, v, (0..c).map(|_| parse_sval(t)).collect())
        }
        "sv" => {
            let n = t.name();
            let v = t.name();
            let c = t.count();
            SVal::StructVariant(
                n,
                v,
                (0..c)
                    .map(|_| {
                        let k = t.name();
                        (k, parse_sval(t))
                    })
                    .collect(),
            )
        }
        _ => panic!("token {tok}"),
    }
}

/// structural equality with NaN == NaN (any payload, any sign); every other float by bits
fn eqv(a: &SVal, b: &SVal) -> bool {
    use SVal::*;
    fn all(a: &[SVal], b: &[SVal]) -> bool {
        a.len() == b.len() && a.iter().zip(b).all(|(x, y)| eqv(x, y))
    }
    fn fields(a: &[(N, SVal)], b: &[(N, SVal)]) -> bool {
        a.len() == b.len() && a.iter().zip(b).all(|(x, y)| x.0 == y.0 && eqv(&x.1, &y.1))
    }
    match (a, b) {
        (F32(x), F32(y)) => x == y || (f32::from_bits(*x).is_nan() && f32::from_bits(*y).is_nan()),
        (F64(x), F64(y)) => x == y || (f64::from_bits(*x).is_nan() && f64::from_bits(*y).is_nan()),
        (Some(x), Some(y)) => eqv(x, y),
        (Newtype(n, x), Newtype(m, y)) => n == m && eqv(x, y),
        (Seq(x), Seq(y)) | (Tuple(x), Tuple(y)) => all(x, y),
        (TupleStruct(n, x), TupleStruct(m, y)) => n == m && all(x, y),
        (Map(x), Map(y)) => x.len() == y.len() && x.iter().zip(y).all(|(p, q)| eqv(&p.0, &q.0) && eqv(&p.1, &q.1)),
        (Struct(n, x), Struct(m, y)) => n == m && fields(x, y),
        (NewtypeVariant(n, v, x), NewtypeVariant(m, w, y)) => n == m && v == w && eqv(x, y),
        (TupleVariant(n, v, x), TupleVariant(m, w, y)) => n == m && v == w && all(x, y),
        (StructVariant(n, v, x), StructVariant(m, w, y)) => n == m && v == w && fields(x, y),
        (a, b) => a == b,
    }
}

// ------------------------------------------------------------------------------------------
// a serializer that records the calls it receives as an SVal
// ------------------------------------------------------------------------------------------

#[derive(Debug)]
pub struct RecErr(String);
impl std::fmt::Display for RecErr {
    fn fmt(&self, f: &mut std::fmt::Formatter<'_>) -> std::fmt::Result {
        self.0.fmt(f)
    }
}
impl std::error::Error for RecErr {}
impl ser::Error for RecErr {
    fn custom<T: std::fmt::Display>(m: T) -> Self {
        RecErr(m.to_string())
    }
}

thread_local! {
    /// the arguments of the calls that `SVal` does not keep (length hints, variant indices), in call order;
    /// collected only while `record_aux` runs
    static AUX: RefCell<Option<Vec<String>>> = const { RefCell::new(None) };
}

fn aux(f: impl FnOnce() -> String) {
    AUX.with(|a| {
        if let Some(v) = a.borrow_mut().as_mut() {
            v.push(f());
        }
    });
}

/// `record` plus the length hints and variant indices of the calls, in call order
pub fn record_aux<T: Serialize + ?Sized>(v: &T) -> (SVal, String) {
    AUX.with(|a| *a.borrow_mut() = Some(Vec::new()));
    let r = v.serialize(Rec);
    let log = AUX.with(|a| a.borrow_mut().take()).unwrap_or_default();
    (r.expect("recording never fails"), log.join(","))
}

struct Rec;
struct RecSeq(u8, N, N, Vec<SVal>);
struct RecMap(Vec<(SVal, SVal)>, Option<SVal>);
struct RecStruct(N, N, Vec<(N, SVal)>);

pub fn record<T: Serialize + ?Sized>(v: &T) -> SVal {
    v.serialize(Rec).expect("recording never fails")
}

impl Serializer for Rec {
    type Ok = SVal;
    type Error = RecErr;
    type SerializeSeq = RecSeq;
    type SerializeTuple = RecSeq;
    type SerializeTupleStruct = RecSeq;
    type SerializeTupleVariant = RecSeq;
    type SerializeMap = RecMap;
    type SerializeStruct = RecStruct;
    type SerializeStructVariant = RecStruct;
    fn serialize_bool(self, v: bool) -> Result<SVal, RecErr> {
        Ok(SVal::Bool(v))
    }
    fn serialize_i8(self, v: i8) -> Result<SVal, RecErr> {
        Ok(SVal::I8(v))
    }
    fn serialize_i16(self, v: i16) -> Result<SVal, RecErr> {
        Ok(SVal::I16(v))
    }
    fn serialize_i32(self, v: i32) -> Result<SVal, RecErr> {
        Ok(SVal::I32(v))
    }
    fn serialize_i64(self, v: i64) -> Result<SVal, RecErr> {
        Ok(SVal::I64(v))
    }
    fn serialize_u8(self, v: u8) -> Result<SVal, RecErr> {
        Ok(SVal::U8(v))
    }
    fn serialize_u16(self, v: u16) -> Result<SVal, RecErr> {
        Ok(SVal::U16(v))
    }
    fn serialize_u32(self, v: u32) -> Result<SVal, RecErr> {
        Ok(SVal::U32(v))
    }
    fn serialize_u64(self, v: u64) -> Result<SVal, RecErr> {
        Ok(SVal::U64(v))
    }
    fn serialize_i128(self, v: i128) -> Result<SVal, RecErr> {
        Ok(SVal::I128(v))
    }
    fn serialize_u128(self, v: u128) -> Result<SVal, RecErr> {
        Ok(SVal::U128(v))
    }
    fn serialize_f32(self, v: f32) -> Result<SVal, RecErr> {
        Ok(SVal::F32(v.to_bits()))
    }
    fn serialize_f64(self, v: f64) -> Result<SVal, RecErr> {
        Ok(SVal::F64(v.to_bits()))
    }
    fn serialize_char(self, v: char) -> Result<SVal, RecErr> {
        Ok(SVal::Char(v))
    }
    fn serialize_str(self, v: &str) -> Result<SVal, RecErr> {
        Ok(SVal::Str(v.to_string()))
    }
    fn serialize_bytes(self, v: &[u8]) -> Result<SVal, RecErr> {
        Ok(SVal::Bytes(v.to_vec()))
    }
    fn serialize_none(self) -> Result<SVal, RecErr> {
        Ok(SVal::None)
    }
    fn serialize_some<T: Serialize + ?Sized>(self, v: &T) -> Result<SVal, RecErr> {
        Ok(SVal::Some(Box::new(v.serialize(Rec)?)))
    }
    fn serialize_unit(self) -> Result<SVal, RecErr> {
        Ok(SVal::Unit)
    }
    fn serialize_unit_struct(self, n: &'static str) -> Result<SVal, RecErr> {
        Ok(SVal::UnitStruct(n))
    }
    fn serialize_unit_variant(self, n: &'static str, _i: u32, v: &'static str) -> Result<SVal, RecErr> {
        aux(|| format!("uv{_i}"));
        Ok(SVal::UnitVariant(n, v))
    }
    fn serialize_newtype_struct<T: Serialize + ?Sized>(self, n: &'static str, v: &T) -> Result<SVal, RecErr> {
        Ok(SVal::Newtype(n, Box::new(v.serialize(Rec)?)))
    }
    fn serialize_newtype_variant<T: Serialize + ?Sized>(self, n: &'static str, _i: u32, var: &'static str, v: &T) -> Result<SVal, RecErr> {
        aux(|| format!("nv{_i}"));
        Ok(SVal::NewtypeVariant(n, var, Box::new(v.serialize(Rec)?)))
    }
    fn serialize_seq(self, _l: Option<usize>) -> Result<RecSeq, RecErr> {
        aux(|| format!("seq{_l:?}"));
        Ok(RecSeq(0, "", "", vec![]))
    }
    fn serialize_tuple(self, _l: usize) -> Result<RecSeq, RecErr> {
        aux(|| format!("tup{_l}"));
        Ok(RecSeq(1, "", "", vec![]))
    }
    fn serialize_tuple_struct(self, n: &'static str, _l: usize) -> Result<RecSeq, RecErr> {
        aux(|| format!("ts{_l}"));
        Ok(RecSeq(2, n, "", vec![]))
    }
    fn serialize_tuple_variant(self, n: &'static str, _i: u32, v: &'static str, _l: usize) -> Result<RecSeq, RecErr> {
        aux(|| format!("tv{_i}/{_l}"));
        Ok(RecSeq(3, n, v, vec![]))
    }
    fn serialize_map(self, _l: Option<usize>) -> Result<RecMap, RecErr> {
        aux(|| format!("map{_l:?}"));
        Ok(RecMap(vec![], None))
    }
    fn serialize_struct(self, n: &'static str, _l: usize) -> Result<RecStruct, RecErr> {
        aux(|| format!("st{_l}"));
        Ok(RecStruct(n, "", vec![]))
    }
    fn serialize_struct_variant(self, n: &'static str, _i: u32, v: &'static str, _l: usize) -> Result<RecStruct, RecErr> {
        aux(|| format!("sv{_i}/{_l}"));
        Ok(RecStruct(n, v, vec![]))
    }
}

impl RecSeq {
    fn push<T: Serialize + ?Sized>(&mut self, v: &T) -> Result<(), RecErr> {
        self.3.push(v.serialize(Rec)?);
        Ok(())
    }
    fn fin(self) -> Result<SVal, RecErr> {
        Ok(match self.0 {
            0 => SVal::Seq(self.3),
            1 => SVal::Tuple(self.3),
            2 => SVal::TupleStruct(self.1, self.3),
            _ => SVal::TupleVariant(self.1, self.2, self.3),
        })
    }
}
impl SerializeSeq for RecSeq {
    type Ok = SVal;
    type Error = RecErr;
    fn serialize_element<T: Serialize + ?Sized>(&mut self, v: &T) -> Result<(), RecErr> {
        self.push(v)
    }
    fn end(self) -> Result<SVal, RecErr> {
        self.fin()
    }
}
impl SerializeTuple for RecSeq {
    type Ok = SVal;
    type Error = RecErr;
    fn serialize_element<T: Serialize + ?Sized>(&mut self, v: &T) -> Result<(), RecErr> {
        self.push(v)
    }
    fn end(self) -> Result<SVal, RecErr> {
        self.fin()
    }
}
impl SerializeTupleStruct for RecSeq {
    type Ok = SVal;
    type Error = RecErr;
    fn serialize_field<T: Serialize + ?Sized>(&mut self, v: &T) -> Result<(), RecErr> {
        self.push(v)
    }
    fn end(self) -> Result<SVal, RecErr> {
        self.fin()
    }
}
impl SerializeTupleVariant for RecSeq {
    type Ok = SVal;
    type Error = RecErr;
    fn serialize_field<T: Serialize + ?Sized>(&mut self, v: &T) -> Result<(), RecErr> {
        self.push(v)
    }
    fn end(self) -> Result<SVal, RecErr> {
        self.fin()
    }
}
impl SerializeMap for RecMap {
    type Ok = SVal;
    type Error = RecErr;
    fn serialize_key<T: Serialize + ?Sized>(&mut self, k: &T) -> Result<(), RecErr> {
        self.1 = Some(k.serialize(Rec)?);
        Ok(())
    }
    fn serialize_value<T: Serialize + ?Sized>(&mut self, v: &T) -> Result<(), RecErr> {
        let k = self.1.take().expect("key");
        self.0.push((k, v.serialize(Rec)?));
        Ok(())
    }
    fn end(self) -> Result<SVal, RecErr> {
        Ok(SVal::Map(self.0))
    }
}
impl SerializeStruct for RecStruct {
    type Ok = SVal;
    type Error = RecErr;
    fn serialize_field<T: Serialize + ?Sized>(&mut self, k: &'static str, v: &T) -> Result<(), RecErr> {
        self.2.push((k, v.serialize(Rec)?));
        Ok(())
    }
    fn end(self) -> Result<SVal, RecErr> {
        Ok(SVal::Struct(self.0, self.2))
    }
}
impl SerializeStructVariant for RecStruct {
    type Ok = SVal;
    type Error = RecErr;
    fn serialize_field<T: Serialize + ?Sized>(&mut self, k: &'static str, v: &T) -> Result<(), RecErr> {
        self.2.push((k, v.serialize(Rec)?));
        Ok(())
    }
    fn end(self) -> Result<SVal, RecErr> {
        Ok(SVal::StructVariant(self.0, self.1, self.2))
    }
}

// ------------------------------------------------------------------------------------------
// plain trees (NaN normalised: the text form of a NaN carries neither payload nor, after the
// serializer's copysign, a sign)
// ------------------------------------------------------------------------------------------

fn show_dt(d: &Datetime) -> String {
    crate::canon::show_dt(d)
}

fn p_float(f: f64) -> String {
    if f.is_nan() {
        "fnan".into()
    } else {
        format!("f{:016x}", f.to_bits())
    }
}

fn p_join(mut items: Vec<(Vec<u8>, String)>) -> String {
    items.sort_by(|a, b| a.0.cmp(&b.0));
    format!("{{{}}}", items.iter().map(|(k, s)| format!("{}={}", hex(k), s)).collect::<Vec<_>>().join(";"))
}

fn p_toml(v: &toml::Value) -> String {
    match v {
        toml::Value::String(s) => format!("s{}", hex(s.as_bytes())),
        toml::Value::Integer(i) => format!("i{i}"),
        toml::Value::Float(f) => p_float(*f),
        toml::Value::Boolean(b) => format!("b{}", if *b { 1 } else { 0 }),
        toml::Value::Datetime(d) => format!("d{}", show_dt(d)),
        toml::Value::Array(a) => format!("[{}]", a.iter().map(p_toml).collect::<Vec<_>>().join(";")),
        toml::Value::Table(t) => p_toml_table(t),
    }
}

fn p_toml_table(t: &toml::Table) -> String {
    p_join(t.iter().map(|(k, v)| (k.as_bytes().to_vec(), p_toml(v))).collect())
}

fn p_val(v: &toml_edit::Value) -> String {
    use toml_edit::Value;
    match v {
        Value::String(f) => format!("s{}", hex(f.value().as_bytes())),
        Value::Integer(f) => format!("i{}", f.value()),
        Value::Float(f) => p_float(*f.value()),
        Value::Boolean(f) => format!("b{}", if *f.value() { 1 } else { 0 }),
        Value::Datetime(f) => format!("d{}", show_dt(f.value())),
        Value::Array(a) => format!("[{}]", a.iter().map(p_val).collect::<Vec<_>>().join(";")),
        Value::InlineTable(t) => p_join(t.iter().map(|(k, v)| (k.as_bytes().to_vec(), p_val(v))).collect()),
    }
}

fn p_item(i: &toml_edit::Item) -> String {
    use toml_edit::Item;
    match i {
        Item::None => "NONE".into(),
        Item::Value(v) => p_val(v),
        Item::Table(t) => p_tbl(t),
        Item::ArrayOfTables(a) => format!("[{}]", a.iter().map(p_tbl).collect::<Vec<_>>().join(";")),
    }
}

fn p_tbl(t: &toml_edit::Table) -> String {
    p_join(t.iter().map(|(k, v)| (k.as_bytes().to_vec(), p_item(v))).collect())
}

/// what the text means: both parsers, which must agree
fn reparse(text: &str) -> String {
    let a = toml::from_str::<toml::Table>(text).map(|t| p_toml_table(&t));
    let b = text.parse::<toml_edit::DocumentMut>().map(|d| p_tbl(d.as_table()));
    match (a, b) {
        (Ok(a), Ok(b)) => {
            if a == b {
                a
            } else {
                "REPARSE-MISMATCH".into()
            }
        }
        (Err(_), Err(_)) => "REPARSE-ERR".into(),
        _ => "REPARSE-SPLIT".into(),
    }
}

fn edit_err(e: &toml_edit::ser::Error) -> &'static str {
    use toml_edit::ser::Error::*;
    match e {
        UnsupportedType(_) => "UnsupportedType",
        OutOfRange(_) => "OutOfRange",
        UnsupportedNone => "UnsupportedNone",
        KeyNotString => "KeyNotString",
        DateInvalid => "DateInvalid",
        Custom(_) => "Custom",
        _ => "Other",
    }
}

/// `toml::ser::Error` keeps its variant private; its Display is the wrapped error's
fn toml_err(e: &toml::ser::Error) -> &'static str {
    let m = e.to_string();
    if m == "unsupported rust type" || (m.starts_with("unsupported ") && m.ends_with(" type")) {
        "UnsupportedType"
    } else if m.starts_with("out-of-range value") {
        "OutOfRange"
    } else if m == "unsupported None value" {
        "UnsupportedNone"
    } else if m == "map key was not a string" {
        "KeyNotString"
    } else if m == "a serialized date was invalid" {
        "DateInvalid"
    } else {
        "Custom"
    }
}

pub(crate) struct Routes {
    pub ts: Result<String, &'static str>,
    pub tp: Result<String, &'static str>,
    pub es: Result<String, &'static str>,
    pub ep: Result<String, &'static str>,
    pub ed: Result<toml_edit::DocumentMut, &'static str>,
    pub vt: Result<toml::Value, &'static str>,
    pub tt: Result<toml::Table, &'static str>,
}

pub(crate) fn routes<T: Serialize>(v: &T) -> Routes {
    Routes {
        ts: toml::to_string(v).map_err(|e| toml_err(&e)),
        tp: toml::to_string_pretty(v).map_err(|e| toml_err(&e)),
        es: toml_edit::ser::to_string(v).map_err(|e| edit_err(&e)),
        ep: toml_edit::ser::to_string_pretty(v).map_err(|e| edit_err(&e)),
        ed: toml_edit::ser::to_document(v).map_err(|e| edit_err(&e)),
        vt: toml::Value::try_from(v).map_err(|e| toml_err(&e)),
        tt: toml::Table::try_from(v).map_err(|e| toml_err(&e)),
    }
}

fn text_field(name: &str, r: &Result<String, &'static str>, out: &mut Vec<String>) {
    match r {
        Ok(t) => {
            out.push(format!("{name}=ok:{}", reparse(t)));
            out.push(format!("{name}.x={}", hex(t.as_bytes())));
        }
        Err(e) => out.push(format!("{name}=err:{e}")),
    }
}

pub(crate) fn route_fields(r: &Routes, out: &mut Vec<String>) {
    text_field("ts", &r.ts, out);
    text_field("tp", &r.tp, out);
    text_field("es", &r.es, out);
    text_field("ep", &r.ep, out);
    match &r.ed {
        Ok(d) => {
            out.push(format!("ed=ok:{}", p_tbl(d.as_table())));
            let t = d.to_string();
            out.push(format!("edx=ok:{}", reparse(&t)));
        }
        Err(e) => {
            out.push(format!("ed=err:{e}"));
            out.push(format!("edx=err:{e}"));
        }
    }
    match &r.vt {
        Ok(v) => out.push(format!("vt=ok:{}", p_toml(v))),
        Err(e) => out.push(format!("vt=err:{e}")),
    }
    match &r.tt {
        Ok(v) => out.push(format!("tt=ok:{}", p_toml_table(v))),
        Err(e) => out.push(format!("tt=err:{e}")),
    }
}

fn run_dynamic(toks: Vec<&str>) -> String {
    let mut t = Toks { t: toks, i: 0 };
    let v = parse_sval(&mut t);
    assert!(t.i == t.t.len(), "trailing tokens");
    let r = routes(&v);
    let mut out = vec![];
    route_fields(&r, &mut out);
    out.join(" ")
}

// ------------------------------------------------------------------------------------------
// deterministic value generation for the declared types
// ------------------------------------------------------------------------------------------

pub struct Rng(u64);
impl Rng {
    fn new(seed: u64) -> Self {
        let mut r = Rng(seed ^ 0x9E37_79B9_7F4A_7C15);
        if r.0 == 0 {
            r.0 = 1;
        }
        r.next();
        r.next();
        r
    }
    fn next(&mut self) -> u64 {
        // xorshift64*
        let mut x = self.0;
        x ^= x >> 12;
        x ^= x << 25;
        x ^= x >> 27;
        self.0 = x;
        x.wrapping_mul(0x2545_F491_4F6C_DD1D)
    }
    fn below(&mut self, n: u64) -> u64 {
        (self.next() >> 11) % n
    }
    fn pick<'a, T>(&mut self, xs: &'a [T]) -> &'a T {
        &xs[self.below(xs.len() as u64) as usize]
    }
    fn len(&mut self, d: u32) -> usize {
        if d == 0 {
            0
        } else {
            *self.pick(&[0usize, 0, 1, 1, 2, 2, 3, 4])
        }
    }
}

pub trait Gen: Sized {
    fn gen(r: &mut Rng, d: u32) -> Self;
}

const STRS: &[&str] = &[
    "", "a", "key", "a b", "\"", "'", "'''", "\"\"\"", "\\", "\n", "\r\n", "\r", "\t", "\u{0}", "\u{7f}", "\u{1f}", "\u{8}", "\u{c}",
    "é", "日本語", "😀", "a.b", "a=b", "#c", "[x]", "[[x]]", "{y}", "true", "false", "1", "-1", "1979-05-27", "07:32:00", "nan", "inf", "+inf",
    " lead", "trail ", "'\"", "\u{feff}", "\u{85}", "\u{2028}", "\u{e000}", "\u{10ffff}", "\u{d7ff}", "\"\"\"\"\"\"\"", "''''''", "a\\nb", "\\u0000",
    "line1\nline2\n", "tab\there", "a'b\"c", "x = 1", "0x10", "1e5", "_", "-", "a-b_c", "ÀÉ", "\u{301}",
];
const ALPH: &[char] = &['a', 'b', 'Z', '0', '9', '_', '-', ' ', '.', '"', '\'', '\\', '\n', '\t', '#', '=', '[', ']', '{', '}', ',', 'é', '日', '😀', '\u{0}', '\u{7f}', '\r'];

impl Gen for String {
    fn gen(r: &mut Rng, _d: u32) -> Self {
        if r.below(3) > 0 {
            r.pick(STRS).to_string()
        } else {
            let n = r.below(7);
            (0..n).map(|_| *r.pick(ALPH)).collect()
        }
    }
}
impl Gen for char {
    fn gen(r: &mut Rng, _d: u32) -> Self {
        if r.below(2) == 0 {
            *r.pick(ALPH)
        } else {
            *r.pick(&['\u{0}', '\u{7f}', '\u{80}', '\u{7ff}', '\u{800}', '\u{d7ff}', '\u{e000}', '\u{ffff}', '\u{10000}', '\u{10ffff}', '"', '\''])
        }
    }
}
impl Gen for bool {
    fn gen(r: &mut Rng, _d: u32) -> Self {
        r.below(2) == 1
    }
}
macro_rules! gen_int {
    ($t:ty) => {
        impl Gen for $t {
            fn gen(r: &mut Rng, _d: u32) -> Self {
                match r.below(6) {
                    0 => <$t>::MIN,
                    1 => <$t>::MAX,
                    2 => 0,
                    3 => 1,
                    4 => (r.next() % 100) as $t,
                    _ => r.next() as $t,
                }
            }
        }
    };
}
gen_int!(i8);
gen_int!(i16);
gen_int!(i32);
gen_int!(i64);
gen_int!(u8);
gen_int!(u16);
gen_int!(u32);
impl Gen for u64 {
    fn gen(r: &mut Rng, _d: u32) -> Self {
        // in range unless the type (IntEdge) asks for more
        match r.below(5) {
            0 => 0,
            1 => i64::MAX as u64,
            2 => 1,
            3 => r.next() % 1000,
            _ => r.next() >> 1,
        }
    }
}
const F64S: &[u64] = &[
    0, 0x8000000000000000, 0x3ff0000000000000, 0xbff0000000000000, 0x3fb999999999999a, 0x7e37e43c8800759c, 0x01a56e1fc2f8f359, 1, 0x8000000000000001,
    0x7fefffffffffffff, 0xffefffffffffffff, 0x0010000000000000, 0x000fffffffffffff, 0x7ff0000000000000, 0xfff0000000000000, 0x7ff8000000000000,
    0xfff8000000000000, 0x7ff8000000000001, 0x7ff0000000000001, 0x430c6bf526340000, 0x4341c37937e08000, 0x444b1ae4d6e2ef50, 0x419d6f34547e6b75,
    0x3ff0000000000001, 0x4340000000000000, 0x4340000000000001, 0x3eb0c6f7a0b5ed8d, 0x3f1a36e2eb1c432d, 0x4024000000000000, 0x40c3880000000000,
];
impl Gen for f64 {
    fn gen(r: &mut Rng, _d: u32) -> Self {
        match r.below(4) {
            0 | 1 => f64::from_bits(*r.pick(F64S)),
            2 => (r.next() % 2000) as f64 / 8.0 - 100.0,
            _ => f64::from_bits(r.next()),
        }
    }
}
const F32S: &[u32] = &[
    0, 0x80000000, 0x3f800000, 0xbf800000, 0x3dcccccd, 0x7f7fffff, 0xff7fffff, 0x00800000, 0x007fffff, 1, 0x80000001, 0x7f800000, 0xff800000,
    0x7fc00000, 0xffc00000, 0x7fc00001, 0x7f800001, 0x4b800000, 0x4b800001, 0x3f800001, 0x501502f9, 0x322bcc77, 0x41200000,
];
impl Gen for f32 {
    fn gen(r: &mut Rng, _d: u32) -> Self {
        match r.below(4) {
            0 | 1 => f32::from_bits(*r.pick(F32S)),
            2 => (r.next() % 2000) as f32 / 8.0 - 100.0,
            _ => f32::from_bits(r.next() as u32),
        }
    }
}
impl Gen for Date {
    fn gen(r: &mut Rng, _d: u32) -> Self {
        let year = *r.pick(&[0u16, 1, 1979, 2000, 2024, 2100, 9999]);
        let month = 1 + r.below(12) as u8;
        let leap = year % 4 == 0 && (year % 100 != 0 || year % 400 == 0);
        let md = match month {
            2 => {
                if leap {
                    29
                } else {
                    28
                }
            }
            4 | 6 | 9 | 11 => 30,
            _ => 31,
        };
        let rd = 1 + r.below(md as u64) as u8;
        let day = *r.pick(&[1u8, md, rd]);
        Date { year, month, day }
    }
}
impl Gen for Time {
    fn gen(r: &mut Rng, _d: u32) -> Self {
        let (a, b, c, n) = (r.below(24) as u8, r.below(60) as u8, r.below(61) as u8, (r.next() % 1_000_000_000) as u32);
        Time {
            hour: *r.pick(&[0u8, 23, a]),
            minute: *r.pick(&[0u8, 59, b]),
            second: *r.pick(&[0u8, 59, 60, c]),
            nanosecond: *r.pick(&[0u32, 0, 1, 10, 500_000_000, 999_999_999, 120_000, 123_456_789, 100, n]),
        }
    }
}
impl Gen for Datetime {
    fn gen(r: &mut Rng, d: u32) -> Self {
        match r.below(4) {
            0 => Datetime { date: Some(Date::gen(r, d)), time: None, offset: None },
            1 => Datetime { date: None, time: Some(Time::gen(r, d)), offset: None },
            2 => Datetime { date: Some(Date::gen(r, d)), time: Some(Time::gen(r, d)), offset: None },
            _ => {
                let off = match r.below(5) {
                    0 => Offset::Z,
                    1 => Offset::Custom { minutes: 0 },
                    2 => Offset::Custom { minutes: *r.pick(&[-1439i16, 1439, -1, 1, 60, -60, -420]) },
                    _ => Offset::Custom { minutes: r.below(2879) as i16 - 1439 },
                };
                Datetime { date: Some(Date::gen(r, d)), time: Some(Time::gen(r, d)), offset: Some(off) }
            }
        }
    }
}
impl<T: Gen> Gen for Vec<T> {
    fn gen(r: &mut Rng, d: u32) -> Self {
        let n = r.len(d);
        (0..n).map(|_| T::gen(r, d.saturating_sub(1))).collect()
    }
}
impl<T: Gen> Gen for Option<T> {
    fn gen(r: &mut Rng, d: u32) -> Self {
        if d == 0 || r.below(3) == 0 {
            None
        } else {
            Some(T::gen(r, d.saturating_sub(1)))
        }
    }
}
impl<T: Gen> Gen for Box<T> {
    fn gen(r: &mut Rng, d: u32) -> Self {
        Box::new(T::gen(r, d))
    }
}
impl<K: Gen + Ord, T: Gen> Gen for BTreeMap<K, T> {
    fn gen(r: &mut Rng, d: u32) -> Self {
        let n = r.len(d);
        (0..n).map(|_| (K::gen(r, d.saturating_sub(1)), T::gen(r, d.saturating_sub(1)))).collect()
    }
}
impl<A: Gen, B: Gen> Gen for (A, B) {
    fn gen(r: &mut Rng, d: u32) -> Self {
        (A::gen(r, d), B::gen(r, d))
    }
}
impl<A: Gen, B: Gen, C: Gen> Gen for (A, B, C) {
    fn gen(r: &mut Rng, d: u32) -> Self {
        (A::gen(r, d), B::gen(r, d), C::gen(r, d))
    }
}

macro_rules! gen_struct {
    ($t:ident { $($f:ident),* }) => {
        impl Gen for $t {
            fn gen(r: &mut Rng, d: u32) -> Self {
                let _ = (&r, d);
                $t { $($f: Gen::gen(r, d)),* }
            }
        }
    };
}

// ---- the declared family --------------------------------------------------------------------

#[derive(Serialize, Deserialize, PartialEq, Debug, Clone)]
struct Inner {
    x: i64,
    s: String,
}
gen_struct!(Inner { x, s });

#[derive(Serialize, Deserialize, PartialEq, Debug, Clone)]
struct Prims {
    b: bool,
    i8_: i8,
    i16_: i16,
    i32_: i32,
    i64_: i64,
    u8_: u8,
    u16_: u16,
    u32_: u32,
    u64_: u64,
    f32_: f32,
    f64_: f64,
    c: char,
    s: String,
}
gen_struct!(Prims { b, i8_, i16_, i32_, i64_, u8_, u16_, u32_, u64_, f32_, f64_, c, s });

#[derive(Serialize, Deserialize, PartialEq, Debug, Clone)]
struct Mid {
    k: bool,
    inner: Inner,
}
gen_struct!(Mid { k, inner });

#[derive(Serialize, Deserialize, PartialEq, Debug, Clone)]
struct Nested {
    a: Inner,
    z: i64,
    b: Mid,
    y: String,
}
gen_struct!(Nested { a, z, b, y });

#[derive(Serialize, Deserialize, PartialEq, Eq, PartialOrd, Ord, Debug, Clone, Copy)]
enum UnitK {
    Alpha,
    #[serde(rename = "be ta")]
    Beta,
    #[serde(rename = "")]
    Gamma,
    #[serde(rename = "d\"q")]
    Delta,
}
impl Gen for UnitK {
    fn gen(r: &mut Rng, _d: u32) -> Self {
        *r.pick(&[UnitK::Alpha, UnitK::Beta, UnitK::Gamma, UnitK::Delta])
    }
}

#[derive(Serialize, Deserialize, PartialEq, Debug, Clone)]
struct MapS {
    m: BTreeMap<String, i64>,
    n: BTreeMap<String, Inner>,
    o: BTreeMap<String, BTreeMap<String, String>>,
}
gen_struct!(MapS { m, n, o });

/// maps whose VALUES are options (a `None` value is a map entry, not an absent struct field)
#[derive(Serialize, Deserialize, PartialEq, Debug, Clone)]
struct MapOpt {
    m: BTreeMap<String, Option<i64>>,
    n: BTreeMap<String, Option<Inner>>,
    last: i64,
}
gen_struct!(MapOpt { m, n, last });

#[derive(Serialize, Deserialize, PartialEq, Debug, Clone)]
struct MapK {
    m: BTreeMap<UnitK, String>,
    n: BTreeMap<UnitK, Inner>,
    k: UnitK,
}
gen_struct!(MapK { m, n, k });

#[derive(Serialize, Deserialize, PartialEq, Debug, Clone)]
struct Seqs {
    v: Vec<i64>,
    w: Vec<String>,
    x: Vec<Inner>,
    y: Vec<Vec<i64>>,
    z: Vec<Vec<Inner>>,
}
gen_struct!(Seqs { v, w, x, y, z });

#[derive(Serialize, Deserialize, PartialEq, Debug, Clone)]
struct TS(i64, String);
impl Gen for TS {
    fn gen(r: &mut Rng, d: u32) -> Self {
        TS(Gen::gen(r, d), Gen::gen(r, d))
    }
}
#[derive(Serialize, Deserialize, PartialEq, Debug, Clone)]
struct NT(String);
impl Gen for NT {
    fn gen(r: &mut Rng, d: u32) -> Self {
        NT(Gen::gen(r, d))
    }
}
#[derive(Serialize, Deserialize, PartialEq, Debug, Clone)]
struct NTI(Inner);
impl Gen for NTI {
    fn gen(r: &mut Rng, d: u32) -> Self {
        NTI(Gen::gen(r, d))
    }
}
#[derive(Serialize, Deserialize, PartialEq, Debug, Clone)]
struct NTV(Vec<Inner>);
impl Gen for NTV {
    fn gen(r: &mut Rng, d: u32) -> Self {
        NTV(Gen::gen(r, d))
    }
}

#[derive(Serialize, Deserialize, PartialEq, Debug, Clone)]
struct Tuples {
    t: (i64, String, f64),
    u: (Inner, bool),
    ts: TS,
    nt: NT,
    nti: NTI,
    ntv: NTV,
    vt: Vec<(String, i64)>,
}
gen_struct!(Tuples { t, u, ts, nt, nti, ntv, vt });

#[derive(Serialize, Deserialize, PartialEq, Debug, Clone)]
struct Opts {
    a: Option<i64>,
    b: Option<String>,
    c: Option<Inner>,
    d: Option<Vec<i64>>,
    e: Option<Vec<Inner>>,
    f: Option<BTreeMap<String, i64>>,
    g: Option<f64>,
    h: Option<NTI>,
    last: i64,
}
gen_struct!(Opts { a, b, c, d, e, f, g, h, last });

#[derive(Serialize, Deserialize, PartialEq, Debug, Clone)]
enum E {
    U,
    #[serde(rename = "u 2")]
    U2,
    N(String),
    NI(Inner),
    T(i64, String),
    S { a: i64, b: String },
    SN { i: Inner, o: Option<i64> },
    NV(Vec<i64>),
}
impl Gen for E {
    fn gen(r: &mut Rng, d: u32) -> Self {
        match r.below(8) {
            0 => E::U,
            1 => E::U2,
            2 => E::N(Gen::gen(r, d)),
            3 => E::NI(Gen::gen(r, d)),
            4 => E::T(Gen::gen(r, d), Gen::gen(r, d)),
            5 => E::S { a: Gen::gen(r, d), b: Gen::gen(r, d) },
            6 => E::SN { i: Gen::gen(r, d), o: Gen::gen(r, d.max(1)) },
            _ => E::NV(Gen::gen(r, d.max(1))),
        }
    }
}

#[derive(Serialize, Deserialize, PartialEq, Debug, Clone)]
struct Enums {
    a: E,
    b: E,
    c: E,
    d: E,
}
gen_struct!(Enums { a, b, c, d });

#[derive(Serialize, Deserialize, PartialEq, Debug, Clone)]
struct EnumSeq {
    v: Vec<E>,
}
gen_struct!(EnumSeq { v });

#[derive(Serialize, Deserialize, PartialEq, Debug, Clone)]
struct EnumMap {
    m: BTreeMap<String, E>,
    k: BTreeMap<UnitK, E>,
}
gen_struct!(EnumMap { m, k });

#[derive(Serialize, Deserialize, PartialEq, Debug, Clone)]
struct EnumNest {
    v: Vec<BTreeMap<String, Vec<E>>>,
    m: BTreeMap<String, Vec<E>>,
    o: Option<Vec<E>>,
}
gen_struct!(EnumNest { v, m, o });

#[derive(Serialize, Deserialize, PartialEq, Debug, Clone)]
#[serde(untagged)]
enum Mix {
    B(bool),
    I(i64),
    F(f64),
    S(String),
    A(Vec<Mix>),
    T(Inner),
    M(BTreeMap<String, Mix>),
}
impl Gen for Mix {
    fn gen(r: &mut Rng, d: u32) -> Self {
        let k = if d == 0 { r.below(4) } else { r.below(7) };
        match k {
            0 => Mix::B(Gen::gen(r, d)),
            1 => Mix::I(Gen::gen(r, d)),
            2 => Mix::F(Gen::gen(r, d)),
            3 => Mix::S(Gen::gen(r, d)),
            4 => Mix::A(Gen::gen(r, d)),
            5 => Mix::T(Gen::gen(r, d)),
            _ => {
                // a map that cannot be mistaken for `Inner`
                let mut m: BTreeMap<String, Mix> = Gen::gen(r, d);
                if m.contains_key("x") && m.contains_key("s") {
                    m.remove("x");
                }
                Mix::M(m)
            }
        }
    }
}

#[derive(Serialize, Deserialize, PartialEq, Debug, Clone)]
struct Mixed {
    v: Vec<Mix>,
    w: Vec<Vec<Mix>>,
}
gen_struct!(Mixed { v, w });

#[derive(Serialize, Deserialize, PartialEq, Debug, Clone)]
struct OptInner {
    x: Option<i64>,
    y: Option<Inner>,
}
gen_struct!(OptInner { x, y });

#[derive(Serialize, Deserialize, PartialEq, Debug, Clone)]
struct OptTbl {
    a: Option<Inner>,
    b: Option<Nested>,
    c: Vec<OptInner>,
    d: Option<OptInner>,
}
gen_struct!(OptTbl { a, b, c, d });

#[derive(Serialize, Deserialize, PartialEq, Debug, Clone)]
struct Nothing {}
gen_struct!(Nothing {});

#[derive(Serialize, Deserialize, PartialEq, Debug, Clone)]
struct Empties {
    v: Vec<i64>,
    m: BTreeMap<String, i64>,
    s: String,
    e: Nothing,
    ve: Vec<Nothing>,
    vv: Vec<Vec<i64>>,
    vm: Vec<BTreeMap<String, i64>>,
    me: BTreeMap<String, Nothing>,
    mv: BTreeMap<String, Vec<Nothing>>,
}
impl Gen for Empties {
    fn gen(r: &mut Rng, _d: u32) -> Self {
        // every container empty or holding empties; the seed chooses which
        let k = r.next();
        let bit = |i: u32| (k >> i) & 1 == 1;
        Empties {
            v: vec![],
            m: BTreeMap::new(),
            s: String::new(),
            e: Nothing {},
            ve: if bit(0) { vec![] } else { vec![Nothing {}; 1 + (k >> 8) as usize % 3] },
            vv: if bit(1) { vec![] } else { vec![vec![]; 1 + (k >> 10) as usize % 3] },
            vm: if bit(2) { vec![] } else { vec![BTreeMap::new(); 1 + (k >> 12) as usize % 3] },
            me: if bit(3) { BTreeMap::new() } else { [("k".to_string(), Nothing {}), ("".to_string(), Nothing {})].into_iter().collect() },
            mv: if bit(4) {
                BTreeMap::new()
            } else {
                [("a".to_string(), vec![]), ("b".to_string(), vec![Nothing {}])].into_iter().collect()
            },
        }
    }
}

#[derive(Serialize, Deserialize, PartialEq, Debug, Clone)]
struct Dts {
    a: Datetime,
    d: Date,
    t: Time,
    v: Vec<Datetime>,
    m: BTreeMap<String, Datetime>,
    o: Option<Datetime>,
    s: Vec<DtIn>,
}
#[derive(Serialize, Deserialize, PartialEq, Debug, Clone)]
struct DtIn {
    when: Datetime,
}
gen_struct!(DtIn { when });
gen_struct!(Dts { a, d, t, v, m, o, s });

#[derive(Serialize, Deserialize, PartialEq, Debug, Clone)]
struct Floats {
    f: f64,
    g: f32,
    v: Vec<f64>,
    w: Vec<f32>,
    m: BTreeMap<String, f64>,
    t: (f32, f64),
}
gen_struct!(Floats { f, g, v, w, m, t });

#[derive(Serialize, Deserialize, PartialEq, Debug, Clone)]
struct Strs {
    s: String,
    c: char,
    v: Vec<String>,
    cs: Vec<char>,
    m: BTreeMap<String, String>,
    #[serde(rename = "")]
    empty_name: String,
    #[serde(rename = "a.b \"c\"")]
    odd_name: String,
}
gen_struct!(Strs { s, c, v, cs, m, empty_name, odd_name });

#[derive(Serialize, Deserialize, PartialEq, Debug, Clone)]
enum RootE {
    N(Inner),
    NM(BTreeMap<String, E>),
    S { a: i64, v: Vec<E> },
    T(i64, i64),
    U,
    NS(String),
}
impl Gen for RootE {
    fn gen(r: &mut Rng, d: u32) -> Self {
        match r.below(7) {
            0 | 1 => RootE::N(Gen::gen(r, d)),
            2 => RootE::NM(Gen::gen(r, d)),
            3 => RootE::S { a: Gen::gen(r, d), v: Gen::gen(r, d) },
            4 => RootE::T(Gen::gen(r, d), Gen::gen(r, d)),
            5 => RootE::U,
            _ => RootE::NS(Gen::gen(r, d)),
        }
    }
}

#[derive(Serialize, Deserialize, PartialEq, Debug, Clone)]
struct Deep {
    v: i64,
    kids: Vec<Deep>,
    m: BTreeMap<String, Deep>,
    o: Option<Box<Deep>>,
    e: Vec<E>,
}
impl Gen for Deep {
    fn gen(r: &mut Rng, d: u32) -> Self {
        let d1 = d.saturating_sub(1);
        Deep { v: Gen::gen(r, d), kids: Gen::gen(r, d1), m: Gen::gen(r, d1), o: Gen::gen(r, d1), e: Gen::gen(r, d1.min(1)) }
    }
}

#[derive(Serialize, Deserialize, PartialEq, Debug, Clone)]
struct IntEdge {
    a: u64,
    v: Vec<u64>,
    i: i64,
}
impl Gen for IntEdge {
    fn gen(r: &mut Rng, d: u32) -> Self {
        let big = |r: &mut Rng| {
            let x = r.next();
            *r.pick(&[u64::MAX, i64::MAX as u64 + 1, i64::MAX as u64, 0, x])
        };
        let n = r.len(d);
        IntEdge { a: big(r), v: (0..n).map(|_| big(r)).collect(), i: Gen::gen(r, d) }
    }
}

#[derive(Serialize, Deserialize, PartialEq, Debug, Clone)]
struct Wide {
    a: i128,
    b: u128,
}
impl Gen for Wide {
    fn gen(r: &mut Rng, _d: u32) -> Self {
        Wide { a: *r.pick(&[0i128, -1, i128::MAX, i64::MAX as i128 + 1, 5]), b: *r.pick(&[0u128, 1, u128::MAX, 7]) }
    }
}

#[derive(Serialize, Deserialize, PartialEq, Debug, Clone)]
struct Units {
    x: i64,
    u: (),
}
impl Gen for Units {
    fn gen(r: &mut Rng, d: u32) -> Self {
        Units { x: Gen::gen(r, d), u: () }
    }
}

#[derive(Serialize, Deserialize, PartialEq, Debug, Clone)]
struct SeqNone {
    v: Vec<Option<i64>>,
}
gen_struct!(SeqNone { v });

#[derive(Serialize, Deserialize, PartialEq, Debug, Clone)]
struct BadKeys {
    m: BTreeMap<i64, String>,
}
gen_struct!(BadKeys { m });

#[derive(Serialize, Deserialize, PartialEq, Debug, Clone)]
struct CharKeys {
    m: BTreeMap<char, i64>,
}
gen_struct!(CharKeys { m });

#[derive(Serialize, Deserialize, PartialEq, Debug, Clone)]
struct NtKeys {
    m: BTreeMap<NTK, i64>,
}
#[derive(Serialize, Deserialize, PartialEq, Eq, PartialOrd, Ord, Debug, Clone)]
struct NTK(String);
impl Gen for NTK {
    fn gen(r: &mut Rng, d: u32) -> Self {
        NTK(Gen::gen(r, d))
    }
}
gen_struct!(NtKeys { m });

// ---- typed runs -----------------------------------------------------------------------------

fn verdict<T: Serialize>(orig: &SVal, back: Result<T, ()>) -> &'static str {
    match back {
        Ok(b) => {
            if eqv(orig, &record(&b)) {
                "eq"
            } else {
                "NE"
            }
        }
        Err(()) => "deerr",
    }
}

fn run_typed<T: Serialize + DeserializeOwned + Gen>(seed: u64, depth: u32) -> String {
    let mut rng = Rng::new(seed);
    let v = T::gen(&mut rng, depth);
    let sv = record(&v);
    let r = routes(&v);
    let mut out = vec![];
    route_fields(&r, &mut out);
    for (name, res) in [("ts", &r.ts), ("tp", &r.tp), ("es", &r.es), ("ep", &r.ep)] {
        if let Ok(text) = res {
            let a = verdict(&sv, toml::from_str::<T>(text).map_err(|_| ()));
            let b = verdict(&sv, toml_edit::de::from_str::<T>(text).map_err(|_| ()));
            out.push(format!("{name}.rt={a},{b}"));
        }
    }
    if let Ok(d) = &r.ed {
        out.push(format!("ed.rt={}", verdict(&sv, toml_edit::de::from_document::<T>(d.clone()).map_err(|_| ()))));
    }
    if let Ok(x) = &r.vt {
        out.push(format!("vt.rt={}", verdict(&sv, x.clone().try_into::<T>().map_err(|_| ()))));
    }
    if let Ok(x) = &r.tt {
        out.push(format!("tt.rt={}", verdict(&sv, x.clone().try_into::<T>().map_err(|_| ()))));
    }
    let mut tk = vec![];
    tokens(&sv, &mut tk);
    out.push(format!("sval={}", tk.join(",")));
    out.join(" ")
}


// ---- toml::Value / toml::Table as the serialized type ----------------------------------------
// `impl Serialize for toml::Value` is code of the crate (three passes over a table's entries), so the value
// itself — not the recorded serde calls — is the reference here.

const TV_KEYS: &[&str] = &["a", "b", "c", "key", "a b", "", "é", "a.b", "1", "zz", "t", "arr"];

fn g_tv(r: &mut Rng, d: u32) -> toml::Value {
    let top = if d == 0 { 5 } else { 8 };
    match r.below(top) {
        0 => toml::Value::Integer(*r.pick(&[0, 1, -1, 42, i64::MAX, i64::MIN])),
        1 => toml::Value::String(r.pick(STRS).to_string()),
        2 => toml::Value::Boolean(r.below(2) == 1),
        3 => toml::Value::Float(*r.pick(&[0.0, -0.0, 1.5, -2.25, 1e300, f64::INFINITY, f64::NEG_INFINITY, f64::NAN, 0.1])),
        4 => toml::Value::Datetime(Datetime::gen(r, d)),
        5 | 6 => {
            // arrays: scalars only, tables only, or mixed in either order
            let n = r.below(4) as usize;
            let style = r.below(4);
            toml::Value::Array(
                (0..n)
                    .map(|i| match style {
                        0 => g_tv(r, 0),
                        1 => toml::Value::Table(g_tv_table(r, d - 1)),
                        2 if i % 2 == 0 => g_tv(r, 0),
                        2 => toml::Value::Table(g_tv_table(r, d - 1)),
                        _ => g_tv(r, d - 1),
                    })
                    .collect(),
            )
        }
        _ => toml::Value::Table(g_tv_table(r, d - 1)),
    }
}

fn g_tv_table(r: &mut Rng, d: u32) -> toml::Table {
    let n = r.below(4) as usize;
    let mut t = toml::Table::new();
    for _ in 0..n {
        t.insert(r.pick(TV_KEYS).to_string(), g_tv(r, d));
    }
    t
}

#[derive(Serialize, serde::Deserialize, Clone)]
struct Holder {
    name: String,
    meta: toml::Value,
    list: Vec<toml::Value>,
    tbl: toml::Table,
    last: i64,
}

fn canon_holder(h: &Holder) -> String {
    format!(
        "{}|{}|{}|{}|{}",
        hex(h.name.as_bytes()),
        plain_toml(&h.meta),
        h.list.iter().map(plain_toml).collect::<Vec<_>>().join(","),
        plain_toml_table(&h.tbl),
        h.last
    )
}

fn verdict_c<T>(orig: &str, back: Result<T, ()>, canon: &dyn Fn(&T) -> String) -> &'static str {
    match back {
        Ok(b) => {
            if canon(&b) == orig {
                "eq"
            } else {
                "NE"
            }
        }
        Err(()) => "deerr",
    }
}

/// like `run_typed`, but "reads back as the same value" is judged on the values themselves
fn run_typed_canon<T: Serialize + DeserializeOwned>(v: T, canon: &dyn Fn(&T) -> String) -> String {
    let orig = canon(&v);
    let sv = record(&v);
    let r = routes(&v);
    let mut out = vec![];
    route_fields(&r, &mut out);
    for (name, res) in [("ts", &r.ts), ("tp", &r.tp), ("es", &r.es), ("ep", &r.ep)] {
        if let Ok(text) = res {
            let a = verdict_c(&orig, toml::from_str::<T>(text).map_err(|_| ()), canon);
            let b = verdict_c(&orig, toml_edit::de::from_str::<T>(text).map_err(|_| ()), canon);
            out.push(format!("{name}.rt={a},{b}"));
        }
    }
    if let Ok(d) = &r.ed {
        out.push(format!("ed.rt={}", verdict_c(&orig, toml_edit::de::from_document::<T>(d.clone()).map_err(|_| ()), canon)));
    }
    if let Ok(x) = &r.vt {
        out.push(format!("vt.rt={}", verdict_c(&orig, x.clone().try_into::<T>().map_err(|_| ()), canon)));
    }
    if let Ok(x) = &r.tt {
        out.push(format!("tt.rt={}", verdict_c(&orig, x.clone().try_into::<T>().map_err(|_| ()), canon)));
    }
    let mut tk = vec![];
    tokens(&sv, &mut tk);
    out.push(format!("sval={}", tk.join(",")));
    out.join(" ")
}

fn run_tomlvalue(seed: u64, depth: u32, holder: bool) -> String {
    let mut r = Rng::new(seed);
    if holder {
        let h = Holder {
            name: r.pick(STRS).to_string(),
            meta: g_tv(&mut r, depth),
            list: (0..r.below(3)).map(|_| g_tv(&mut r, depth)).collect(),
            tbl: g_tv_table(&mut r, depth),
            last: 7,
        };
        run_typed_canon(h, &canon_holder)
    } else {
        run_typed_canon(toml::Value::Table(g_tv_table(&mut r, depth + 1)), &|v| plain_toml(v))
    }
}

#[allow(dead_code)]
pub const TYPES: &[&str] = &[
    "Prims", "Nested", "MapS", "MapK", "Seqs", "Tuples", "Opts", "Enums", "EnumSeq", "EnumMap", "EnumNest", "Mixed", "OptTbl", "Empties", "Dts",
    "Floats", "Strs", "RootE", "RootMap", "RootMapE", "Deep", "IntEdge", "Wide", "Units", "SeqNone", "BadKeys", "CharKeys", "NtKeys", "RootVec",
    "RootInt", "RootStr", "RootTuple", "RootOpt", "RootNt", "RootUnit", "RootDt", "RootE2", "TomlValue", "Holder", "MapOpt",
];

fn typed(name: &str, seed: u64) -> String {
    let d = 1 + (seed % 3) as u32;
    match name {
        "Prims" => run_typed::<Prims>(seed, d),
        "Nested" => run_typed::<Nested>(seed, d),
        "MapS" => run_typed::<MapS>(seed, d + 1),
        "MapK" => run_typed::<MapK>(seed, d),
        "MapOpt" => run_typed::<MapOpt>(seed, d + 1),
        "Seqs" => run_typed::<Seqs>(seed, d + 1),
        "Tuples" => run_typed::<Tuples>(seed, d),
        "Opts" => run_typed::<Opts>(seed, d + 1),
        "Enums" => run_typed::<Enums>(seed, d),
        "EnumSeq" => run_typed::<EnumSeq>(seed, d),
        "EnumMap" => run_typed::<EnumMap>(seed, d),
        "EnumNest" => run_typed::<EnumNest>(seed, d + 2),
        "Mixed" => run_typed::<Mixed>(seed, d + 1),
        "OptTbl" => run_typed::<OptTbl>(seed, d + 1),
        "Empties" => run_typed::<Empties>(seed, d),
        "Dts" => run_typed::<Dts>(seed, d),
        "Floats" => run_typed::<Floats>(seed, d),
        "Strs" => run_typed::<Strs>(seed, d),
        "RootE" => run_typed::<RootE>(seed, d),
        "RootMap" => run_typed::<BTreeMap<String, Inner>>(seed, d),
        "RootMapE" => run_typed::<BTreeMap<String, Vec<E>>>(seed, d + 1),
        "Deep" => run_typed::<Deep>(seed, d + 1),
        "IntEdge" => run_typed::<IntEdge>(seed, d),
        "Wide" => run_typed::<Wide>(seed, d),
        "Units" => run_typed::<Units>(seed, d),
        "SeqNone" => run_typed::<SeqNone>(seed, d + 1),
        "BadKeys" => run_typed::<BadKeys>(seed, d),
        "CharKeys" => run_typed::<CharKeys>(seed, d),
        "NtKeys" => run_typed::<NtKeys>(seed, d),
        "RootVec" => run_typed::<Vec<Inner>>(seed, d),
        "RootInt" => run_typed::<i64>(seed, d),
        "RootStr" => run_typed::<String>(seed, d),
        "RootTuple" => run_typed::<(i64, Inner)>(seed, d),
        "RootOpt" => run_typed::<Option<Inner>>(seed, d),
        "RootNt" => run_typed::<NTI>(seed, d),
        "RootUnit" => run_typed::<()>(seed, d),
        "RootDt" => run_typed::<Datetime>(seed, d),
        "RootE2" => run_typed::<E>(seed, d),
        "TomlValue" => run_tomlvalue(seed, d + 1, false),
        "Holder" => run_tomlvalue(seed, d + 1, true),
        _ => panic!("type"),
    }
}

impl Gen for () {
    fn gen(_r: &mut Rng, _d: u32) -> Self {}
}

pub fn run(line: &str) -> String {
    let p: Vec<&str> = line.split(' ').collect();
    match p[0] {
        k if k.starts_with("rtt") && p.len() == 3 => crate::c07typed::rtt(p[1], p[2]),
        "dvc" if p.len() == 4 => crate::c07typed::dvc(p[1], p[2], p[3].parse().expect("seed")),
        k if k.starts_with('d') => run_dynamic(p[1..].to_vec()),
        "t" => typed(p[1], p[2].parse().expect("seed")),
        _ => panic!("kind"),
    }
}
