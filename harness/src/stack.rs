//! mode `stack`: everything a caller can do with a document, on a 2 MiB thread stack (C05)
use crate::canon::*;
use crate::util::*;

pub fn run(line: &str) -> String {
    let bytes = unhex(line);
    let h = std::thread::Builder::new()
        .stack_size(2 * 1024 * 1024)
        .spawn(move || {
            let text = match String::from_utf8(bytes) {
                Ok(t) => t,
                Err(_) => return "err".to_string(),
            };
            let im = toml_edit::ImDocument::parse(text.clone());
            let tv = toml::from_str::<toml::Value>(&text);
            match im {
                Err(e) => {
                    let _ = e.to_string();
                    let _ = format!("{e:?}");
                    if tv.is_ok() {
                        return "mixed".into();
                    }
                    "err".into()
                }
                Ok(im) => {
                    let depth = depth_tbl(im.as_table());
                    let printed = im.to_string();
                    let dbg = format!("{im:?}");
                    let m = im.into_mut();
                    let c = m.clone();
                    let p2 = c.to_string();
                    drop(c);
                    let de = toml_edit::de::from_document::<toml::Value>(m.clone());
                    drop(m);
                    let tv = match tv {
                        Ok(v) => v,
                        Err(_) => return "mixed".into(),
                    };
                    let tp = tv.to_string();
                    let tdbg = format!("{tv:?}");
                    let tc = tv.clone();
                    drop(tv);
                    drop(tc);
                    let _ = (printed.len(), dbg.len(), p2.len(), tp.len(), tdbg.len(), de.is_ok());
                    format!("ok depth={depth}")
                }
            }
        })
        .unwrap();
    match h.join() {
        Ok(s) => s,
        Err(_) => "PANIC-in-thread".into(),
    }
}
