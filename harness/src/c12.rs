//! C12: date-times. cases: `s <hex>` (a string through both parsers) or `v <date> <time> <off>` (a value printed then parsed)
use crate::util::*;
use toml_datetime::{Date, Datetime, Offset, Time};

fn show(d: &Datetime) -> String {
    let ds = match &d.date {
        Some(x) => format!("{}-{}-{}", x.year, x.month, x.day),
        None => "-".into(),
    };
    let ts = match &d.time {
        Some(t) => format!("{}:{}:{}:{}", t.hour, t.minute, t.second, t.nanosecond),
        None => "-".into(),
    };
    let os = match &d.offset {
        Some(Offset::Z) => "Z".into(),
        Some(Offset::Custom { minutes }) => format!("{minutes}"),
        None => "-".into(),
    };
    format!("{ds}|{ts}|{os}")
}

fn std_parse(s: &str) -> String {
    match s.parse::<Datetime>() {
        Ok(d) => show(&d),
        Err(_) => "err".into(),
    }
}

fn doc_parse(s: &str) -> String {
    match s.parse::<toml_edit::Value>() {
        Ok(toml_edit::Value::Datetime(f)) => show(f.value()),
        _ => "err".into(),
    }
}

pub fn run(line: &str) -> String {
    let p: Vec<&str> = line.split(' ').collect();
    match p[0] {
        "s" => {
            let s = unhex_str(p[1]);
            let a = s.parse::<Datetime>();
            let disp = match &a {
                Ok(d) => hex(d.to_string().as_bytes()),
                Err(_) => "-".into(),
            };
            let rt = match &a {
                Ok(d) => {
                    let t = d.to_string();
                    format!("{},{}", std_parse(&t), doc_parse(&t))
                }
                Err(_) => "-".into(),
            };
            format!("std={} doc={} disp={} rt={}", std_parse(&s), doc_parse(&s), disp, rt)
        }
        "v" => {
            let date = if p[1] == "-" {
                None
            } else {
                let f: Vec<&str> = p[1].split('-').collect();
                Some(Date { year: f[0].parse().unwrap(), month: f[1].parse().unwrap(), day: f[2].parse().unwrap() })
            };
            let time = if p[2] == "-" {
                None
            } else {
                let f: Vec<&str> = p[2].split(':').collect();
                Some(Time { hour: f[0].parse().unwrap(), minute: f[1].parse().unwrap(), second: f[2].parse().unwrap(), nanosecond: f[3].parse().unwrap() })
            };
            let offset = match p[3] {
                "-" => None,
                "Z" => Some(Offset::Z),
                m => Some(Offset::Custom { minutes: m.parse().unwrap() }),
            };
            let dt = Datetime { date, time, offset };
            let txt = dt.to_string();
            format!("disp={} std={} doc={}", hex(txt.as_bytes()), std_parse(&txt), doc_parse(&txt))
        }
        _ => panic!("kind"),
    }
}
