//! C14, second sentence: `serde_spanned::Spanned<T>` as a target (mode `c14s`).
//!
//! `sp <flavour> <sty> <hex document>`: `STySeed(sty)` driven through
//!   td  `toml::de::Deserializer::new(text)`,  ed  `toml_edit::de::Deserializer::parse(text)`,
//!   dm  `toml_edit::de::Deserializer::from(DocumentMut)` (no spans)
//! and for each `ok:<sdec>` or `err span=… keys=…` (as mode `c15d`).
//!
//! <sty> := <ty of c13typed.rs without P / K inside>  (driven by `TySeed`)
//!        | P(<sty>)   `Spanned<T>`: `deserialize_struct(serde_spanned::__unstable::NAME, [START, END, VALUE], visitor)` with the
//!                     `visit_map` of serde_spanned/src/spanned.rs (keys read as `&str`, the three private names, duplicate /
//!                     unknown / missing field errors), the value through the inner seed
//!        | O(<sty>) | N(<sty>) | V(<sty>) | M(<sty>) | K(<key>,<sty>) | S(<hexname>[:?]<sty>,…) | E(<hexname>[:N(<sty>)],…)
//! <key> := s | N(<key>) | P(<key>)
//! <sdec>: the `Dec` strings of c13typed.rs, `P<a>..<b>(<sdec>)` for a `Spanned`, maps `{<key>=<sdec>;…}` in DOCUMENT order with
//! <key> = hex | W(<key>) | P<a>..<b>(<key>).
use crate::c13typed::*;
use crate::util::*;
use serde::de::{self, DeserializeSeed, Deserializer, EnumAccess, IgnoredAny, MapAccess, SeqAccess, VariantAccess, Visitor};
use serde_spanned::__unstable::{END_FIELD, NAME, START_FIELD, VALUE_FIELD};
use std::fmt;

static SP_FIELDS: [&str; 3] = [START_FIELD, END_FIELD, VALUE_FIELD];

#[derive(Debug)]
pub enum KeyTy {
    Str,
    Newtype(Box<KeyTy>),
    Spanned(Box<KeyTy>),
}

#[derive(Debug)]
pub struct SField {
    name: String,
    ty: STy,
    dflt: bool,
}

#[derive(Debug)]
pub enum STy {
    Plain(Ty),
    Spanned(Box<STy>),
    Opt(Box<STy>),
    Newtype(Box<STy>),
    Seq(Box<STy>),
    Map(KeyTy, Box<STy>),
    Struct(Vec<SField>, &'static [&'static str]),
    Enum(Vec<(String, Option<STy>)>, &'static [&'static str]),
}

fn leak_names(names: Vec<String>) -> &'static [&'static str] {
    let v: Vec<&'static str> = names.into_iter().map(|s| &*Box::leak(s.into_boxed_str())).collect();
    Box::leak(v.into_boxed_slice())
}

/// index just after the expression starting at `i` (a word, or `X(...)` with balanced parentheses)
fn extent(b: &[u8], i: usize) -> usize {
    let mut j = i;
    while j < b.len() && b[j] != b'(' && b[j] != b',' && b[j] != b')' {
        j += 1;
    }
    if j < b.len() && b[j] == b'(' {
        let mut depth = 0;
        while j < b.len() {
            if b[j] == b'(' {
                depth += 1;
            } else if b[j] == b')' {
                depth -= 1;
                if depth == 0 {
                    return j + 1;
                }
            }
            j += 1;
        }
        panic!("type syntax: parentheses");
    }
    j
}

fn parse_key(b: &[u8], i: &mut usize) -> KeyTy {
    match b[*i] {
        b's' => {
            *i += 1;
            KeyTy::Str
        }
        c @ (b'N' | b'P') => {
            assert_eq!(b[*i + 1], b'(');
            *i += 2;
            let k = parse_key(b, i);
            assert_eq!(b[*i], b')');
            *i += 1;
            if c == b'N' {
                KeyTy::Newtype(Box::new(k))
            } else {
                KeyTy::Spanned(Box::new(k))
            }
        }
        _ => panic!("type syntax: key"),
    }
}

fn hexname(b: &[u8], i: &mut usize) -> String {
    let s = *i;
    while *i < b.len() && (b[*i].is_ascii_lowercase() || b[*i].is_ascii_digit() || b[*i] == b'-') {
        *i += 1;
    }
    unhex_str(std::str::from_utf8(&b[s..*i]).unwrap())
}

fn parse_sty(b: &[u8], i: &mut usize) -> STy {
    let end = extent(b, *i);
    let text = std::str::from_utf8(&b[*i..end]).unwrap();
    if !text.contains("P(") && !text.contains("K(") {
        *i = end;
        return STy::Plain(parse_ty(text));
    }
    let c = b[*i];
    assert_eq!(b[*i + 1], b'(', "type syntax: constructor");
    *i += 2;
    let one = |i: &mut usize| -> Box<STy> {
        let t = parse_sty(b, i);
        assert_eq!(b[*i], b')');
        *i += 1;
        Box::new(t)
    };
    match c {
        b'P' => STy::Spanned(one(i)),
        b'O' => STy::Opt(one(i)),
        b'N' => STy::Newtype(one(i)),
        b'V' => STy::Seq(one(i)),
        b'M' => STy::Map(KeyTy::Str, one(i)),
        b'K' => {
            let k = parse_key(b, i);
            assert_eq!(b[*i], b',');
            *i += 1;
            STy::Map(k, one(i))
        }
        b'S' => {
            let mut fs = Vec::new();
            if b[*i] == b')' {
                *i += 1;
            } else {
                loop {
                    let name = hexname(b, i);
                    let m = b[*i];
                    assert!(m == b':' || m == b'?');
                    *i += 1;
                    let ty = parse_sty(b, i);
                    fs.push(SField { name, ty, dflt: m == b'?' });
                    let d = b[*i];
                    *i += 1;
                    if d == b')' {
                        break;
                    }
                    assert_eq!(d, b',');
                }
            }
            let names = leak_names(fs.iter().map(|f| f.name.clone()).collect());
            STy::Struct(fs, names)
        }
        b'E' => {
            let mut vs = Vec::new();
            loop {
                let name = hexname(b, i);
                let mut payload = None;
                if b[*i] == b':' {
                    assert_eq!(&b[*i..*i + 3], b":N(");
                    *i += 3;
                    payload = Some(parse_sty(b, i));
                    assert_eq!(b[*i], b')');
                    *i += 1;
                }
                vs.push((name, payload));
                let d = b[*i];
                *i += 1;
                if d == b')' {
                    break;
                }
                assert_eq!(d, b',');
            }
            let names = leak_names(vs.iter().map(|v| v.0.clone()).collect());
            STy::Enum(vs, names)
        }
        _ => panic!("type syntax: constructor {}", c as char),
    }
}

// ------------------------------------------------------------------------------------------
// `Spanned<T>`: serde_spanned/src/spanned.rs with a seed for the value
// ------------------------------------------------------------------------------------------

struct SpannedV<S>(S);
impl<'de, S: DeserializeSeed<'de, Value = String>> Visitor<'de> for SpannedV<S> {
    type Value = String;
    fn expecting(&self, f: &mut fmt::Formatter<'_>) -> fmt::Result {
        f.write_str("a spanned value")
    }
    fn visit_map<V: MapAccess<'de>>(self, mut visitor: V) -> Result<String, V::Error> {
        let mut seed = Some(self.0);
        let mut start: Option<usize> = None;
        let mut end: Option<usize> = None;
        let mut value: Option<String> = None;
        while let Some(key) = visitor.next_key::<&'de str>()? {
            match key {
                START_FIELD => {
                    if start.is_some() {
                        return Err(de::Error::duplicate_field(START_FIELD));
                    }
                    start = Some(visitor.next_value()?);
                }
                END_FIELD => {
                    if end.is_some() {
                        return Err(de::Error::duplicate_field(END_FIELD));
                    }
                    end = Some(visitor.next_value()?);
                }
                VALUE_FIELD => {
                    if value.is_some() {
                        return Err(de::Error::duplicate_field(VALUE_FIELD));
                    }
                    value = Some(visitor.next_value_seed(seed.take().unwrap())?);
                }
                field => {
                    return Err(de::Error::unknown_field(field, &[START_FIELD, END_FIELD, VALUE_FIELD]));
                }
            }
        }
        match (start, end, value) {
            (Some(start), Some(end), Some(value)) => Ok(format!("P{start}..{end}({value})")),
            (None, _, _) => Err(de::Error::missing_field(START_FIELD)),
            (_, None, _) => Err(de::Error::missing_field(END_FIELD)),
            (_, _, None) => Err(de::Error::missing_field(VALUE_FIELD)),
        }
    }
}

// ------------------------------------------------------------------------------------------
// keys
// ------------------------------------------------------------------------------------------

#[derive(Clone, Copy)]
struct KeySeed<'a>(&'a KeyTy);
impl<'de> DeserializeSeed<'de> for KeySeed<'_> {
    type Value = String;
    fn deserialize<D: Deserializer<'de>>(self, d: D) -> Result<String, D::Error> {
        match self.0 {
            KeyTy::Str => <String as de::Deserialize>::deserialize(d).map(|s| hex(s.as_bytes())),
            KeyTy::Newtype(k) => d.deserialize_newtype_struct("KP", KeyNewtypeV(k)),
            KeyTy::Spanned(k) => d.deserialize_struct(NAME, &SP_FIELDS, SpannedV(KeySeed(k))),
        }
    }
}
struct KeyNewtypeV<'a>(&'a KeyTy);
impl<'de> Visitor<'de> for KeyNewtypeV<'_> {
    type Value = String;
    fn expecting(&self, f: &mut fmt::Formatter<'_>) -> fmt::Result {
        f.write_str("tuple struct KP")
    }
    fn visit_newtype_struct<D: Deserializer<'de>>(self, d: D) -> Result<String, D::Error> {
        KeySeed(self.0).deserialize(d).map(|x| format!("W({x})"))
    }
    fn visit_seq<A: SeqAccess<'de>>(self, mut seq: A) -> Result<String, A::Error> {
        match seq.next_element_seed(KeySeed(self.0))? {
            Some(x) => Ok(format!("W({x})")),
            None => Err(de::Error::invalid_length(0, &self)),
        }
    }
}

// ------------------------------------------------------------------------------------------
// the dynamic target (the visitors of c13typed.rs with `STySeed` below)
// ------------------------------------------------------------------------------------------

#[derive(Clone, Copy)]
pub struct STySeed<'a>(pub &'a STy);

impl<'de> DeserializeSeed<'de> for STySeed<'_> {
    type Value = String;
    fn deserialize<D: Deserializer<'de>>(self, d: D) -> Result<String, D::Error> {
        match self.0 {
            STy::Plain(t) => TySeed(t).deserialize(d),
            STy::Spanned(t) => d.deserialize_struct(NAME, &SP_FIELDS, SpannedV(STySeed(t))),
            STy::Opt(t) => d.deserialize_option(OptV(t)),
            STy::Newtype(t) => d.deserialize_newtype_struct("N", NewtypeV(t)),
            STy::Seq(t) => d.deserialize_seq(SeqV(t)),
            STy::Map(k, t) => d.deserialize_map(MapV(k, t)),
            STy::Struct(fs, names) => d.deserialize_struct("S", names, StructV(fs)),
            STy::Enum(vs, names) => d.deserialize_enum("E", names, EnumV(vs, names)),
        }
    }
}

struct OptV<'a>(&'a STy);
impl<'de> Visitor<'de> for OptV<'_> {
    type Value = String;
    fn expecting(&self, f: &mut fmt::Formatter<'_>) -> fmt::Result {
        f.write_str("option")
    }
    fn visit_unit<E: de::Error>(self) -> Result<String, E> {
        Ok("N".into())
    }
    fn visit_none<E: de::Error>(self) -> Result<String, E> {
        Ok("N".into())
    }
    fn visit_some<D: Deserializer<'de>>(self, d: D) -> Result<String, D::Error> {
        STySeed(self.0).deserialize(d).map(|x| format!("O({x})"))
    }
}

struct SeqV<'a>(&'a STy);
impl<'de> Visitor<'de> for SeqV<'_> {
    type Value = String;
    fn expecting(&self, f: &mut fmt::Formatter<'_>) -> fmt::Result {
        f.write_str("a sequence")
    }
    fn visit_seq<A: SeqAccess<'de>>(self, mut seq: A) -> Result<String, A::Error> {
        let mut v = Vec::new();
        while let Some(x) = seq.next_element_seed(STySeed(self.0))? {
            v.push(x);
        }
        Ok(format!("[{}]", v.join(";")))
    }
}

struct MapV<'a>(&'a KeyTy, &'a STy);
impl<'de> Visitor<'de> for MapV<'_> {
    type Value = String;
    fn expecting(&self, f: &mut fmt::Formatter<'_>) -> fmt::Result {
        f.write_str("a map")
    }
    fn visit_map<A: MapAccess<'de>>(self, mut map: A) -> Result<String, A::Error> {
        let mut m = Vec::new();
        while let Some(k) = map.next_key_seed(KeySeed(self.0))? {
            let v = map.next_value_seed(STySeed(self.1))?;
            m.push(format!("{k}={v}"));
        }
        Ok(format!("{{{}}}", m.join(";")))
    }
}

struct NewtypeV<'a>(&'a STy);
impl<'de> Visitor<'de> for NewtypeV<'_> {
    type Value = String;
    fn expecting(&self, f: &mut fmt::Formatter<'_>) -> fmt::Result {
        f.write_str("tuple struct N")
    }
    fn visit_newtype_struct<D: Deserializer<'de>>(self, d: D) -> Result<String, D::Error> {
        STySeed(self.0).deserialize(d).map(|x| format!("W({x})"))
    }
    fn visit_seq<A: SeqAccess<'de>>(self, mut seq: A) -> Result<String, A::Error> {
        match seq.next_element_seed(STySeed(self.0))? {
            Some(x) => Ok(format!("W({x})")),
            None => Err(de::Error::invalid_length(0, &self)),
        }
    }
}

struct FieldSeed<'a>(&'a [SField]);
impl<'de> DeserializeSeed<'de> for FieldSeed<'_> {
    type Value = Option<usize>;
    fn deserialize<D: Deserializer<'de>>(self, d: D) -> Result<Option<usize>, D::Error> {
        d.deserialize_identifier(self)
    }
}
impl<'de> Visitor<'de> for FieldSeed<'_> {
    type Value = Option<usize>;
    fn expecting(&self, f: &mut fmt::Formatter<'_>) -> fmt::Result {
        f.write_str("field identifier")
    }
    fn visit_u64<E: de::Error>(self, v: u64) -> Result<Option<usize>, E> {
        Ok(if (v as usize) < self.0.len() { Some(v as usize) } else { None })
    }
    fn visit_str<E: de::Error>(self, v: &str) -> Result<Option<usize>, E> {
        Ok(self.0.iter().position(|f| f.name == v))
    }
    fn visit_bytes<E: de::Error>(self, v: &[u8]) -> Result<Option<usize>, E> {
        Ok(self.0.iter().position(|f| f.name.as_bytes() == v))
    }
}

/// `missing_field`: `Option<T>` is `None`, everything else (also `Spanned<Option<T>>`) an error
fn missing(ty: &STy) -> Option<String> {
    match ty {
        STy::Opt(_) => Some("N".into()),
        STy::Plain(Ty::Opt(_)) => Some("N".into()),
        _ => None,
    }
}

struct StructV<'a>(&'a [SField]);
impl<'de> Visitor<'de> for StructV<'_> {
    type Value = String;
    fn expecting(&self, f: &mut fmt::Formatter<'_>) -> fmt::Result {
        f.write_str("struct S")
    }
    fn visit_seq<A: SeqAccess<'de>>(self, mut seq: A) -> Result<String, A::Error> {
        let mut out = Vec::new();
        for (i, fld) in self.0.iter().enumerate() {
            let v = match seq.next_element_seed(STySeed(&fld.ty))? {
                Some(x) => x,
                None if fld.dflt => "D".to_string(),
                None => return Err(de::Error::invalid_length(i, &self)),
            };
            out.push(format!("{}={}", hex(fld.name.as_bytes()), v));
        }
        Ok(format!("S{{{}}}", out.join(";")))
    }
    fn visit_map<A: MapAccess<'de>>(self, mut map: A) -> Result<String, A::Error> {
        let mut slots: Vec<Option<String>> = self.0.iter().map(|_| None).collect();
        while let Some(key) = map.next_key_seed(FieldSeed(self.0))? {
            match key {
                Some(i) => {
                    if slots[i].is_some() {
                        let name: &'static str = Box::leak(self.0[i].name.clone().into_boxed_str());
                        return Err(de::Error::duplicate_field(name));
                    }
                    slots[i] = Some(map.next_value_seed(STySeed(&self.0[i].ty))?);
                }
                None => {
                    let _ = map.next_value::<IgnoredAny>()?;
                }
            }
        }
        let mut out = Vec::new();
        for (fld, slot) in self.0.iter().zip(slots) {
            let v = match slot {
                Some(x) => x,
                None if fld.dflt => "D".to_string(),
                None => match missing(&fld.ty) {
                    Some(x) => x,
                    None => {
                        let name: &'static str = Box::leak(fld.name.clone().into_boxed_str());
                        return Err(de::Error::missing_field(name));
                    }
                },
            };
            out.push(format!("{}={}", hex(fld.name.as_bytes()), v));
        }
        Ok(format!("S{{{}}}", out.join(";")))
    }
}

struct VariantSeed<'a>(&'a [(String, Option<STy>)], &'static [&'static str]);
impl<'de> DeserializeSeed<'de> for VariantSeed<'_> {
    type Value = usize;
    fn deserialize<D: Deserializer<'de>>(self, d: D) -> Result<usize, D::Error> {
        d.deserialize_identifier(self)
    }
}
impl<'de> Visitor<'de> for VariantSeed<'_> {
    type Value = usize;
    fn expecting(&self, f: &mut fmt::Formatter<'_>) -> fmt::Result {
        f.write_str("variant identifier")
    }
    fn visit_u64<E: de::Error>(self, v: u64) -> Result<usize, E> {
        if (v as usize) < self.0.len() {
            Ok(v as usize)
        } else {
            Err(de::Error::invalid_value(de::Unexpected::Unsigned(v), &"variant index"))
        }
    }
    fn visit_str<E: de::Error>(self, v: &str) -> Result<usize, E> {
        self.0.iter().position(|f| f.0 == v).ok_or_else(|| de::Error::unknown_variant(v, self.1))
    }
    fn visit_bytes<E: de::Error>(self, v: &[u8]) -> Result<usize, E> {
        self.0.iter().position(|f| f.0.as_bytes() == v).ok_or_else(|| de::Error::unknown_variant(&String::from_utf8_lossy(v), self.1))
    }
}

struct EnumV<'a>(&'a [(String, Option<STy>)], &'static [&'static str]);
impl<'de> Visitor<'de> for EnumV<'_> {
    type Value = String;
    fn expecting(&self, f: &mut fmt::Formatter<'_>) -> fmt::Result {
        f.write_str("enum E")
    }
    fn visit_enum<A: EnumAccess<'de>>(self, data: A) -> Result<String, A::Error> {
        let (idx, variant) = data.variant_seed(VariantSeed(self.0, self.1))?;
        let (name, payload) = &self.0[idx];
        let tag = format!("E{}", hex(name.as_bytes()));
        match payload {
            None => {
                variant.unit_variant()?;
                Ok(tag)
            }
            Some(t) => variant.newtype_variant_seed(STySeed(t)).map(|x| format!("{tag}:{x}")),
        }
    }
}

// ------------------------------------------------------------------------------------------

pub fn run(line: &str) -> String {
    let parts: Vec<&str> = line.split(' ').collect();
    if parts.len() != 4 || parts[0] != "sp" {
        return "bad-op".into();
    }
    if (parts[1] == "P") != cfg!(feature = "preserve_order") {
        return "flavour-mismatch".into();
    }
    let text = match String::from_utf8(unhex(parts[3])) {
        Ok(t) => t,
        Err(_) => return "not-utf8".into(),
    };
    let mut i = 0;
    let ty = parse_sty(parts[2].as_bytes(), &mut i);
    assert_eq!(i, parts[2].len(), "type syntax: trailing input");
    let seed = STySeed(&ty);
    let td = match seed.deserialize(toml::de::Deserializer::new(&text)) {
        Ok(d) => format!("ok:{d}"),
        Err(e) => {
            if text.parse::<toml_edit::ImDocument<String>>().is_err() {
                return "parse-err".into();
            }
            crate::c15loc::show_err(e.span(), &format!("{e:?}"), &e.to_string(), true)
        }
    };
    let ed = match toml_edit::de::Deserializer::parse(text.as_str()) {
        Err(_) => return "parse-err".into(),
        Ok(d) => match seed.deserialize(d) {
            Ok(d) => format!("ok:{d}"),
            Err(e) => {
                let sp = e.span();
                let rendered = e.to_string();
                let te: toml_edit::TomlError = e.into();
                crate::c15loc::show_err(sp, &format!("{te:?}"), &rendered, true)
            }
        },
    };
    let dm = match text.parse::<toml_edit::DocumentMut>() {
        Err(_) => return "parse-err".into(),
        Ok(doc) => match seed.deserialize(toml_edit::de::Deserializer::from(doc)) {
            Ok(d) => format!("ok:{d}"),
            Err(e) => {
                let sp = e.span();
                let rendered = e.to_string();
                let te: toml_edit::TomlError = e.into();
                crate::c15loc::show_err(sp, &format!("{te:?}"), &rendered, false)
            }
        },
    };
    format!("td={td} ed={ed} dm={dm}")
}
