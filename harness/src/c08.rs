//! C08 `<hex document> <op>;<op>;…`: apply structural edits through the public API of `toml_edit`
//! and print the document after every step.
//!
//! Paths are `/`-separated from the root (`.` = root); a segment is a hex-encoded key (`-` = empty
//! key) when the node it is applied to is table-like and a decimal index when it is an array or an
//! array of tables. Ops:
//!   set P K V | del P K | newt P K | viv P K1 K2 V | sort P | fmt P
//!   push P V | ains P i V | arepl P i V | adel P i | tpush P | tdel P i
//!   inl P K | tbl P K | aot2arr P K | arr2aot P K | mv P K P2
//! Values: `i<n>`, `s<hex>`, `b0`, `b1`.
//! Output: `init:<rec> <status>:<rec> …` (space separated) with `<rec>` = `p=<hex printed>,t=<plain tree of the
//! re-parsed print | ERR>,o=<canonical tree of the re-parsed print | ERR>,m=<canonical tree in memory>`.
use crate::canon::*;
use crate::util::*;
use toml_edit::{value, ArrayOfTables, DocumentMut, Item, Table, Value};

enum Node<'a> {
    Table(&'a mut Table),
    Value(&'a mut Value),
    Aot(&'a mut ArrayOfTables),
}

fn try_unhex(s: &str) -> Option<Vec<u8>> {
    if s == "-" {
        return Some(vec![]);
    }
    let b = s.as_bytes();
    if b.is_empty() || b.len() % 2 != 0 {
        return None;
    }
    let h = |c: u8| -> Option<u8> {
        match c {
            b'0'..=b'9' => Some(c - b'0'),
            b'a'..=b'f' => Some(c - b'a' + 10),
            b'A'..=b'F' => Some(c - b'A' + 10),
            _ => None,
        }
    };
    let mut v = Vec::with_capacity(b.len() / 2);
    let mut i = 0;
    while i + 1 < b.len() {
        v.push(h(b[i])? * 16 + h(b[i + 1])?);
        i += 2;
    }
    Some(v)
}

fn key_of(seg: &str) -> Option<String> {
    String::from_utf8(try_unhex(seg)?).ok()
}

fn idx_of(seg: &str) -> Option<usize> {
    if seg.is_empty() || seg.len() > 9 || !seg.bytes().all(|c| c.is_ascii_digit()) {
        return None;
    }
    seg.parse().ok()
}

fn segs(p: &str) -> Vec<&str> {
    if p == "." {
        vec![]
    } else {
        p.split('/').collect()
    }
}

fn nav<'a>(root: &'a mut Table, path: &[&str]) -> Option<Node<'a>> {
    let mut cur = Node::Table(root);
    for seg in path {
        cur = match cur {
            Node::Table(t) => match t.get_mut(&key_of(seg)?)? {
                Item::Table(t) => Node::Table(t),
                Item::Value(v) => Node::Value(v),
                Item::ArrayOfTables(a) => Node::Aot(a),
                Item::None => return None,
            },
            Node::Value(Value::InlineTable(t)) => Node::Value(t.get_mut(&key_of(seg)?)?),
            Node::Value(Value::Array(a)) => Node::Value(a.get_mut(idx_of(seg)?)?),
            Node::Value(_) => return None,
            Node::Aot(a) => Node::Table(a.get_mut(idx_of(seg)?)?),
        };
    }
    Some(cur)
}

enum Sc {
    I(i64),
    S(String),
    B(bool),
}

fn scalar(s: &str) -> Option<Sc> {
    let (tag, rest) = s.split_at(s.char_indices().nth(1).map(|x| x.0).unwrap_or(s.len()));
    match tag {
        "i" => {
            let digits = rest.strip_prefix('-').unwrap_or(rest);
            if digits.is_empty() || digits.len() > 18 || !digits.bytes().all(|c| c.is_ascii_digit()) {
                return None;
            }
            rest.parse().ok().map(Sc::I)
        }
        "s" => key_of(rest).map(Sc::S),
        "b" if rest == "0" => Some(Sc::B(false)),
        "b" if rest == "1" => Some(Sc::B(true)),
        _ => None,
    }
}

fn to_value(s: Sc) -> Value {
    match s {
        Sc::I(n) => Value::from(n),
        Sc::S(x) => Value::from(x),
        Sc::B(b) => Value::from(b),
    }
}

/// `mv P K P2`: `let item = P.remove(K); P2.insert(K, item)` (both table-like; `P2` is resolved
/// after the removal)
fn apply_mv(doc: &mut DocumentMut, a: &[&str]) -> Option<()> {
    let k = key_of(a[2])?;
    let item = match nav(doc.as_table_mut(), &segs(a[1]))? {
        Node::Table(t) => t.remove(&k)?,
        Node::Value(Value::InlineTable(t)) => Item::Value(t.remove(&k)?),
        _ => return None,
    };
    match nav(doc.as_table_mut(), &segs(a[3]))? {
        Node::Table(t) => {
            t.insert(&k, item);
        }
        Node::Value(Value::InlineTable(t)) => {
            t.insert(k, item.into_value().ok()?);
        }
        _ => return None,
    }
    Some(())
}

/// one op; `Some(())` = applied
fn apply(doc: &mut DocumentMut, op: &str) -> Option<()> {
    let a: Vec<&str> = op.split(' ').collect();
    let name = *a.first()?;
    if name == "mv" && a.len() == 4 {
        // on a copy: a failing second half leaves the document alone
        let mut d2 = doc.clone();
        apply_mv(&mut d2, &a)?;
        *doc = d2;
        return Some(());
    }
    let p = segs(a.get(1)?);
    let node = nav(doc.as_table_mut(), &p)?;
    match (name, a.len()) {
        ("set", 4) => {
            let k = key_of(a[2])?;
            let v = to_value(scalar(a[3])?);
            match node {
                Node::Table(t) => {
                    t.insert(&k, Item::Value(v));
                }
                Node::Value(Value::InlineTable(t)) => {
                    t.insert(k, v);
                }
                _ => return None,
            }
        }
        ("del", 3) => {
            let k = key_of(a[2])?;
            match node {
                Node::Table(t) => {
                    if !t.contains_key(&k) {
                        return None;
                    }
                    t.remove(&k);
                }
                Node::Value(Value::InlineTable(t)) => {
                    if !t.contains_key(&k) {
                        return None;
                    }
                    t.remove(&k);
                }
                _ => return None,
            }
        }
        ("newt", 3) => {
            let k = key_of(a[2])?;
            match node {
                Node::Table(t) => {
                    t.insert(&k, toml_edit::table());
                }
                _ => return None,
            }
        }
        ("viv", 5) => {
            let k1 = key_of(a[2])?;
            let k2 = key_of(a[3])?;
            let v = to_value(scalar(a[4])?);
            match node {
                Node::Table(t) => {
                    if let Some(it) = t.get(&k1) {
                        if !it.is_table_like() {
                            return None;
                        }
                    }
                    t[k1.as_str()][k2.as_str()] = value(v);
                }
                _ => return None,
            }
        }
        ("sort", 2) => match node {
            Node::Table(t) => t.sort_values(),
            Node::Value(Value::InlineTable(t)) => t.sort_values(),
            _ => return None,
        },
        ("fmt", 2) => match node {
            Node::Table(t) => t.fmt(),
            Node::Value(Value::InlineTable(t)) => t.fmt(),
            Node::Value(Value::Array(x)) => x.fmt(),
            _ => return None,
        },
        ("push", 3) => {
            let v = to_value(scalar(a[2])?);
            match node {
                Node::Value(Value::Array(x)) => x.push(v),
                _ => return None,
            }
        }
        ("ains", 4) => {
            let i = idx_of(a[2])?;
            let v = to_value(scalar(a[3])?);
            match node {
                Node::Value(Value::Array(x)) if i <= x.len() => x.insert(i, v),
                _ => return None,
            }
        }
        ("arepl", 4) => {
            let i = idx_of(a[2])?;
            let v = to_value(scalar(a[3])?);
            match node {
                Node::Value(Value::Array(x)) if i < x.len() => {
                    x.replace(i, v);
                }
                _ => return None,
            }
        }
        ("adel", 3) => {
            let i = idx_of(a[2])?;
            match node {
                Node::Value(Value::Array(x)) if i < x.len() => {
                    x.remove(i);
                }
                _ => return None,
            }
        }
        ("adelr", 3) => {
            // the same removal through `Array::retain` (a different mutator of the same container)
            let i = idx_of(a[2])?;
            match node {
                Node::Value(Value::Array(x)) if i < x.len() => {
                    let mut n = 0usize;
                    x.retain(|_| {
                        n += 1;
                        n - 1 != i
                    });
                }
                _ => return None,
            }
        }
        ("tpush", 2) => match node {
            Node::Aot(x) => {
                let mut t = Table::new();
                t.insert("n", value(x.len() as i64));
                x.push(t);
            }
            _ => return None,
        },
        ("tdel", 3) => {
            let i = idx_of(a[2])?;
            match node {
                Node::Aot(x) if i < x.len() => x.remove(i),
                _ => return None,
            }
        }
        ("inl", 3) | ("tbl", 3) | ("aot2arr", 3) | ("arr2aot", 3) => {
            let k = key_of(a[2])?;
            let t = match node {
                Node::Table(t) => t,
                _ => return None,
            };
            let it = t.get_mut(&k)?;
            match name {
                "inl" if it.is_table() => it.make_value(),
                "aot2arr" if it.is_array_of_tables() => it.make_value(),
                "tbl" if it.is_inline_table() => {
                    let taken = std::mem::take(it);
                    *it = match taken.into_table() {
                        Ok(t) => Item::Table(t),
                        Err(i) => i,
                    };
                }
                "arr2aot" if it.as_array().map(|x| !x.is_empty() && x.iter().all(|v| v.is_inline_table())).unwrap_or(false) => {
                    let taken = std::mem::take(it);
                    *it = match taken.into_array_of_tables() {
                        Ok(t) => Item::ArrayOfTables(t),
                        Err(i) => i,
                    };
                }
                _ => return None,
            }
        }
        _ => return None,
    }
    Some(())
}

fn record(doc: &DocumentMut) -> String {
    let p = doc.to_string();
    let (t, o) = match p.parse::<DocumentMut>() {
        Ok(d) => (plain_tbl(d.as_table()), canon_tbl(d.as_table())),
        Err(_) => ("ERR".to_string(), "ERR".to_string()),
    };
    format!("p={},t={},o={},m={}", hex(p.as_bytes()), t, o, canon_tbl(doc.as_table()))
}

pub fn run(line: &str) -> String {
    let (d, ops) = match line.split_once(' ') {
        Some((d, o)) => (d, o),
        None => (line, ""),
    };
    let text = match try_unhex(d).and_then(|b| String::from_utf8(b).ok()) {
        Some(t) => t,
        None => return "err".into(),
    };
    let mut doc = match toml_edit::ImDocument::parse(text) {
        Ok(im) => im.into_mut(),
        Err(_) => return "err".into(),
    };
    let mut out = vec![format!("init:{}", record(&doc))];
    for op in ops.split(';') {
        if op.is_empty() {
            continue;
        }
        let st = if apply(&mut doc, op).is_some() { "ok" } else { "skip" };
        out.push(format!("{st}:{}", record(&doc)));
    }
    out.join(" ")
}
