//! C16: containers as ordered maps / sequences. case: `<container> <op>;<op>;…`
//! containers: table, tablelike, inline, inlinelike, docinline, array, aot, map
//! output: return value of every op joined by `;`, then ` | ` and the final observation.
use crate::util::*;
use std::panic::{catch_unwind, AssertUnwindSafe};
use toml_edit::{value, Array, ArrayOfTables, DocumentMut, Entry, InlineEntry, Item, Key, Table, Value};

const KEYS: [&str; 4] = ["a", "b", "c", "d"];

fn slot(i: &Item) -> String {
    match i {
        Item::None => "placeholder".into(),
        Item::Value(v) => vtok(v),
        Item::Table(_) => "table".into(),
        Item::ArrayOfTables(_) => "aot".into(),
    }
}

fn vtok(v: &Value) -> String {
    match v {
        Value::Integer(f) => format!("v{}", f.value()),
        Value::InlineTable(t) if t.is_empty() => "vt".into(),
        _ => "v?".into(),
    }
}

fn opt<T>(o: Option<T>, f: impl Fn(T) -> String) -> String {
    match o {
        Some(x) => f(x),
        None => "none".into(),
    }
}

fn tf(b: bool) -> String {
    if b { "t".into() } else { "f".into() }
}

fn join(v: Vec<String>) -> String {
    if v.is_empty() { "-".into() } else { v.join(",") }
}

fn num(s: &str) -> i64 {
    s.parse().expect("number")
}

fn guarded(f: impl FnOnce() -> String) -> String {
    match catch_unwind(AssertUnwindSafe(f)) {
        Ok(s) => s,
        Err(_) => "panic".into(),
    }
}

fn pairs(p: &[&str]) -> Vec<(String, i64)> {
    p.chunks(2).map(|c| (c[0].to_string(), num(c[1]))).collect()
}

// ---------------------------------------------------------------------------------------------
// Entry API (`Table::entry`, `TableLike::entry`): everything beyond `or_insert` and the classification
// ---------------------------------------------------------------------------------------------

const ENTRY_OPS: [&str; 6] = ["entrem", "entins", "entget", "entmut", "entwith", "entkey"];

fn entry_op(e: Entry<'_>, p: &[&str]) -> String {
    match p[0] {
        "entrem" => match e {
            Entry::Occupied(o) => slot(&o.remove()),
            Entry::Vacant(_) => "vac".into(),
        },
        "entins" => match e {
            Entry::Occupied(mut o) => {
                let old = slot(&o.insert(value(num(p[2]))));
                format!("{old}>{}", slot(o.get()))
            }
            Entry::Vacant(v) => format!("vac>{}", slot(v.insert(value(num(p[2]))))),
        },
        "entget" => match e {
            Entry::Occupied(o) => format!("{}={}", o.key(), slot(o.get())),
            Entry::Vacant(v) => format!("vac:{}", v.key()),
        },
        "entmut" => match e {
            Entry::Occupied(mut o) => {
                let old = slot(o.get_mut());
                *o.get_mut() = value(num(p[2]));
                format!("{old}>{}", slot(o.into_mut()))
            }
            Entry::Vacant(_) => "vac".into(),
        },
        "entwith" => slot(e.or_insert_with(|| value(num(p[2])))),
        "entkey" => {
            let k = e.key().to_string();
            match e {
                Entry::Occupied(_) => format!("occ:{k}"),
                Entry::Vacant(_) => format!("vac:{k}"),
            }
        }
        _ => "na".into(),
    }
}

/// the same calls on `InlineTable::entry`: `InlineEntry` / `InlineOccupiedEntry` / `InlineVacantEntry`
fn inline_entry_op(e: InlineEntry<'_>, p: &[&str]) -> String {
    match p[0] {
        "entrem" => match e {
            InlineEntry::Occupied(o) => vtok(&o.remove()),
            InlineEntry::Vacant(_) => "vac".into(),
        },
        "entins" => match e {
            InlineEntry::Occupied(mut o) => {
                let old = vtok(&o.insert(Value::from(num(p[2]))));
                format!("{old}>{}", vtok(o.get()))
            }
            InlineEntry::Vacant(v) => format!("vac>{}", vtok(v.insert(Value::from(num(p[2]))))),
        },
        "entget" => match e {
            InlineEntry::Occupied(o) => format!("{}={}", o.key(), vtok(o.get())),
            InlineEntry::Vacant(v) => format!("vac:{}", v.key()),
        },
        "entmut" => match e {
            InlineEntry::Occupied(mut o) => {
                let old = vtok(o.get_mut());
                *o.get_mut() = Value::from(num(p[2]));
                format!("{old}>{}", vtok(o.into_mut()))
            }
            InlineEntry::Vacant(_) => "vac".into(),
        },
        "entwith" => vtok(e.or_insert_with(|| Value::from(num(p[2])))),
        "entkey" => {
            let k = e.key().to_string();
            match e {
                InlineEntry::Occupied(_) => format!("occ:{k}"),
                InlineEntry::Vacant(_) => format!("vac:{k}"),
            }
        }
        _ => "na".into(),
    }
}

// ---------------------------------------------------------------------------------------------
// Table
// ---------------------------------------------------------------------------------------------

fn table_op(t: &mut Table, p: &[&str]) -> String {
    if ENTRY_OPS.contains(&p[0]) {
        return entry_op(t.entry(p[1]), p);
    }
    match p[0] {
        "ins" => opt(t.insert(p[1], value(num(p[2]))), |i| slot(&i)),
        "insf" => opt(t.insert_formatted(&Key::new(p[1]), value(num(p[2]))), |i| slot(&i)),
        "rem" => opt(t.remove(p[1]), |i| slot(&i)),
        "reme" => opt(t.remove_entry(p[1]), |(k, i)| format!("{}={}", k.get(), slot(&i))),
        "get" => opt(t.get(p[1]), slot),
        "getmut" => opt(t.get_mut(p[1]), |i| slot(i)),
        "gkv" => {
            // `get_key_value` and `get_key_value_mut` must give the same answer
            let a = opt(t.get_key_value(p[1]), |(k, i)| format!("{}={}", k.get(), slot(i)));
            let b = opt(t.get_key_value_mut(p[1]), |(k, i)| format!("{}={}", k.get(), slot(i)));
            if a == b {
                a
            } else {
                format!("{a}!mut:{b}")
            }
        }
        "has" => tf(t.contains_key(p[1])),
        "hasv" => tf(t.contains_value(p[1])),
        "hast" => tf(t.contains_table(p[1]) || t.contains_array_of_tables(p[1])), // a table of values holds neither
        "len" => t.len().to_string(),
        "empty" => tf(t.is_empty()),
        "iter" => join(t.iter().map(|(k, i)| format!("{k}={}", slot(i))).collect()),
        "keys" => join(t.iter_mut().map(|(k, _)| k.get().to_string()).collect()),
        "clear" => {
            t.clear();
            "ok".into()
        }
        "entry" => slot(t.entry(p[1]).or_insert(value(num(p[2])))),
        "entocc" => match t.entry(p[1]) {
            Entry::Occupied(_) => "occ".into(),
            Entry::Vacant(_) => "vac".into(),
        },
        "idx" => guarded(|| slot(&t[p[1]])),
        "idxmut" => guarded(|| slot(&mut t[p[1]])),
        "idxset" => guarded(|| {
            t[p[1]] = value(num(p[2]));
            "ok".into()
        }),
        "retain" => {
            t.retain(|_, it| it.as_integer().map_or(true, |n| n % 2 == 0));
            "ok".into()
        }
        "sort" => {
            t.sort_values();
            "ok".into()
        }
        "sortby" => {
            t.sort_values_by(|_, a, _, b| b.as_integer().cmp(&a.as_integer()));
            "ok".into()
        }
        "extend" => {
            t.extend(pairs(&p[1..]).into_iter().map(|(k, n)| (k, value(n))));
            "ok".into()
        }
        _ => "na".into(),
    }
}

fn like_op(item: &mut Item, p: &[&str]) -> String {
    match p[0] {
        "idx" => return guarded(|| slot(&item[p[1]])),
        "idxmut" => return guarded(|| slot(&mut item[p[1]])),
        "idxset" => {
            return guarded(|| {
                item[p[1]] = value(num(p[2]));
                "ok".into()
            })
        }
        _ => {}
    }
    let t = item.as_table_like_mut().expect("table-like");
    if ENTRY_OPS.contains(&p[0]) {
        return entry_op(t.entry(p[1]), p);
    }
    match p[0] {
        "ins" => guarded(|| opt(t.insert(p[1], value(num(p[2]))), |i| slot(&i))),
        "rem" => opt(t.remove(p[1]), |i| slot(&i)),
        "get" => opt(t.get(p[1]), slot),
        "getmut" => opt(t.get_mut(p[1]), |i| slot(i)),
        "gkv" => {
            // `get_key_value` and `get_key_value_mut` must give the same answer
            let a = opt(t.get_key_value(p[1]), |(k, i)| format!("{}={}", k.get(), slot(i)));
            let b = opt(t.get_key_value_mut(p[1]), |(k, i)| format!("{}={}", k.get(), slot(i)));
            if a == b {
                a
            } else {
                format!("{a}!mut:{b}")
            }
        }
        "has" => tf(t.contains_key(p[1])),
        "len" => t.len().to_string(),
        "empty" => tf(t.is_empty()),
        "iter" => join(t.iter().map(|(k, i)| format!("{k}={}", slot(i))).collect()),
        "keys" => join(t.iter_mut().map(|(k, _)| k.get().to_string()).collect()),
        "clear" => {
            t.clear();
            "ok".into()
        }
        "entry" => slot(t.entry(p[1]).or_insert(value(num(p[2])))),
        "entocc" => match t.entry(p[1]) {
            Entry::Occupied(_) => "occ".into(),
            Entry::Vacant(_) => "vac".into(),
        },
        "sort" => {
            t.sort_values();
            "ok".into()
        }
        _ => "na".into(),
    }
}

fn like_final(item: &Item) -> String {
    let t = item.as_table_like().expect("table-like");
    let gets: Vec<String> = KEYS.iter().map(|k| opt(t.get(k), slot)).collect();
    format!(
        "len={} empty={} iter={} get={} into=na print={}",
        t.len(),
        tf(t.is_empty()),
        join(t.iter().map(|(k, i)| format!("{k}={}", slot(i))).collect()),
        gets.join(","),
        hex(item.to_string().as_bytes())
    )
}

fn run_table(ops: &[Vec<&str>], like: bool) -> String {
    let mut rets = Vec::new();
    if like {
        let mut item = Item::Table(Table::new());
        for p in ops {
            rets.push(like_op(&mut item, p));
        }
        format!("{} | {}", rets.join(";"), like_final(&item))
    } else {
        let mut t = Table::new();
        for p in ops {
            rets.push(table_op(&mut t, p));
        }
        let gets: Vec<String> = KEYS.iter().map(|k| opt(t.get(k), slot)).collect();
        let fin = format!(
            "len={} empty={} iter={} get={} into={} print={}",
            t.len(),
            tf(t.is_empty()),
            join(t.iter().map(|(k, i)| format!("{k}={}", slot(i))).collect()),
            gets.join(","),
            join(t.clone().into_iter().map(|(k, i)| format!("{k}={}", slot(&i))).collect()),
            hex(t.to_string().as_bytes())
        );
        format!("{} | {}", rets.join(";"), fin)
    }
}

// ---------------------------------------------------------------------------------------------
// InlineTable
// ---------------------------------------------------------------------------------------------

fn inline_op(item: &mut Item, p: &[&str]) -> String {
    match p[0] {
        // auto-vivification exists only at the `Item` level; `InlineTable`'s own `IndexMut` panics
        "idxmut" => return guarded(|| slot(&mut item[p[1]])),
        "idxset" => {
            return guarded(|| {
                item[p[1]] = value(num(p[2]));
                "ok".into()
            })
        }
        _ => {}
    }
    let t = item.as_inline_table_mut().expect("inline table");
    if ENTRY_OPS.contains(&p[0]) {
        return inline_entry_op(t.entry(p[1]), p);
    }
    match p[0] {
        "ins" => opt(t.insert(p[1], Value::from(num(p[2]))), |v| vtok(&v)),
        "insf" => opt(t.insert_formatted(&Key::new(p[1]), Value::from(num(p[2]))), |v| vtok(&v)),
        "rem" => opt(t.remove(p[1]), |v| vtok(&v)),
        "reme" => opt(t.remove_entry(p[1]), |(k, v)| format!("{}={}", k.get(), vtok(&v))),
        "get" => opt(t.get(p[1]), vtok),
        "getmut" => opt(t.get_mut(p[1]), |v| vtok(v)),
        "gkv" => {
            // `get_key_value` and `get_key_value_mut` must give the same answer
            let a = opt(t.get_key_value(p[1]), |(k, i)| format!("{}={}", k.get(), slot(i)));
            let b = opt(t.get_key_value_mut(p[1]), |(k, i)| format!("{}={}", k.get(), slot(i)));
            if a == b {
                a
            } else {
                format!("{a}!mut:{b}")
            }
        }
        "has" => tf(t.contains_key(p[1])),
        "len" => t.len().to_string(),
        "empty" => tf(t.is_empty()),
        "iter" => guarded(|| join(t.iter().map(|(k, v)| format!("{k}={}", vtok(v))).collect())),
        "keys" => join(t.iter_mut().map(|(k, _)| k.get().to_string()).collect()),
        "clear" => {
            t.clear();
            "ok".into()
        }
        "entry" => vtok(t.entry(p[1]).or_insert(Value::from(num(p[2])))),
        "entocc" => match t.entry(p[1]) {
            InlineEntry::Occupied(_) => "occ".into(),
            InlineEntry::Vacant(_) => "vac".into(),
        },
        // only `InlineTable` has it; a panic ("non-value type in inline table") is an outcome of the call
        "goi" => guarded(|| vtok(t.get_or_insert(p[1], num(p[2])))),
        "idx" => guarded(|| vtok(&t[p[1]])),
        "retain" => {
            t.retain(|_, v| v.as_integer().map_or(false, |n| n % 2 == 0));
            "ok".into()
        }
        "sort" => {
            t.sort_values();
            "ok".into()
        }
        "sortby" => {
            t.sort_values_by(|_, a, _, b| b.as_integer().cmp(&a.as_integer()));
            "ok".into()
        }
        "extend" => {
            t.extend(pairs(&p[1..]).into_iter().map(|(k, n)| (k, Value::from(n))));
            "ok".into()
        }
        _ => "na".into(),
    }
}

fn run_inline(ops: &[Vec<&str>], like: bool, doc: bool) -> String {
    let mut item = if doc {
        // the inline table that `doc["t"]["a"]` creates in an empty document
        let mut d = DocumentMut::new();
        let _ = &mut d["t"]["a"];
        d.as_table_mut().remove("t").expect("created by indexing")
    } else {
        Item::Value(Value::InlineTable(Default::default()))
    };
    let mut rets = Vec::new();
    for p in ops {
        rets.push(if like { like_op(&mut item, p) } else { inline_op(&mut item, p) });
    }
    if like {
        return format!("{} | {}", rets.join(";"), like_final(&item));
    }
    let t = item.as_inline_table().expect("inline table");
    let gets: Vec<String> = KEYS.iter().map(|k| opt(t.get(k), vtok)).collect();
    let fin = format!(
        "len={} empty={} iter={} get={} into={} print={}",
        t.len(),
        tf(t.is_empty()),
        join(t.iter().map(|(k, v)| format!("{k}={}", vtok(v))).collect()),
        gets.join(","),
        join(t.clone().into_iter().map(|(k, v)| format!("{k}={}", vtok(&v))).collect()),
        hex(t.to_string().as_bytes())
    );
    format!("{} | {}", rets.join(";"), fin)
}

// ---------------------------------------------------------------------------------------------
// Array / ArrayOfTables
// ---------------------------------------------------------------------------------------------

fn idx(s: &str) -> usize {
    s.parse().expect("index")
}

fn array_op(a: &mut Array, p: &[&str]) -> String {
    match p[0] {
        "push" => {
            a.push(num(p[1]));
            "ok".into()
        }
        "ins" => guarded(|| {
            a.insert(idx(p[1]), num(p[2]));
            "ok".into()
        }),
        "repl" => guarded(|| vtok(&a.replace(idx(p[1]), num(p[2])))),
        "rem" => guarded(|| vtok(&a.remove(idx(p[1])))),
        "get" => opt(a.get(idx(p[1])), vtok),
        "getmut" => opt(a.get_mut(idx(p[1])), |v| vtok(v)),
        "len" => a.len().to_string(),
        "empty" => tf(a.is_empty()),
        "iter" => join(a.iter().map(vtok).collect()),
        "clear" => {
            a.clear();
            "ok".into()
        }
        "retain" => {
            a.retain(|v| v.as_integer().map_or(false, |n| n % 2 == 0));
            "ok".into()
        }
        "sortby" => {
            a.sort_by_key(|v| v.as_integer());
            "ok".into()
        }
        "extend" => {
            a.extend(p[1..].iter().map(|s| num(s)));
            "ok".into()
        }
        _ => "na".into(),
    }
}

fn run_array(ops: &[Vec<&str>]) -> String {
    let mut a = Array::new();
    let mut rets = Vec::new();
    for p in ops {
        rets.push(array_op(&mut a, p));
    }
    let fin = format!(
        "len={} empty={} iter={} into={} print={}",
        a.len(),
        tf(a.is_empty()),
        join(a.iter().map(vtok).collect()),
        join(a.clone().into_iter().map(|v| vtok(&v)).collect()),
        hex(a.to_string().as_bytes())
    );
    format!("{} | {}", rets.join(";"), fin)
}

fn tbl(n: i64) -> Table {
    let mut t = Table::new();
    t.insert("v", value(n));
    t
}

fn ttok(t: &Table) -> String {
    opt(t.get("v"), slot)
}

fn aot_op(a: &mut ArrayOfTables, p: &[&str]) -> String {
    match p[0] {
        "push" => {
            a.push(tbl(num(p[1])));
            "ok".into()
        }
        "rem" => guarded(|| {
            a.remove(idx(p[1]));
            "ok".into()
        }),
        "get" => opt(a.get(idx(p[1])), ttok),
        "getmut" => opt(a.get_mut(idx(p[1])), |t| ttok(t)),
        "len" => a.len().to_string(),
        "empty" => tf(a.is_empty()),
        "iter" => join(a.iter().map(ttok).collect()),
        "clear" => {
            a.clear();
            "ok".into()
        }
        "retain" => {
            a.retain(|t| t.get("v").and_then(|i| i.as_integer()).map_or(false, |n| n % 2 == 0));
            "ok".into()
        }
        "extend" => {
            a.extend(p[1..].iter().map(|s| tbl(num(s))));
            "ok".into()
        }
        _ => "na".into(),
    }
}

fn run_aot(ops: &[Vec<&str>]) -> String {
    let mut a = ArrayOfTables::new();
    let mut rets = Vec::new();
    for p in ops {
        rets.push(aot_op(&mut a, p));
    }
    let fin = format!(
        "len={} empty={} iter={} into={} print={}",
        a.len(),
        tf(a.is_empty()),
        join(a.iter().map(ttok).collect()),
        join(a.clone().into_iter().map(|t| ttok(&t)).collect()),
        hex(a.to_string().as_bytes())
    );
    format!("{} | {}", rets.join(";"), fin)
}

// ---------------------------------------------------------------------------------------------
// toml::Map (BTreeMap by default, IndexMap with feature preserve_order)
// ---------------------------------------------------------------------------------------------

type TMap = toml::map::Map<String, toml::Value>;

fn mtok(v: &toml::Value) -> String {
    match v {
        toml::Value::Integer(n) => format!("v{n}"),
        _ => "v?".into(),
    }
}

fn map_op(m: &mut TMap, p: &[&str]) -> String {
    use toml::map::Entry as E;
    match p[0] {
        "ins" => opt(m.insert(p[1].to_string(), toml::Value::Integer(num(p[2]))), |v| mtok(&v)),
        "rem" => opt(m.remove(p[1]), |v| mtok(&v)),
        "get" => opt(m.get(p[1]), mtok),
        "getmut" => opt(m.get_mut(p[1]), |v| mtok(v)),
        "gkv" => opt(m.get_key_value(p[1]), |(k, v)| format!("{k}={}", mtok(v))),
        "has" => tf(m.contains_key(p[1])),
        "len" => m.len().to_string(),
        "empty" => tf(m.is_empty()),
        "iter" => join(m.iter().map(|(k, v)| format!("{k}={}", mtok(v))).collect()),
        "keys" => join(m.keys().cloned().collect()),
        "values" => join(m.values().map(mtok).collect()),
        "clear" => {
            m.clear();
            "ok".into()
        }
        "entry" => mtok(m.entry(p[1]).or_insert(toml::Value::Integer(num(p[2])))),
        "entocc" => match m.entry(p[1]) {
            E::Occupied(_) => "occ".into(),
            E::Vacant(_) => "vac".into(),
        },
        "idx" => guarded(|| mtok(&m[p[1]])),
        "idxset" => guarded(|| {
            m[p[1]] = toml::Value::Integer(num(p[2]));
            "ok".into()
        }),
        "retain" => {
            m.retain(|_, v| v.as_integer().map_or(false, |n| n % 2 == 0));
            "ok".into()
        }
        "extend" => {
            m.extend(pairs(&p[1..]).into_iter().map(|(k, n)| (k, toml::Value::Integer(n))));
            "ok".into()
        }
        _ => "na".into(),
    }
}

fn run_map(ops: &[Vec<&str>]) -> String {
    let mut m = TMap::new();
    let mut rets = Vec::new();
    for p in ops {
        rets.push(map_op(&mut m, p));
    }
    let gets: Vec<String> = KEYS.iter().map(|k| opt(m.get(*k), mtok)).collect();
    let fin = format!(
        "len={} empty={} iter={} get={} into={} print={}",
        m.len(),
        tf(m.is_empty()),
        join(m.iter().map(|(k, v)| format!("{k}={}", mtok(v))).collect()),
        gets.join(","),
        join(m.clone().into_iter().map(|(k, v)| format!("{k}={}", mtok(&v))).collect()),
        hex(toml::to_string(&m).unwrap_or_else(|_| "err".into()).as_bytes())
    );
    format!("{} | {}", rets.join(";"), fin)
}

pub fn run(line: &str) -> String {
    let (container, rest) = line.split_once(' ').unwrap_or((line, ""));
    let ops: Vec<Vec<&str>> = rest
        .split(';')
        .filter(|s| !s.is_empty() && *s != "-")
        .map(|s| s.split(' ').collect())
        .collect();
    match container {
        "table" => run_table(&ops, false),
        "tablelike" => run_table(&ops, true),
        "inline" => run_inline(&ops, false, false),
        "inlinelike" => run_inline(&ops, true, false),
        "docinline" => run_inline(&ops, true, true),
        "array" => run_array(&ops),
        "aot" => run_aot(&ops),
        // the build decides the configuration: BTreeMap, or IndexMap with feature preserve_order
        "map" | "mapsorted" | "mapinsertion" => run_map(&ops),
        _ => "bad-container".into(),
    }
}
