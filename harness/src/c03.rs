//! C03 `p <hex>`: parse, make editable, print (twice). C14 `s <hex>`: span tree of an ImDocument and the serde route.
use crate::canon::*;
use crate::util::*;
use serde::de::{Deserialize, Deserializer, MapAccess, SeqAccess, Visitor};
use serde_spanned::Spanned;
use toml_edit::{Item, Table, Value};

pub fn run_print(line: &str) -> String {
    let text = unhex_str(line);
    match toml_edit::ImDocument::parse(text.clone()) {
        Err(_) => "err".into(),
        Ok(im) => {
            let p_im = im.to_string();
            let m = im.into_mut();
            let p = m.to_string();
            let p2 = match p.parse::<toml_edit::DocumentMut>() {
                Ok(d) => hex(d.to_string().as_bytes()),
                Err(_) => "REPARSE-FAILED".into(),
            };
            let same_data = match p.parse::<toml_edit::DocumentMut>() {
                Ok(d) => plain_tbl(d.as_table()) == plain_tbl(m.as_table()),
                Err(_) => false,
            };
            let _ = p_im;
            format!("ok p={} p2={} data={}", hex(p.as_bytes()), if p2 == hex(p.as_bytes()) { "same".into() } else { p2 }, same_data)
        }
    }
}

fn sp(s: Option<std::ops::Range<usize>>) -> String {
    match s {
        Some(r) => format!("{}..{}", r.start, r.end),
        None => "-".into(),
    }
}

fn spans_val(v: &Value, path: &str, out: &mut Vec<String>, text: &str, bad: &mut Vec<String>) {
    // re-parse oracle: the spanned slice alone parses to the same value
    if let Some(r) = v.span() {
        match text.get(r.clone()) {
            None => bad.push(format!("{path}:slice")),
            Some(sl) => match sl.parse::<Value>() {
                Ok(v2) if canon_val(&v2) == canon_val(v) => {}
                _ => bad.push(format!("{path}:reparse-value")),
            },
        }
    }
    match v {
        Value::Array(a) => {
            for (i, x) in a.iter().enumerate() {
                let p = format!("{path}/{i}");
                out.push(format!("{p}=-:{}", sp(x.span())));
                check_nested(v.span(), x.span(), &p, bad);
                spans_val(x, &p, out, text, bad);
            }
        }
        Value::InlineTable(t) => {
            for (k, x) in t.iter() {
                let p = format!("{path}/{}", hex(k.as_bytes()));
                let ks = t.key(k).and_then(|k| k.span());
                out.push(format!("{p}={}:{}", sp(ks.clone()), sp(x.span())));
                check_key(ks.clone(), k, &p, text, bad);
                check_nested(v.span(), x.span(), &p, bad);
                check_nested(v.span(), ks, &p, bad);
                spans_val(x, &p, out, text, bad);
            }
        }
        _ => {}
    }
}

fn check_nested(parent: Option<std::ops::Range<usize>>, child: Option<std::ops::Range<usize>>, p: &str, bad: &mut Vec<String>) {
    if let (Some(a), Some(b)) = (parent, child) {
        if !(a.start <= b.start && b.end <= a.end) {
            bad.push(format!("{p}:child-outside-parent"));
        }
    }
}

fn check_key(ks: Option<std::ops::Range<usize>>, k: &str, p: &str, text: &str, bad: &mut Vec<String>) {
    if let Some(r) = ks {
        match text.get(r) {
            None => bad.push(format!("{p}:key-slice")),
            Some(sl) => match sl.parse::<toml_edit::Key>() {
                Ok(k2) if k2.get() == k => {}
                _ => bad.push(format!("{p}:reparse-key")),
            },
        }
    }
}

fn spans_tbl(t: &Table, path: &str, out: &mut Vec<String>, text: &str, bad: &mut Vec<String>, anc: Option<std::ops::Range<usize>>) {
    // the nearest enclosing table that has a span of its own (dotted / implicit tables have none)
    let anc = t.span().or(anc);
    for (k, i) in t.iter() {
        let p = format!("{path}/{}", hex(k.as_bytes()));
        let ks = t.key(k).and_then(|k| k.span());
        out.push(format!("{p}={}:{}", sp(ks.clone()), sp(i.span())));
        check_key(ks, k, &p, text, bad);
        match i {
            Item::Value(v) => {
                check_nested(anc.clone(), v.span(), &p, bad);
                check_nested(anc.clone(), t.key(k).and_then(|k| k.span()), &p, bad);
                spans_val(v, &p, out, text, bad)
            }
            // a dotted table belongs to the section it was written in; a header table is located by its own header
            Item::Table(s) => spans_tbl(s, &p, out, text, bad, if s.is_dotted() { anc.clone() } else { None }),
            Item::ArrayOfTables(a) => {
                for (n, s) in a.iter().enumerate() {
                    let q = format!("{p}/{n}");
                    out.push(format!("{q}=-:{}", sp(s.span())));
                    check_nested(a.span(), s.span(), &q, bad);
                    spans_tbl(s, &q, out, text, bad, None);
                }
            }
            Item::None => {}
        }
    }
}

fn any_span_tbl(t: &Table) -> bool {
    if t.span().is_some() {
        return true;
    }
    t.iter().any(|(k, i)| {
        t.key(k).and_then(|k| k.span()).is_some()
            || i.span().is_some()
            || match i {
                Item::Value(v) => any_span_val(v),
                Item::Table(s) => any_span_tbl(s),
                Item::ArrayOfTables(a) => a.iter().any(any_span_tbl),
                Item::None => false,
            }
    })
}
fn any_span_val(v: &Value) -> bool {
    v.span().is_some()
        || match v {
            Value::Array(a) => a.iter().any(any_span_val),
            Value::InlineTable(t) => t.iter().any(|(k, x)| t.key(k).and_then(|k| k.span()).is_some() || any_span_val(x)),
            _ => false,
        }
}

/// a map key that is spanned when the deserializer offers it and plain otherwise (the private
/// date-time struct presents its single key as a plain string)
enum K {
    Spanned(Spanned<String>),
    Plain(String),
}
impl<'de> Deserialize<'de> for K {
    fn deserialize<D: Deserializer<'de>>(d: D) -> Result<Self, D::Error> {
        struct KV;
        impl<'de> Visitor<'de> for KV {
            type Value = K;
            fn expecting(&self, f: &mut std::fmt::Formatter<'_>) -> std::fmt::Result {
                write!(f, "a key")
            }
            fn visit_str<E>(self, v: &str) -> Result<K, E> {
                Ok(K::Plain(v.to_string()))
            }
            fn visit_map<A: MapAccess<'de>>(self, mut a: A) -> Result<K, A::Error> {
                let mut start = 0usize;
                let mut end = 0usize;
                let mut val = String::new();
                while let Some(k) = a.next_key::<String>()? {
                    if k == serde_spanned::__unstable::START_FIELD {
                        start = a.next_value()?;
                    } else if k == serde_spanned::__unstable::END_FIELD {
                        end = a.next_value()?;
                    } else {
                        val = a.next_value()?;
                    }
                }
                Ok(K::Spanned(Spanned::new(start..end, val)))
            }
        }
        d.deserialize_struct(
            serde_spanned::__unstable::NAME,
            &[serde_spanned::__unstable::START_FIELD, serde_spanned::__unstable::END_FIELD, serde_spanned::__unstable::VALUE_FIELD],
            KV,
        )
    }
}

/// C14, key kinds: the same document read with four map-key types — a newtype over `String`, `Spanned` of that newtype,
/// a newtype over `Spanned<String>`, and `Spanned<String>`. Wrapping in `Spanned` must not change success or the keys,
/// and the three spanned kinds must deliver the same ranges.
trait KeyKind: for<'de> Deserialize<'de> {
    fn parts(&self) -> (String, Option<(usize, usize)>);
}
#[derive(serde::Deserialize)]
struct KP(String);
#[derive(serde::Deserialize)]
struct KPS(Spanned<String>);
impl KeyKind for KP {
    fn parts(&self) -> (String, Option<(usize, usize)>) {
        (self.0.clone(), None)
    }
}
impl KeyKind for Spanned<KP> {
    fn parts(&self) -> (String, Option<(usize, usize)>) {
        (self.get_ref().0.clone(), Some((self.span().start, self.span().end)))
    }
}
impl KeyKind for KPS {
    fn parts(&self) -> (String, Option<(usize, usize)>) {
        (self.0.get_ref().clone(), Some((self.0.span().start, self.0.span().end)))
    }
}
impl KeyKind for Spanned<String> {
    fn parts(&self) -> (String, Option<(usize, usize)>) {
        (self.get_ref().clone(), Some((self.span().start, self.span().end)))
    }
}
enum KTree<Q> {
    Leaf,
    Seq(Vec<KTree<Q>>),
    Map(Vec<(Q, KTree<Q>)>),
}
struct KTreeVisitor<Q> {
    root: bool,
    m: std::marker::PhantomData<Q>,
}
struct KTreeSeed<Q>(std::marker::PhantomData<Q>);
impl<'de, Q: KeyKind> serde::de::DeserializeSeed<'de> for KTreeSeed<Q> {
    type Value = KTree<Q>;
    fn deserialize<D: Deserializer<'de>>(self, d: D) -> Result<KTree<Q>, D::Error> {
        d.deserialize_any(KTreeVisitor::<Q> { root: false, m: Default::default() })
    }
}
impl<'de, Q: KeyKind> Visitor<'de> for KTreeVisitor<Q> {
    type Value = KTree<Q>;
    fn expecting(&self, f: &mut std::fmt::Formatter<'_>) -> std::fmt::Result {
        write!(f, "any TOML value")
    }
    fn visit_bool<E>(self, _: bool) -> Result<KTree<Q>, E> {
        Ok(KTree::Leaf)
    }
    fn visit_i64<E>(self, _: i64) -> Result<KTree<Q>, E> {
        Ok(KTree::Leaf)
    }
    fn visit_f64<E>(self, _: f64) -> Result<KTree<Q>, E> {
        Ok(KTree::Leaf)
    }
    fn visit_str<E>(self, _: &str) -> Result<KTree<Q>, E> {
        Ok(KTree::Leaf)
    }
    fn visit_seq<A: SeqAccess<'de>>(self, mut a: A) -> Result<KTree<Q>, A::Error> {
        let mut v = vec![];
        while let Some(x) = a.next_element_seed(KTreeSeed::<Q>(Default::default()))? {
            v.push(x);
        }
        Ok(KTree::Seq(v))
    }
    fn visit_map<A: MapAccess<'de>>(self, mut a: A) -> Result<KTree<Q>, A::Error> {
        let mut v = vec![];
        if !self.root {
            // the first key of an inner map may be the private date-time key (a plain string): read it with `K`
            match a.next_key::<K>()? {
                None => return Ok(KTree::Map(v)),
                Some(K::Plain(_)) => {
                    let _: serde::de::IgnoredAny = a.next_value()?;
                    while a.next_key::<serde::de::IgnoredAny>()?.is_some() {
                        let _: serde::de::IgnoredAny = a.next_value()?;
                    }
                    return Ok(KTree::Leaf);
                }
                Some(K::Spanned(_)) => {
                    let _ = a.next_value_seed(KTreeSeed::<Q>(Default::default()))?;
                }
            }
        }
        while let Some(k) = a.next_key::<Q>()? {
            let x = a.next_value_seed(KTreeSeed::<Q>(Default::default()))?;
            v.push((k, x));
        }
        Ok(KTree::Map(v))
    }
}
fn ktree_list<Q: KeyKind>(t: &KTree<Q>, path: &str, out: &mut Vec<String>) {
    match t {
        KTree::Leaf => {}
        KTree::Seq(v) => {
            for (i, x) in v.iter().enumerate() {
                ktree_list(x, &format!("{path}/{i}"), out);
            }
        }
        KTree::Map(v) => {
            for (k, x) in v {
                let (name, span) = k.parts();
                let p = format!("{path}/{}", hex(name.as_bytes()));
                out.push(match span {
                    Some((a, b)) => format!("{p}={a}..{b}"),
                    None => format!("{p}=-"),
                });
                ktree_list(x, &p, out);
            }
        }
    }
}
fn key_kind<Q: KeyKind>(text: &str) -> Result<Vec<String>, String> {
    use serde::de::DeserializeSeed;
    struct RootSeed<Q>(std::marker::PhantomData<Q>);
    impl<'de, Q: KeyKind> DeserializeSeed<'de> for RootSeed<Q> {
        type Value = KTree<Q>;
        fn deserialize<D: Deserializer<'de>>(self, d: D) -> Result<KTree<Q>, D::Error> {
            d.deserialize_any(KTreeVisitor::<Q> { root: true, m: Default::default() })
        }
    }
    let de = toml::de::Deserializer::new(text);
    let t = RootSeed::<Q>(Default::default()).deserialize(de).map_err(|e| e.message().to_string())?;
    let mut out = vec![];
    ktree_list(&t, "", &mut out);
    Ok(out)
}
/// `keys=same` or what differs between the four key kinds (and the document's own key spans `ed`)
fn key_kinds(text: &str, ed: &std::collections::HashMap<&str, &str>) -> String {
    let p = key_kind::<KP>(text);
    let sp_ = key_kind::<Spanned<KP>>(text);
    let ps = key_kind::<KPS>(text);
    let s = key_kind::<Spanned<String>>(text);
    let names = |r: &Result<Vec<String>, String>| r.as_ref().map(|v| v.iter().map(|e| e.split('=').next().unwrap().to_string()).collect::<Vec<_>>()).map_err(|e| e.clone());
    let mut bad = vec![];
    for (n, r) in [("Spanned<Newtype(String)>", &sp_), ("Newtype(Spanned<String>)", &ps), ("Spanned<String>", &s)] {
        match (&p, r) {
            (Ok(_), Err(e)) => bad.push(format!("{n}-fails-where-Newtype(String)-succeeds:{}", hex(e.as_bytes()))),
            (Err(e), Ok(_)) => bad.push(format!("{n}-succeeds-where-Newtype(String)-fails:{}", hex(e.as_bytes()))),
            (Ok(_), Ok(v)) => {
                if names(&p) != names(r) {
                    bad.push(format!("{n}-gives-other-keys"));
                }
                if let Ok(sv) = &s {
                    if sv != v {
                        bad.push(format!("{n}-gives-other-spans-than-Spanned<String>"));
                    }
                }
                for e in v {
                    let (path, span) = e.split_once('=').unwrap();
                    if let Some(x) = ed.get(path) {
                        let ek = x.split(':').next().unwrap();
                        if ek != "-" && ek != span {
                            bad.push(format!("{n}:{path}:{span}!=document-key-span-{ek}"));
                        }
                    }
                }
            }
            (Err(_), Err(_)) => {}
        }
    }
    if bad.is_empty() {
        "same".into()
    } else {
        bad.truncate(4);
        format!("DIFF:{}", bad.join(","))
    }
}

/// serde route: a recursive Spanned tree
#[derive(Debug)]
struct Node(Spanned<Inner>);
#[derive(Debug)]
enum Inner {
    Table(Vec<(Spanned<String>, Node)>),
    Array(Vec<Node>),
    Scalar(toml::Value),
}
impl<'de> Deserialize<'de> for Node {
    fn deserialize<D: Deserializer<'de>>(d: D) -> Result<Self, D::Error> {
        Ok(Node(Spanned::<Inner>::deserialize(d)?))
    }
}
impl<'de> Deserialize<'de> for Inner {
    fn deserialize<D: Deserializer<'de>>(d: D) -> Result<Self, D::Error> {
        struct V;
        impl<'de> Visitor<'de> for V {
            type Value = Inner;
            fn expecting(&self, f: &mut std::fmt::Formatter<'_>) -> std::fmt::Result {
                write!(f, "any TOML value")
            }
            fn visit_bool<E>(self, v: bool) -> Result<Inner, E> {
                Ok(Inner::Scalar(toml::Value::Boolean(v)))
            }
            fn visit_i64<E>(self, v: i64) -> Result<Inner, E> {
                Ok(Inner::Scalar(toml::Value::Integer(v)))
            }
            fn visit_f64<E>(self, v: f64) -> Result<Inner, E> {
                Ok(Inner::Scalar(toml::Value::Float(v)))
            }
            fn visit_str<E>(self, v: &str) -> Result<Inner, E> {
                Ok(Inner::Scalar(toml::Value::String(v.to_string())))
            }
            fn visit_string<E>(self, v: String) -> Result<Inner, E> {
                Ok(Inner::Scalar(toml::Value::String(v)))
            }
            fn visit_seq<A: SeqAccess<'de>>(self, mut a: A) -> Result<Inner, A::Error> {
                let mut v = vec![];
                while let Some(x) = a.next_element::<Node>()? {
                    v.push(x);
                }
                Ok(Inner::Array(v))
            }
            fn visit_map<A: MapAccess<'de>>(self, mut a: A) -> Result<Inner, A::Error> {
                let mut v = vec![];
                while let Some(k) = a.next_key::<K>()? {
                    match k {
                        K::Plain(name) => {
                            if name == "$__toml_private_datetime" {
                                let s: String = a.next_value()?;
                                return Ok(Inner::Scalar(toml::Value::Datetime(s.parse().map_err(serde::de::Error::custom)?)));
                            }
                            return Err(serde::de::Error::custom(format!("map key `{name}` carries no span")));
                        }
                        K::Spanned(k) => {
                            let x = a.next_value::<Node>()?;
                            v.push((k, x));
                        }
                    }
                }
                Ok(Inner::Table(v))
            }
        }
        d.deserialize_any(V)
    }
}

fn node_plain(n: &Node) -> String {
    match n.0.get_ref() {
        Inner::Scalar(v) => plain_toml(v),
        Inner::Array(a) => format!("[{}]", a.iter().map(node_plain).collect::<Vec<_>>().join(";")),
        Inner::Table(t) => {
            let mut items: Vec<(Vec<u8>, String)> = t.iter().map(|(k, v)| (k.get_ref().as_bytes().to_vec(), node_plain(v))).collect();
            items.sort_by(|a, b| a.0.cmp(&b.0));
            format!("{{{}}}", items.iter().map(|(k, s)| format!("{}={}", hex(k), s)).collect::<Vec<_>>().join(";"))
        }
    }
}

fn node_spans(n: &Node, path: &str, out: &mut Vec<String>) {
    match n.0.get_ref() {
        Inner::Scalar(_) => {}
        Inner::Array(a) => {
            for (i, x) in a.iter().enumerate() {
                let p = format!("{path}/{i}");
                out.push(format!("{p}=-:{}..{}", x.0.span().start, x.0.span().end));
                node_spans(x, &p, out);
            }
        }
        Inner::Table(t) => {
            for (k, x) in t.iter() {
                let p = format!("{path}/{}", hex(k.get_ref().as_bytes()));
                out.push(format!("{p}={}..{}:{}..{}", k.span().start, k.span().end, x.0.span().start, x.0.span().end));
                node_spans(x, &p, out);
            }
        }
    }
}

fn range_of(s: &str) -> (usize, usize) {
    let (a, b) = s.split_once("..").unwrap();
    (a.parse().unwrap(), b.parse().unwrap())
}

pub fn run_spans(line: &str) -> String {
    let text = unhex_str(line);
    let im = match toml_edit::ImDocument::parse(text.clone()) {
        Err(_) => return "err".into(),
        Ok(d) => d,
    };
    let mut out = vec![];
    let mut bad = vec![];
    out.push(format!("root=-:{}", sp(im.as_table().span())));
    spans_tbl(im.as_table(), "", &mut out, &text, &mut bad, None);
    // bounds / boundaries of every span
    for e in &out {
        for part in e.split('=').nth(1).unwrap().split(':') {
            if part != "-" {
                let mut it = part.split("..");
                let a: usize = it.next().unwrap().parse().unwrap();
                let b: usize = it.next().unwrap().parse().unwrap();
                if !(a <= b && b <= text.len() && text.is_char_boundary(a) && text.is_char_boundary(b)) {
                    bad.push(format!("{e}:bounds"));
                }
            }
        }
    }
    // serde route
    let serde = match toml::from_str::<Node>(&text) {
        Err(e) => format!("SERDE-ERR:{}", hex(e.message().as_bytes())),
        Ok(n) => {
            let plain_ok = toml::from_str::<toml::Table>(&text).map(|t| plain_toml_table(&t) == node_plain(&n)).unwrap_or(false);
            let mut so = vec![];
            node_spans(&n, "", &mut so);
            // compare with the toml_edit spans wherever both have one (tables defined by headers have different conventions)
            let mut diff = vec![];
            let ed: std::collections::HashMap<&str, &str> = out.iter().filter_map(|e| e.split_once('=')).collect();
            for e in &so {
                let (p, s) = e.split_once('=').unwrap();
                match ed.get(p) {
                    Some(x) if *x == s => {}
                    Some(x) => {
                        // where toml_edit has no span of its own (dotted / implicit tables) the serde route reports a covering span
                        let (ek, ev) = x.split_once(':').unwrap();
                        let (sk, sv) = s.split_once(':').unwrap();
                        if !(ek == sk && ev == "-") && !(ek == "-" && ev == sv) {
                            diff.push(format!("{p}:{x}!={s}"))
                        } else if ev == "-" {
                            // a span synthesized for a table without one of its own covers every entry below it:
                            // keys and values of its direct entries (which in turn cover theirs)
                            let (a, b) = range_of(sv);
                            for c in &so {
                                let (cp, cs) = c.split_once('=').unwrap();
                                if cp.len() > p.len() && cp.starts_with(p) && cp.as_bytes()[p.len()] == b'/' && !cp[p.len() + 1..].contains('/') {
                                    for part in cs.split(':') {
                                        if part != "-" {
                                            let (ca, cb) = range_of(part);
                                            if ca < a || cb > b {
                                                diff.push(format!("{cp}:{part}-outside-synthesized-{p}:{sv}"));
                                            }
                                        }
                                    }
                                }
                            }
                        }
                    }
                    None => diff.push(format!("{p}:missing")),
                }
            }
            format!("value={} spans={}", if plain_ok { "same" } else { "DIFF" }, if diff.is_empty() { "same".to_string() } else { diff.join(",") })
        }
    };
    let keys = {
        let ed: std::collections::HashMap<&str, &str> = out.iter().filter_map(|e| e.split_once('=')).collect();
        key_kinds(&text, &ed)
    };
    let m = im.into_mut();
    let despan = if any_span_tbl(m.as_table()) { "STALE" } else { "none" };
    format!("ok spans={} oracle={} serde[{}] keys={} despan={}", out.join(","), if bad.is_empty() { "ok".to_string() } else { format!("BAD:{}", bad.join(",")) }, serde, keys, despan)
}
