//! C06: structures assembled through the construction API, printed and parsed back.
//!
//! case line = `<route> <tree>`; the tree is a token stream (tokens separated by one space):
//!   value := `s HEX` | `i DEC` | `f BITS16 DISPHEX` | `b 0|1` | `d DATE TIME OFF`
//!          | `[` value* `]`        (Array::new + push)       | `[i` value* `]`  (FromIterator)
//!          | `{` (HEXKEY value)* `}` (InlineTable::new + insert) | `{i` … `}` (FromIterator)
//!   item  := value | table | `A[` table* `]` (ArrayOfTables::new + push) | `A[i` table* `]` (FromIterator)
//!   table := `T{` (HEXKEY item)* `}` (Table::new + insert) | `T{i` … `}` (FromIterator)
//! routes: `e` DocumentMut::from(table)   `n` DocumentMut::new() + insert into the root
//!         `v` toml_edit::Value Display   `k HEX` Key Display     `b` toml_edit::Table Display (body only)
//!         `t` toml::Table Display        `u` toml::Value Display (values only; `{` = toml::Table)
use crate::canon::*;
use crate::util::*;
use toml_datetime::{Date, Datetime, Offset, Time};
use toml_edit::{Array, ArrayOfTables, DocumentMut, InlineTable, Item, Key, Table, Value};

struct P<'a> {
    t: Vec<&'a str>,
    i: usize,
    /// every float token carried std's Display text of its bit pattern
    fl: bool,
}

impl<'a> P<'a> {
    fn next(&mut self) -> &'a str {
        let x = self.t[self.i];
        self.i += 1;
        x
    }
    fn peek(&self) -> &'a str {
        self.t[self.i]
    }
}

fn datetime(p: &mut P<'_>) -> Datetime {
    let (d, t, o) = (p.next(), p.next(), p.next());
    let date = if d == "-" {
        None
    } else {
        let f: Vec<&str> = d.split('-').collect();
        Some(Date { year: f[0].parse().unwrap(), month: f[1].parse().unwrap(), day: f[2].parse().unwrap() })
    };
    let time = if t == "-" {
        None
    } else {
        let f: Vec<&str> = t.split(':').collect();
        Some(Time { hour: f[0].parse().unwrap(), minute: f[1].parse().unwrap(), second: f[2].parse().unwrap(), nanosecond: f[3].parse().unwrap() })
    };
    let offset = match o {
        "-" => None,
        "Z" => Some(Offset::Z),
        m => Some(Offset::Custom { minutes: m.parse().unwrap() }),
    };
    Datetime { date, time, offset }
}

fn value(p: &mut P<'_>) -> Value {
    match p.next() {
        "s" => {
            let s = unhex_str(p.next());
            // alternate between the From impls
            if s.len() % 2 == 0 {
                Value::from(s.as_str())
            } else {
                Value::from(s)
            }
        }
        "i" => Value::from(p.next().parse::<i64>().unwrap()),
        "f" => {
            let bits = u64::from_str_radix(p.next(), 16).unwrap();
            let disp = p.next();
            p.fl &= disp == hex(format!("{}", f64::from_bits(bits)).as_bytes());
            Value::from(f64::from_bits(bits))
        }
        "b" => Value::from(p.next() == "1"),
        "d" => {
            let dt = datetime(p);
            // Date / Time have their own From impls
            match (dt.date, dt.time, dt.offset) {
                (Some(d), None, None) => Value::from(d),
                (None, Some(t), None) => Value::from(t),
                _ => Value::from(dt),
            }
        }
        "[" => {
            let mut a = Array::new();
            while p.peek() != "]" {
                let v = value(p);
                a.push(v);
            }
            p.next();
            Value::from(a)
        }
        // `[t` an array with the trailing-comma flag set through the API, `[c` the same and then emptied with `clear`
        f @ ("[t" | "[c") => {
            let mut a = Array::new();
            while p.peek() != "]" {
                let v = value(p);
                a.push(v);
            }
            p.next();
            a.set_trailing_comma(true);
            if f == "[c" {
                a.clear();
            }
            Value::from(a)
        }
        "[i" => {
            let mut vs = Vec::new();
            while p.peek() != "]" {
                vs.push(value(p));
            }
            p.next();
            let a: Array = vs.into_iter().collect();
            Value::Array(a)
        }
        "{" => {
            let mut t = InlineTable::new();
            while p.peek() != "}" {
                let k = unhex_str(p.next());
                let v = value(p);
                t.insert(k, v);
            }
            p.next();
            Value::from(t)
        }
        "{i" => {
            let mut kvs = Vec::new();
            while p.peek() != "}" {
                let k = unhex_str(p.next());
                let v = value(p);
                kvs.push((k, v));
            }
            p.next();
            let t: InlineTable = kvs.iter().map(|(k, v)| (k.as_str(), v.clone())).collect();
            Value::InlineTable(t)
        }
        x => panic!("value token {x}"),
    }
}

fn table(p: &mut P<'_>) -> Table {
    match p.next() {
        "T{" => {
            let mut t = Table::new();
            while p.peek() != "}" {
                let k = unhex_str(p.next());
                let it = item(p);
                t.insert(&k, it);
            }
            p.next();
            t
        }
        "T{i" => {
            let mut kvs = Vec::new();
            while p.peek() != "}" {
                let k = unhex_str(p.next());
                let it = item(p);
                kvs.push((k, it));
            }
            p.next();
            kvs.iter().map(|(k, v)| (k.as_str(), v.clone())).collect()
        }
        // `T{d` a table marked dotted, `T{m` a table marked implicit (route `g` only: flags set through the API)
        f @ ("T{d" | "T{m") => {
            let mut t = Table::new();
            while p.peek() != "}" {
                let k = unhex_str(p.next());
                let it = item(p);
                t.insert(&k, it);
            }
            p.next();
            if f == "T{d" {
                t.set_dotted(true);
            } else {
                t.set_implicit(true);
            }
            t
        }
        x => panic!("table token {x}"),
    }
}

fn item(p: &mut P<'_>) -> Item {
    match p.peek() {
        "T{" | "T{i" | "T{d" | "T{m" => Item::Table(table(p)),
        "A[" => {
            p.next();
            let mut a = ArrayOfTables::new();
            while p.peek() != "]" {
                a.push(table(p));
            }
            p.next();
            Item::ArrayOfTables(a)
        }
        "A[i" => {
            p.next();
            let mut ts = Vec::new();
            while p.peek() != "]" {
                ts.push(table(p));
            }
            p.next();
            let a: ArrayOfTables = ts.into_iter().collect();
            Item::from(a)
        }
        _ => {
            let v = value(p);
            // the three spellings of "a value item"
            match v {
                Value::Integer(_) => toml_edit::value(v),
                Value::String(_) => Item::from(v),
                v => Item::Value(v),
            }
        }
    }
}

// ---- ordered canonical forms (insertion order kept, kinds kept, no flags)
pub fn ord_val(v: &Value) -> String {
    match v {
        Value::Array(a) => format!("[{}]", a.iter().map(ord_val).collect::<Vec<_>>().join(";")),
        Value::InlineTable(t) => {
            let items: Vec<String> = t.iter().map(|(k, v)| format!("{}={}", hex(k.as_bytes()), ord_val(v))).collect();
            format!("I{{{}}}", items.join(";"))
        }
        v => canon_val(v),
    }
}

pub fn ord_item(i: &Item) -> String {
    match i {
        Item::None => "NONE".into(),
        Item::Value(v) => ord_val(v),
        Item::Table(t) => ord_tbl(t),
        Item::ArrayOfTables(a) => format!("A[{}]", a.iter().map(ord_tbl).collect::<Vec<_>>().join(";")),
    }
}

pub fn ord_tbl(t: &Table) -> String {
    let items: Vec<String> = t.iter().map(|(k, v)| format!("{}={}", hex(k.as_bytes()), ord_item(v))).collect();
    format!("T{{{}}}", items.join(";"))
}

fn toml_value(p: &mut P<'_>) -> toml::Value {
    match p.next() {
        "s" => toml::Value::String(unhex_str(p.next())),
        "i" => toml::Value::Integer(p.next().parse::<i64>().unwrap()),
        "f" => {
            let bits = u64::from_str_radix(p.next(), 16).unwrap();
            let disp = p.next();
            p.fl &= disp == hex(format!("{}", f64::from_bits(bits)).as_bytes());
            toml::Value::Float(f64::from_bits(bits))
        }
        "b" => toml::Value::Boolean(p.next() == "1"),
        "d" => toml::Value::Datetime(datetime(p)),
        "[" | "[i" => {
            let mut a = Vec::new();
            while p.peek() != "]" {
                a.push(toml_value(p));
            }
            p.next();
            toml::Value::Array(a)
        }
        "{" | "{i" => {
            let mut t = toml::Table::new();
            while p.peek() != "}" {
                let k = unhex_str(p.next());
                let v = toml_value(p);
                t.insert(k, v);
            }
            p.next();
            toml::Value::Table(t)
        }
        x => panic!("toml value token {x}"),
    }
}

fn doc_out(doc: &DocumentMut, fl: bool) -> String {
    let text = doc.to_string();
    let again = doc.to_string();
    let cloned = doc.clone().to_string();
    let twice = text == again && text == cloned;
    let (rp, ro) = match text.parse::<DocumentMut>() {
        Ok(d) => (plain_tbl(d.as_table()), ord_tbl(d.as_table())),
        Err(_) => ("err".to_string(), "err".to_string()),
    };
    format!(
        "txt={} rp={} bp={} ro={} bo={} twice={} fl={}",
        hex(text.as_bytes()),
        rp,
        plain_tbl(doc.as_table()),
        ro,
        ord_tbl(doc.as_table()),
        twice as u8,
        fl as u8
    )
}

pub fn run(line: &str) -> String {
    let toks: Vec<&str> = line.split(' ').collect();
    let route = toks[0];
    let mut p = P { t: toks, i: 1, fl: true };
    match route {
        "e" | "g" => {
            let t = table(&mut p);
            let doc = DocumentMut::from(t);
            doc_out(&doc, p.fl)
        }
        "n" => {
            // DocumentMut::new() and insertion into its root (the root keeps position 0)
            let t = table(&mut p);
            let mut doc = DocumentMut::new();
            for (k, it) in t.iter() {
                doc.as_table_mut().insert(k, it.clone());
            }
            doc_out(&doc, p.fl)
        }
        "v" => {
            let v = value(&mut p);
            let text = v.to_string();
            let twice = text == v.to_string() && text == v.clone().to_string();
            let (rp, ro) = match text.parse::<Value>() {
                Ok(w) => (plain_val(&w), ord_val(&w)),
                Err(_) => ("err".to_string(), "err".to_string()),
            };
            format!("txt={} rp={} bp={} ro={} bo={} twice={} fl={}", hex(text.as_bytes()), rp, plain_val(&v), ro, ord_val(&v), twice as u8, p.fl as u8)
        }
        "k" => {
            let s = unhex_str(p.next());
            let k = Key::new(s.as_str());
            let text = k.to_string();
            let twice = text == k.to_string();
            // the printed key as a standalone key, as a dotted path of one, and in a header
            let a = match text.parse::<Key>() {
                Ok(k2) => hex(k2.get().as_bytes()),
                Err(_) => "err".into(),
            };
            let b = match Key::parse(&text) {
                Ok(ks) if ks.len() == 1 => hex(ks[0].get().as_bytes()),
                Ok(ks) => format!("path{}", ks.len()),
                Err(_) => "err".into(),
            };
            format!("txt={} rp={} rpath={} bp={} twice={}", hex(text.as_bytes()), a, b, hex(s.as_bytes()), twice as u8)
        }
        "b" => {
            // Display for Table prints the body: the values of the table (not its sub-tables)
            let t = table(&mut p);
            let text = t.to_string();
            let twice = text == t.to_string();
            let (rp, ro) = match text.parse::<DocumentMut>() {
                Ok(d) => (plain_tbl(d.as_table()), ord_tbl(d.as_table())),
                Err(_) => ("err".to_string(), "err".to_string()),
            };
            format!("txt={} rp={} bp={} ro={} bo={} twice={} fl={}", hex(text.as_bytes()), rp, plain_tbl(&t), ro, ord_tbl(&t), twice as u8, p.fl as u8)
        }
        "t" => {
            let v = toml_value(&mut p);
            let t = match v {
                toml::Value::Table(t) => t,
                _ => panic!("t route needs a table"),
            };
            let text = t.to_string();
            let twice = text == t.to_string() && text == t.clone().to_string();
            let rp = match text.parse::<toml::Table>() {
                Ok(t2) => plain_toml_table(&t2),
                Err(_) => "err".into(),
            };
            // the same text through the toml_edit parser
            let re = match text.parse::<DocumentMut>() {
                Ok(d) => plain_tbl(d.as_table()),
                Err(_) => "err".into(),
            };
            format!("txt={} rp={} re={} bp={} twice={} fl={}", hex(text.as_bytes()), rp, re, plain_toml_table(&t), twice as u8, p.fl as u8)
        }
        "u" => {
            let v = toml_value(&mut p);
            let text = v.to_string();
            let twice = text == v.to_string() && text == v.clone().to_string();
            let wrapped = format!("x = {text}\n");
            let rp = match wrapped.parse::<toml::Table>() {
                Ok(t2) => match t2.get("x") {
                    Some(w) if t2.len() == 1 => plain_toml(w),
                    _ => "other".into(),
                },
                Err(_) => "err".into(),
            };
            let re = match text.parse::<Value>() {
                Ok(w) => plain_val(&w),
                Err(_) => "err".into(),
            };
            format!("txt={} rp={} re={} bp={} twice={} fl={}", hex(text.as_bytes()), rp, re, plain_toml(&v), twice as u8, p.fl as u8)
        }
        x => panic!("route {x}"),
    }
}
