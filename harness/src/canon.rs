//! canonical one-line forms of trees (must match lean/TomlVerif/Driver/Canon.lean)
use crate::util::*;
use toml_datetime::{Datetime, Offset};
use toml_edit::{Item, Table, Value};

pub fn show_dt(d: &Datetime) -> String {
    let ds = match &d.date {
        Some(x) => format!("{}-{}-{}", x.year, x.month, x.day),
        None => "-".into(),
    };
    let ts = match &d.time {
        Some(t) => format!("{}:{}:{}:{}", t.hour, t.minute, t.second, t.nanosecond),
        None => "-".into(),
    };
    let os = match &d.offset {
        Some(Offset::Z) => "Z".into(),
        Some(Offset::Custom { minutes }) => format!("{minutes}"),
        None => "-".into(),
    };
    format!("{ds}|{ts}|{os}")
}

fn b01(b: bool) -> &'static str {
    if b {
        "1"
    } else {
        "0"
    }
}

pub fn canon_val(v: &Value) -> String {
    match v {
        Value::String(f) => format!("s{}", hex(f.value().as_bytes())),
        Value::Integer(f) => format!("i{}", f.value()),
        Value::Float(f) => format!("f{:016x}", f.value().to_bits()),
        Value::Boolean(f) => format!("b{}", b01(*f.value())),
        Value::Datetime(f) => format!("d{}", show_dt(f.value())),
        Value::Array(a) => format!("[{}]", a.iter().map(canon_val).collect::<Vec<_>>().join(";")),
        Value::InlineTable(t) => {
            let items: Vec<String> = t.iter().map(|(k, v)| format!("{}={}", hex(k.as_bytes()), canon_val(v))).collect();
            format!("I{}{}{{{}}}", b01(t.is_implicit_pub()), b01(t.is_dotted()), items.join(";"))
        }
    }
}

pub trait ImplicitPub {
    fn is_implicit_pub(&self) -> bool;
}
impl ImplicitPub for toml_edit::InlineTable {
    fn is_implicit_pub(&self) -> bool {
        // InlineTable has no public is_implicit(); the Debug output is not stable either.
        // A parsed inline table is implicit exactly when it is dotted (descend_path sets both).
        self.is_dotted()
    }
}

pub fn canon_item(i: &Item) -> String {
    match i {
        Item::None => "NONE".into(),
        Item::Value(v) => canon_val(v),
        Item::Table(t) => canon_tbl(t),
        Item::ArrayOfTables(a) => format!("A[{}]", a.iter().map(canon_tbl).collect::<Vec<_>>().join(";")),
    }
}

pub fn canon_tbl(t: &Table) -> String {
    let items: Vec<String> = t.iter().map(|(k, v)| format!("{}={}", hex(k.as_bytes()), canon_item(v))).collect();
    let p = match t.position() {
        Some(n) => n.to_string(),
        None => "-".into(),
    };
    format!("T{}{}p{}{{{}}}", b01(t.is_implicit()), b01(t.is_dotted()), p, items.join(";"))
}

pub fn plain_val(v: &Value) -> String {
    match v {
        Value::Array(a) => format!("[{}]", a.iter().map(plain_val).collect::<Vec<_>>().join(";")),
        Value::InlineTable(t) => {
            let mut items: Vec<(Vec<u8>, String)> = t.iter().map(|(k, v)| (k.as_bytes().to_vec(), plain_val(v))).collect();
            items.sort_by(|a, b| a.0.cmp(&b.0));
            format!("{{{}}}", items.iter().map(|(k, s)| format!("{}={}", hex(k), s)).collect::<Vec<_>>().join(";"))
        }
        v => canon_val(v),
    }
}

pub fn plain_item(i: &Item) -> String {
    match i {
        Item::None => "NONE".into(),
        Item::Value(v) => plain_val(v),
        Item::Table(t) => plain_tbl(t),
        Item::ArrayOfTables(a) => format!("[{}]", a.iter().map(plain_tbl).collect::<Vec<_>>().join(";")),
    }
}

pub fn plain_tbl(t: &Table) -> String {
    let mut items: Vec<(Vec<u8>, String)> = t.iter().map(|(k, v)| (k.as_bytes().to_vec(), plain_item(v))).collect();
    items.sort_by(|a, b| a.0.cmp(&b.0));
    format!("{{{}}}", items.iter().map(|(k, s)| format!("{}={}", hex(k), s)).collect::<Vec<_>>().join(";"))
}

pub fn plain_toml(v: &toml::Value) -> String {
    match v {
        toml::Value::String(s) => format!("s{}", hex(s.as_bytes())),
        toml::Value::Integer(i) => format!("i{i}"),
        toml::Value::Float(f) => format!("f{:016x}", f.to_bits()),
        toml::Value::Boolean(b) => format!("b{}", b01(*b)),
        toml::Value::Datetime(d) => format!("d{}", show_dt(d)),
        toml::Value::Array(a) => format!("[{}]", a.iter().map(plain_toml).collect::<Vec<_>>().join(";")),
        toml::Value::Table(t) => plain_toml_table(t),
    }
}

pub fn plain_toml_table(t: &toml::Table) -> String {
    let mut items: Vec<(Vec<u8>, String)> = t.iter().map(|(k, v)| (k.as_bytes().to_vec(), plain_toml(v))).collect();
    items.sort_by(|a, b| a.0.cmp(&b.0));
    format!("{{{}}}", items.iter().map(|(k, s)| format!("{}={}", hex(k), s)).collect::<Vec<_>>().join(";"))
}

pub fn depth_val(v: &Value) -> usize {
    match v {
        Value::Array(a) => 1 + a.iter().map(depth_val).max().unwrap_or(0),
        Value::InlineTable(t) => 1 + t.iter().map(|(_, v)| depth_val(v)).max().unwrap_or(0),
        _ => 0,
    }
}
pub fn depth_item(i: &Item) -> usize {
    match i {
        Item::None => 0,
        Item::Value(v) => depth_val(v),
        Item::Table(t) => depth_tbl(t),
        Item::ArrayOfTables(a) => 1 + a.iter().map(depth_tbl).max().unwrap_or(0),
    }
}
pub fn depth_tbl(t: &Table) -> usize {
    1 + t.iter().map(|(_, v)| depth_item(v)).max().unwrap_or(0)
}
