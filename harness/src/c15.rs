//! C15: errors. `e <hex doc>`: a (possibly invalid) document -> span, rendered line/column, message.
//! `d <hex doc> <kind> <hex key>.<hex key>...`: deserialize a valid document expecting `kind` at the path.
use crate::util::*;
use serde::de::{DeserializeSeed, Deserializer, IgnoredAny, MapAccess, Visitor};

fn first_line_lc(rendered: &str) -> String {
    // "TOML parse error at line L, column C"
    let l = rendered.lines().next().unwrap_or("");
    if let Some(rest) = l.strip_prefix("TOML parse error at line ") {
        let mut it = rest.split(", column ");
        let a = it.next().unwrap_or("?");
        let b = it.next().unwrap_or("?");
        return format!("{a}:{b}");
    }
    "-".into()
}

fn boundary(text: &str, span: &std::ops::Range<usize>) -> &'static str {
    if span.start <= span.end && span.end <= text.len() && text.is_char_boundary(span.start) && text.is_char_boundary(span.end) {
        "ok"
    } else {
        "BAD"
    }
}

pub fn run(line: &str) -> String {
    let p: Vec<&str> = line.split(' ').collect();
    match p[0] {
        "e" => {
            let text = unhex_str(p[1]);
            let r = toml_edit::ImDocument::parse(text.clone());
            match r {
                Ok(_) => "ok".into(),
                Err(e) => {
                    let span = e.span();
                    let rendered = e.to_string();
                    let dbg = format!("{e:?}");
                    let c = e.clone();
                    let te = toml::from_str::<toml::Table>(&text).err();
                    let (tspan, tlc, tmsg) = match &te {
                        Some(t) => (t.span(), first_line_lc(&t.to_string()), t.message().len()),
                        None => (None, "ACCEPTED".into(), 0),
                    };
                    let _ = (dbg.len(), c.message().len());
                    match span {
                        Some(s) => format!(
                            "err span={}..{} bounds={} lc={} msg={} tsame={}",
                            s.start,
                            s.end,
                            boundary(&text, &s),
                            first_line_lc(&rendered),
                            if e.message().trim().is_empty() { "EMPTY" } else { "ok" },
                            tspan == Some(s.clone()) && tlc == first_line_lc(&rendered) && tmsg > 0
                        ),
                        None => format!("err nospan msg={}", if e.message().trim().is_empty() { "EMPTY" } else { "ok" }),
                    }
                }
            }
        }
        "d" => {
            let text = unhex_str(p[1]);
            let kind = p[2].to_string();
            let path: Vec<String> = if p[3] == "." { vec![] } else { p[3].split('.').map(unhex_str).collect() };
            // where is the value at `path` in the source?
            let im = match toml_edit::ImDocument::parse(text.clone()) {
                Ok(d) => d,
                Err(_) => return "invalid-doc".into(),
            };
            let mut item = im.as_item();
            for k in &path {
                match item.get(k.as_str()) {
                    Some(i) => item = i,
                    None => return "no-such-path".into(),
                }
            }
            let vspan = item.span();
            let opt = kind.starts_with("opt-");
            let kind = kind.trim_start_matches("opt-").to_string();
            let seed = Expect { path: path.clone(), kind: kind.clone(), opt };
            let with_src = seed.clone().deserialize(toml::de::Deserializer::new(&text));
            let with_src2 = seed.clone().deserialize(toml_edit::de::Deserializer::parse(&text).unwrap());
            let doc_mut = im.into_mut();
            let without_src = seed.clone().deserialize(toml_edit::de::Deserializer::from(doc_mut));
            let a = match &with_src {
                Ok(()) => "ok".to_string(),
                Err(e) => {
                    let r = e.to_string();
                    format!(
                        "err span={} msg={} lc={}",
                        match (e.span(), &vspan) {
                            (Some(s), Some(v)) if s == *v => "value".to_string(),
                            (Some(s), _) => format!("{}..{}", s.start, s.end),
                            (None, _) => "none".to_string(),
                        },
                        if e.message().trim().is_empty() { "EMPTY" } else { "ok" },
                        first_line_lc(&r)
                    )
                }
            };
            let a2 = match &with_src2 {
                Ok(()) => "ok".to_string(),
                Err(e) => format!("err span={}", match (e.span(), &vspan) {
                    (Some(s), Some(v)) if s == *v => "value".to_string(),
                    (Some(s), _) => format!("{}..{}", s.start, s.end),
                    (None, _) => "none".to_string(),
                }),
            };
            let b = match &without_src {
                Ok(()) => "ok".to_string(),
                Err(e) => {
                    let r = e.to_string();
                    let want = format!("in `{}`", path.join("."));
                    format!("err keys={}", if path.is_empty() || r.contains(&want) { "path" } else { "MISSING" })
                }
            };
            format!("src:{a} src2:{a2} nosrc:{b} vspan={}", match vspan { Some(v) => format!("{}..{}", v.start, v.end), None => "none".into() })
        }
        _ => panic!("kind"),
    }
}

/// walks maps along `path`, then asks for a value of `kind`
#[derive(Clone)]
struct Expect {
    path: Vec<String>,
    kind: String,
    /// every table on the way (and the value itself) is read through `Option<…>`
    opt: bool,
}

/// `Option<T>`'s visitor: `visit_some` hands the same deserializer to `T`
struct Opt(Expect);
impl<'de> Visitor<'de> for Opt {
    type Value = ();
    fn expecting(&self, f: &mut std::fmt::Formatter<'_>) -> std::fmt::Result {
        write!(f, "option")
    }
    fn visit_none<E>(self) -> Result<(), E> {
        Ok(())
    }
    fn visit_unit<E>(self) -> Result<(), E> {
        Ok(())
    }
    fn visit_some<D: Deserializer<'de>>(self, d: D) -> Result<(), D::Error> {
        self.0.inner(d)
    }
}

impl<'de> DeserializeSeed<'de> for Expect {
    type Value = ();
    fn deserialize<D: Deserializer<'de>>(self, d: D) -> Result<(), D::Error> {
        if self.opt {
            return d.deserialize_option(Opt(self));
        }
        self.inner(d)
    }
}

impl Expect {
    fn inner<'de, D: Deserializer<'de>>(self, d: D) -> Result<(), D::Error> {
        if self.path.is_empty() {
            return match self.kind.as_str() {
                "i64" => i64::deserialize_from(d),
                "u8" => <u8 as serde::Deserialize>::deserialize(d).map(|_| ()),
                "bool" => <bool as serde::Deserialize>::deserialize(d).map(|_| ()),
                "string" => <String as serde::Deserialize>::deserialize(d).map(|_| ()),
                "f64" => <f64 as serde::Deserialize>::deserialize(d).map(|_| ()),
                "seq" => <Vec<IgnoredAny> as serde::Deserialize>::deserialize(d).map(|_| ()),
                "map" => <std::collections::BTreeMap<String, IgnoredAny> as serde::Deserialize>::deserialize(d).map(|_| ()),
                "datetime" => <toml_datetime::Datetime as serde::Deserialize>::deserialize(d).map(|_| ()),
                "char" => <char as serde::Deserialize>::deserialize(d).map(|_| ()),
                "unit" => <() as serde::Deserialize>::deserialize(d),
                // a derived struct with a required field the table does not have: the visitor raises
                // `missing field` (no span of its own), `deserialize_struct` has to locate it
                "missing" => d.deserialize_struct("S", &["__absent__"], MissingField),
                _ => panic!("kind"),
            };
        }
        d.deserialize_map(self)
    }
}

struct MissingField;
impl<'de> Visitor<'de> for MissingField {
    type Value = ();
    fn expecting(&self, f: &mut std::fmt::Formatter<'_>) -> std::fmt::Result {
        write!(f, "struct S")
    }
    fn visit_map<A: MapAccess<'de>>(self, mut map: A) -> Result<(), A::Error> {
        while let Some(_k) = map.next_key::<String>()? {
            map.next_value::<IgnoredAny>()?;
        }
        Err(<A::Error as serde::de::Error>::missing_field("__absent__"))
    }
}

trait DeFrom {
    fn deserialize_from<'de, D: Deserializer<'de>>(d: D) -> Result<(), D::Error>;
}
impl DeFrom for i64 {
    fn deserialize_from<'de, D: Deserializer<'de>>(d: D) -> Result<(), D::Error> {
        <i64 as serde::Deserialize>::deserialize(d).map(|_| ())
    }
}

impl<'de> Visitor<'de> for Expect {
    type Value = ();
    fn expecting(&self, f: &mut std::fmt::Formatter<'_>) -> std::fmt::Result {
        write!(f, "a table containing `{}`", self.path[0])
    }
    fn visit_map<A: MapAccess<'de>>(self, mut map: A) -> Result<(), A::Error> {
        let mut found = false;
        while let Some(k) = map.next_key::<String>()? {
            if k == self.path[0] && !found {
                found = true;
                map.next_value_seed(Expect { path: self.path[1..].to_vec(), kind: self.kind.clone(), opt: self.opt })?;
            } else {
                map.next_value::<IgnoredAny>()?;
            }
        }
        Ok(())
    }
}
