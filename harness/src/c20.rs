//! C20: visitors. case: `<hex document>`.
//! (1) a tracing `Visit` that overrides EVERY hook, records an event and then calls the default free
//!     function of the same name; (2) the same for `VisitMut`; (3) a `VisitMut` overriding only
//!     `visit_integer_mut` (n -> n+1 when it fits), canonical tree before and after.
//! output: `ok ro=<trace> mut=<trace> before=<tree> after=<tree>` or `err`.
//! The default functions of the five scalar hooks are private (and empty), so the scalar hooks of the
//! tracers only record.
use crate::canon::{canon_tbl, show_dt};
use crate::util::*;
use toml_edit::visit::{self, Visit};
use toml_edit::visit_mut::{self, VisitMut};
use toml_edit::{Array, ArrayOfTables, Datetime, DocumentMut, Formatted, InlineTable, Item, KeyMut, Table, TableLike, Value};

#[derive(Default)]
struct Ro {
    ev: Vec<String>,
}

impl<'doc> Visit<'doc> for Ro {
    fn visit_document(&mut self, node: &'doc DocumentMut) {
        self.ev.push("doc".into());
        visit::visit_document(self, node);
    }
    fn visit_item(&mut self, node: &'doc Item) {
        self.ev.push("item".into());
        visit::visit_item(self, node);
    }
    fn visit_table(&mut self, node: &'doc Table) {
        self.ev.push("table".into());
        visit::visit_table(self, node);
    }
    fn visit_inline_table(&mut self, node: &'doc InlineTable) {
        self.ev.push("inline".into());
        visit::visit_inline_table(self, node);
    }
    fn visit_table_like(&mut self, node: &'doc dyn TableLike) {
        self.ev.push("tablelike".into());
        visit::visit_table_like(self, node);
    }
    fn visit_table_like_kv(&mut self, key: &'doc str, node: &'doc Item) {
        self.ev.push(format!("kv:{}", hex(key.as_bytes())));
        visit::visit_table_like_kv(self, key, node);
    }
    fn visit_array(&mut self, node: &'doc Array) {
        self.ev.push("array".into());
        visit::visit_array(self, node);
    }
    fn visit_array_of_tables(&mut self, node: &'doc ArrayOfTables) {
        self.ev.push("aot".into());
        visit::visit_array_of_tables(self, node);
    }
    fn visit_value(&mut self, node: &'doc Value) {
        self.ev.push("value".into());
        visit::visit_value(self, node);
    }
    fn visit_boolean(&mut self, node: &'doc Formatted<bool>) {
        self.ev.push(format!("bool:{}", if *node.value() { 1 } else { 0 }));
    }
    fn visit_datetime(&mut self, node: &'doc Formatted<Datetime>) {
        self.ev.push(format!("dt:{}", show_dt(node.value())));
    }
    fn visit_float(&mut self, node: &'doc Formatted<f64>) {
        self.ev.push(format!("float:{:016x}", node.value().to_bits()));
    }
    fn visit_integer(&mut self, node: &'doc Formatted<i64>) {
        self.ev.push(format!("int:{}", node.value()));
    }
    fn visit_string(&mut self, node: &'doc Formatted<String>) {
        self.ev.push(format!("str:{}", hex(node.value().as_bytes())));
    }
}

#[derive(Default)]
struct Mu {
    ev: Vec<String>,
}

impl VisitMut for Mu {
    fn visit_document_mut(&mut self, node: &mut DocumentMut) {
        self.ev.push("doc".into());
        visit_mut::visit_document_mut(self, node);
    }
    fn visit_item_mut(&mut self, node: &mut Item) {
        self.ev.push("item".into());
        visit_mut::visit_item_mut(self, node);
    }
    fn visit_table_mut(&mut self, node: &mut Table) {
        self.ev.push("table".into());
        visit_mut::visit_table_mut(self, node);
    }
    fn visit_inline_table_mut(&mut self, node: &mut InlineTable) {
        self.ev.push("inline".into());
        visit_mut::visit_inline_table_mut(self, node);
    }
    fn visit_table_like_mut(&mut self, node: &mut dyn TableLike) {
        self.ev.push("tablelike".into());
        visit_mut::visit_table_like_mut(self, node);
    }
    fn visit_table_like_kv_mut(&mut self, key: KeyMut<'_>, node: &mut Item) {
        self.ev.push(format!("kv:{}", hex(key.get().as_bytes())));
        visit_mut::visit_table_like_kv_mut(self, key, node);
    }
    fn visit_array_mut(&mut self, node: &mut Array) {
        self.ev.push("array".into());
        visit_mut::visit_array_mut(self, node);
    }
    fn visit_array_of_tables_mut(&mut self, node: &mut ArrayOfTables) {
        self.ev.push("aot".into());
        visit_mut::visit_array_of_tables_mut(self, node);
    }
    fn visit_value_mut(&mut self, node: &mut Value) {
        self.ev.push("value".into());
        visit_mut::visit_value_mut(self, node);
    }
    fn visit_boolean_mut(&mut self, node: &mut Formatted<bool>) {
        self.ev.push(format!("bool:{}", if *node.value() { 1 } else { 0 }));
    }
    fn visit_datetime_mut(&mut self, node: &mut Formatted<Datetime>) {
        self.ev.push(format!("dt:{}", show_dt(node.value())));
    }
    fn visit_float_mut(&mut self, node: &mut Formatted<f64>) {
        self.ev.push(format!("float:{:016x}", node.value().to_bits()));
    }
    fn visit_integer_mut(&mut self, node: &mut Formatted<i64>) {
        self.ev.push(format!("int:{}", node.value()));
    }
    fn visit_string_mut(&mut self, node: &mut Formatted<String>) {
        self.ev.push(format!("str:{}", hex(node.value().as_bytes())));
    }
}

/// overrides only the integer hook; every other hook is the trait's default
struct Incr;

impl VisitMut for Incr {
    fn visit_integer_mut(&mut self, node: &mut Formatted<i64>) {
        if let Some(n) = node.value().checked_add(1) {
            let decor = node.decor().clone();
            *node = Formatted::new(n);
            *node.decor_mut() = decor;
        }
    }
}

fn join(ev: &[String]) -> String {
    if ev.is_empty() {
        "-".into()
    } else {
        ev.join(",")
    }
}

/// the crate's own `VisitMut` client: `toml::to_string_pretty` runs `DocumentFormatter` over the whole document. If its walk
/// is complete, EVERY array in value position has the layout its length calls for: two or more elements -> one per line,
/// trailing comma; fewer -> on one line. `F <hex document>` -> `fmt=ok` / `fmt=BAD:<path>…` / `err`.
fn fmt_arrays(v: &Value, path: &str, bad: &mut Vec<String>) {
    match v {
        Value::Array(a) => {
            let multiline = a.len() >= 2;
            let prefix_ok = a.iter().all(|e| {
                let p = e.decor().prefix().and_then(|r| r.as_str()).unwrap_or("");
                if multiline {
                    p == "\n    "
                } else {
                    !p.contains('\n')
                }
            });
            let trailing = a.trailing().as_str().unwrap_or("");
            if !(prefix_ok && a.trailing_comma() == multiline && (trailing == "\n") == multiline) {
                bad.push(format!("{path}:len{}", a.len()));
            }
            for (i, e) in a.iter().enumerate() {
                fmt_arrays(e, &format!("{path}/{i}"), bad);
            }
        }
        Value::InlineTable(t) => {
            for (k, e) in t.iter() {
                fmt_arrays(e, &format!("{path}/{}", hex(k.as_bytes())), bad);
            }
        }
        _ => {}
    }
}
fn fmt_tables(t: &Table, path: &str, bad: &mut Vec<String>) {
    for (k, i) in t.iter() {
        let p = format!("{path}/{}", hex(k.as_bytes()));
        match i {
            Item::Value(v) => fmt_arrays(v, &p, bad),
            Item::Table(s) => fmt_tables(s, &p, bad),
            Item::ArrayOfTables(a) => {
                for (n, s) in a.iter().enumerate() {
                    fmt_tables(s, &format!("{p}/{n}"), bad);
                }
            }
            Item::None => {}
        }
    }
}
fn run_fmt(text: &str) -> String {
    let table = match text.parse::<toml::Table>() {
        Ok(t) => t,
        Err(_) => return "err".into(),
    };
    let pretty = match toml::to_string_pretty(&table) {
        Ok(p) => p,
        Err(_) => return "ser-err".into(),
    };
    let doc = match pretty.parse::<DocumentMut>() {
        Ok(d) => d,
        Err(_) => return format!("fmt=BAD:reparse:{}", hex(pretty.as_bytes())),
    };
    let mut bad = vec![];
    fmt_tables(doc.as_table(), "", &mut bad);
    if bad.is_empty() {
        "fmt=ok".into()
    } else {
        bad.truncate(4);
        format!("fmt=BAD:{} text={}", bad.join(","), hex(pretty.as_bytes()))
    }
}

pub fn run(line: &str) -> String {
    if let Some(rest) = line.strip_prefix("F ") {
        return match std::str::from_utf8(&unhex(rest)) {
            Ok(t) => run_fmt(t),
            Err(_) => "err".into(),
        };
    }
    let bytes = unhex(line);
    let text = match std::str::from_utf8(&bytes) {
        Ok(t) => t,
        Err(_) => return "err".into(),
    };
    let mut doc = match text.parse::<DocumentMut>() {
        Ok(d) => d,
        Err(_) => return "err".into(),
    };
    let mut ro = Ro::default();
    ro.visit_document(&doc);
    let mut mu = Mu::default();
    mu.visit_document_mut(&mut doc);
    let before = canon_tbl(doc.as_table());
    Incr.visit_document_mut(&mut doc);
    let after = canon_tbl(doc.as_table());
    format!("ok ro={} mut={} before={} after={}", join(&ro.ev), join(&mu.ev), before, after)
}
