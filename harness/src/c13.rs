//! C13 (every decoding route agrees; try_from = serialize+parse) and C17 (serializing is a pure
//! one-step fixed point; values before tables whatever the map order).
//!
//! mode c13 cases
//!   doc <hex text> <target>    a document through every decoding route into <target>
//!   sval <hex text> <target>   a single value through the value deserializers and the wrapped-document routes
//!   val <type> <seed>          a deterministic value of a derived type: to_string, every route back, try_from vs parse
//!   tval <flavour> <tree>      a toml::Value tree: Value::try_from(v) / v.try_into::<Value>() / text route
//! mode c17 cases
//!   tree <flavour> <tree>      a toml::Value tree built by Map::insert in the given key order
//!   doc <flavour> <hex text>   parse as toml::Table, print twice, print -> parse -> print
//!   val <type> <seed>          derived value: fixed point and plain/pretty agreement
//! <flavour> is S (sorted map, default build) or P (insertion order, feature preserve_order); the harness
//! answers `flavour-mismatch` when it was built the other way.
//! <tree> := s<hex> | i<int> | f<16 hex bits> | b0 | b1 | d<hex of date-time text> | [t;t;…] | {<hexkey>=t;…}
use crate::canon::*;
use crate::util::*;
use serde::de::DeserializeOwned;
use serde::{Deserialize, Serialize};
use std::collections::BTreeMap;
use std::fmt::Debug;
use toml_datetime::{Date, Datetime, Offset, Time};

// ------------------------------------------------------------------------------------------
// the derived-type family
// ------------------------------------------------------------------------------------------

#[derive(Serialize, Deserialize, Debug, PartialEq, Clone)]
pub enum Mode {
    Fast,
    Slow,
    Custom(i64),
    Tuned { level: u8, label: String },
    Pair(i64, String),
}

#[derive(Serialize, Deserialize, Debug, PartialEq, Clone)]
pub struct Owner {
    name: String,
    dob: Option<Datetime>,
}

#[derive(Serialize, Deserialize, Debug, PartialEq, Clone)]
pub struct Server {
    ip: String,
    port: u16,
    role: Option<String>,
}

/// the type of the property text: scalars, a date-time, nested struct, map of structs, enum, option;
/// `opt` and `last` come after the table-valued fields on purpose
#[derive(Serialize, Deserialize, Debug, PartialEq, Clone)]
pub struct Config {
    title: String,
    n: i64,
    f: f64,
    flag: bool,
    when: Datetime,
    tags: Vec<String>,
    owner: Owner,
    servers: BTreeMap<String, Server>,
    mode: Mode,
    opt: Option<i64>,
    last: String,
}

#[derive(Serialize, Deserialize, Debug, PartialEq, Clone)]
pub struct Pt {
    x: i64,
    y: i64,
}

#[derive(Serialize, Deserialize, Debug, PartialEq, Clone)]
pub struct OwnerN {
    name: String,
    nick: Option<String>,
}

/// the same shape without any date-time
#[derive(Serialize, Deserialize, Debug, PartialEq, Clone)]
pub struct Plain {
    title: String,
    n: i64,
    f: f64,
    flag: bool,
    tags: Vec<String>,
    owner: OwnerN,
    servers: BTreeMap<String, Server>,
    pts: Vec<Pt>,
    mode: Mode,
    modes: Vec<Mode>,
    nested: Vec<Vec<i64>>,
    opt: Option<i64>,
    last: String,
}

#[derive(Serialize, Deserialize, Debug, PartialEq, Clone)]
pub struct Dates {
    d: Date,
    t: Time,
    dt: Datetime,
    list: Vec<Datetime>,
    od: Option<Date>,
}

/// every integer width and f32, at the boundaries of its range (u64 / usize only up to i64::MAX: beyond that
/// every route refuses)
#[derive(Serialize, Deserialize, Debug, PartialEq, Clone)]
pub struct Ints {
    u: u64,
    us: usize,
    i: i64,
    a: u32,
    b: i32,
    c: u16,
    d: i16,
    e: u8,
    g: i8,
    x: f32,
    list: Vec<u64>,
    o: Option<u64>,
    m: BTreeMap<String, u64>,
}

/// an externally tagged enum as the DOCUMENT ROOT: newtype variants over a struct and over a map, a struct variant
#[derive(Serialize, Deserialize, Debug, PartialEq, Clone)]
pub enum RootE {
    Tcp(Server),
    Pool(BTreeMap<String, Server>),
    Tuned { level: u8, owner: OwnerN },
}

/// the reduced witness of F7
#[derive(Serialize, Deserialize, Debug, PartialEq, Clone)]
pub struct S {
    when: Datetime,
}

// ------------------------------------------------------------------------------------------
// canonical forms
// ------------------------------------------------------------------------------------------

pub trait Canon {
    fn canon(&self) -> String;
}
impl Canon for toml::Value {
    fn canon(&self) -> String {
        plain_toml(self)
    }
}
impl Canon for toml::Table {
    fn canon(&self) -> String {
        plain_toml_table(self)
    }
}
macro_rules! canon_debug {
    ($($t:ty),*) => {$(
        impl Canon for $t {
            fn canon(&self) -> String {
                // Debug of the derived types is deterministic (BTreeMap, Vec); NaN prints as NaN whatever its sign
                hex(format!("{self:?}").as_bytes())
            }
        }
    )*};
}
canon_debug!(Config, Plain, Dates, Ints, RootE, S, Owner, Mode, Datetime, Date, Time, i64, String, Vec<i64>, f64, bool, Pt);

/// the sign and payload of a NaN are not TOML data: comparisons of decoded trees use the canonical NaN
fn norm_nan(v: &toml::Value) -> toml::Value {
    match v {
        toml::Value::Float(f) if f.is_nan() => toml::Value::Float(f64::NAN),
        toml::Value::Array(a) => toml::Value::Array(a.iter().map(norm_nan).collect()),
        toml::Value::Table(t) => toml::Value::Table(t.iter().map(|(k, v)| (k.clone(), norm_nan(v))).collect()),
        other => other.clone(),
    }
}
fn nplain(v: &toml::Value) -> String {
    plain_toml(&norm_nan(v))
}
fn nplain_table(t: &toml::Table) -> String {
    nplain(&toml::Value::Table(t.clone()))
}

fn res<T: Canon, E>(r: Result<T, E>) -> Option<String> {
    r.ok().map(|v| v.canon())
}

/// `name=ok0` (equal to the first successful route), `name=ok:<canon>` (differs), `name=err`
fn show_routes(rs: &[(&'static str, Option<String>)]) -> String {
    let first = rs.iter().find_map(|(_, r)| r.clone());
    let mut out = vec![format!("c0={}", first.clone().unwrap_or_else(|| "none".into()))];
    for (n, r) in rs {
        out.push(match r {
            None => format!("{n}=err"),
            Some(c) if Some(c) == first.as_ref() => format!("{n}=ok0"),
            Some(c) => format!("{n}=ok:{c}"),
        });
    }
    out.join(" ")
}

// ------------------------------------------------------------------------------------------
// decoding routes
// ------------------------------------------------------------------------------------------

fn doc_routes<T: DeserializeOwned + Canon>(text: &str) -> Vec<(&'static str, Option<String>)> {
    let mut rs: Vec<(&'static str, Option<String>)> = Vec::new();
    rs.push(("ts", res(toml::from_str::<T>(text))));
    rs.push(("td", res(T::deserialize(toml::de::Deserializer::new(text)))));
    rs.push(("es", res(toml_edit::de::from_str::<T>(text))));
    rs.push(("sl", res(toml_edit::de::from_slice::<T>(text.as_bytes()))));
    rs.push(("dm", match text.parse::<toml_edit::DocumentMut>() {
        Ok(d) => res(toml_edit::de::from_document::<T>(d)),
        Err(_) => None,
    }));
    rs.push(("im", match toml_edit::ImDocument::parse(text.to_string()) {
        Ok(d) => res(toml_edit::de::from_document::<T>(d)),
        Err(_) => None,
    }));
    rs.push(("ed", match text.parse::<toml_edit::de::Deserializer>() {
        Ok(d) => res(T::deserialize(d)),
        Err(_) => None,
    }));
    rs.push(("vv", match toml::from_str::<toml::Value>(text) {
        Ok(v) => res(v.try_into::<T>()),
        Err(_) => None,
    }));
    rs.push(("tv", match toml::from_str::<toml::Table>(text) {
        Ok(v) => res(v.try_into::<T>()),
        Err(_) => None,
    }));
    rs.push(("pt", match text.parse::<toml::Table>() {
        Ok(v) => res(v.try_into::<T>()),
        Err(_) => None,
    }));
    rs.push(("pv", match text.parse::<toml::Value>() {
        Ok(v) => res(v.try_into::<T>()),
        Err(_) => None,
    }));
    rs
}

#[derive(Deserialize)]
struct Wrap<T> {
    x: T,
}

fn sval_routes<T: DeserializeOwned + Canon>(text: &str) -> Vec<(&'static str, Option<String>)> {
    let mut rs: Vec<(&'static str, Option<String>)> = Vec::new();
    rs.push(("ev", match text.parse::<toml_edit::de::ValueDeserializer>() {
        Ok(d) => res(T::deserialize(d)),
        Err(_) => None,
    }));
    rs.push(("tvd", res(T::deserialize(toml::de::ValueDeserializer::new(text)))));
    rs.push(("evv", match text.parse::<toml_edit::Value>() {
        Ok(v) => {
            use serde::de::IntoDeserializer;
            res(T::deserialize(v.into_deserializer()))
        }
        Err(_) => None,
    }));
    // the same value as the only entry of a document
    let doc = format!("x = {text}");
    rs.push(("wd", res(toml::from_str::<Wrap<T>>(&doc).map(|w| w.x))));
    rs.push(("we", res(toml_edit::de::from_str::<Wrap<T>>(&doc).map(|w| w.x))));
    rs.push(("wv", match toml::from_str::<toml::Table>(&doc) {
        Ok(mut t) => match t.remove("x") {
            Some(v) => res(v.try_into::<T>()),
            None => None,
        },
        Err(_) => None,
    }));
    rs
}

fn with_target_doc(target: &str, text: &str) -> Option<Vec<(&'static str, Option<String>)>> {
    Some(match target {
        "value" => doc_routes::<toml::Value>(text),
        "table" => doc_routes::<toml::Table>(text),
        "config" => doc_routes::<Config>(text),
        "plain" => doc_routes::<Plain>(text),
        "dates" => doc_routes::<Dates>(text),
        "ints" => doc_routes::<Ints>(text),
        "roote" => doc_routes::<RootE>(text),
        "s" => doc_routes::<S>(text),
        "owner" => doc_routes::<Owner>(text),
        _ => return None,
    })
}

fn with_target_sval(target: &str, text: &str) -> Option<Vec<(&'static str, Option<String>)>> {
    Some(match target {
        "value" => sval_routes::<toml::Value>(text),
        "owner" => sval_routes::<Owner>(text),
        "mode" => sval_routes::<Mode>(text),
        "datetime" => sval_routes::<Datetime>(text),
        "date" => sval_routes::<Date>(text),
        "time" => sval_routes::<Time>(text),
        "i64" => sval_routes::<i64>(text),
        "f64" => sval_routes::<f64>(text),
        "bool" => sval_routes::<bool>(text),
        "string" => sval_routes::<String>(text),
        "veci64" => sval_routes::<Vec<i64>>(text),
        "pt" => sval_routes::<Pt>(text),
        _ => return None,
    })
}

// ------------------------------------------------------------------------------------------
// deterministic values of the derived types
// ------------------------------------------------------------------------------------------

struct Rng(u64);
impl Rng {
    fn next(&mut self) -> u64 {
        // splitmix64
        self.0 = self.0.wrapping_add(0x9E3779B97F4A7C15);
        let mut z = self.0;
        z = (z ^ (z >> 30)).wrapping_mul(0xBF58476D1CE4E5B9);
        z = (z ^ (z >> 27)).wrapping_mul(0x94D049BB133111EB);
        z ^ (z >> 31)
    }
    fn below(&mut self, n: u64) -> u64 {
        self.next() % n
    }
    fn pick<'a, T>(&mut self, xs: &'a [T]) -> &'a T {
        &xs[self.below(xs.len() as u64) as usize]
    }
}

const STRS: &[&str] = &[
    "", "a", "TOML Example", "héllo", "line\nbreak", "quote\"s", "it's", "'''", "\"\"\"", "\u{7f}", "tab\there", " spaced ",
    "1979-05-27", "$__toml_private_datetime", "back\\slash", "\u{1F600}", "cr\rlf", "\u{0}", "true", "[x]", "a = 1", "# no",
];
const KEYS: &[&str] = &["alpha", "beta", "b.c", "", "k ey", "ü", "$__toml_private_datetime", "1", "a-b_c", "\"q\"", "'", "x\ny"];
const INTS: &[i64] = &[0, 1, -1, 42, i64::MAX, i64::MIN, 1_000_000, -17, 255, 65536];

fn g_str(r: &mut Rng) -> String {
    r.pick(STRS).to_string()
}
fn g_int(r: &mut Rng) -> i64 {
    if r.below(4) == 0 {
        r.next() as i64
    } else {
        *r.pick(INTS)
    }
}
fn g_f64(r: &mut Rng) -> f64 {
    match r.below(16) {
        0 => 0.0,
        1 => -0.0,
        2 => 1.5,
        3 => f64::NAN,
        4 => -f64::NAN,
        5 => f64::INFINITY,
        6 => f64::NEG_INFINITY,
        7 => 1e300,
        8 => 5e-324,
        9 => 0.1,
        10 => -2.0,
        11 => 1e16,
        12 => 123456789.0,
        13 => f64::MAX,
        _ => {
            let b = f64::from_bits(r.next());
            if b.is_nan() {
                1.0
            } else {
                b
            }
        }
    }
}
fn g_date(r: &mut Rng) -> Date {
    let year = *r.pick(&[0u16, 1, 1979, 2000, 2024, 9999, 1900]);
    Date { year, month: 1 + r.below(12) as u8, day: 1 + r.below(28) as u8 }
}
fn g_time(r: &mut Rng) -> Time {
    let nanosecond = *r.pick(&[0u32, 0, 500_000_000, 1, 999_999_999, 120_000, 100]);
    Time { hour: r.below(24) as u8, minute: r.below(60) as u8, second: *r.pick(&[0u8, 59, 60, 7]), nanosecond }
}
fn g_dt(r: &mut Rng) -> Datetime {
    match r.below(5) {
        0 => Datetime { date: Some(g_date(r)), time: None, offset: None },
        1 => Datetime { date: None, time: Some(g_time(r)), offset: None },
        2 => Datetime { date: Some(g_date(r)), time: Some(g_time(r)), offset: None },
        3 => Datetime { date: Some(g_date(r)), time: Some(g_time(r)), offset: Some(Offset::Z) },
        _ => {
            let minutes = *r.pick(&[0i16, 60, -60, 1439, -1439, 330, -480, 1]);
            Datetime { date: Some(g_date(r)), time: Some(g_time(r)), offset: Some(Offset::Custom { minutes }) }
        }
    }
}
fn g_opt<T>(r: &mut Rng, f: impl FnOnce(&mut Rng) -> T) -> Option<T> {
    if r.below(2) == 0 {
        None
    } else {
        Some(f(r))
    }
}
fn g_vec<T>(r: &mut Rng, max: u64, mut f: impl FnMut(&mut Rng) -> T) -> Vec<T> {
    let n = r.below(max + 1);
    (0..n).map(|_| f(r)).collect()
}
fn g_mode(r: &mut Rng) -> Mode {
    match r.below(5) {
        0 => Mode::Fast,
        1 => Mode::Slow,
        2 => Mode::Custom(g_int(r)),
        3 => Mode::Tuned { level: r.below(256) as u8, label: g_str(r) },
        _ => Mode::Pair(g_int(r), g_str(r)),
    }
}
fn g_server(r: &mut Rng) -> Server {
    Server { ip: g_str(r), port: r.below(65536) as u16, role: g_opt(r, g_str) }
}
fn g_servers(r: &mut Rng) -> BTreeMap<String, Server> {
    let n = r.below(4);
    (0..n).map(|_| (r.pick(KEYS).to_string(), g_server(r))).collect()
}
fn g_config(r: &mut Rng) -> Config {
    Config {
        title: g_str(r),
        n: g_int(r),
        f: g_f64(r),
        flag: r.below(2) == 1,
        when: g_dt(r),
        tags: g_vec(r, 3, g_str),
        owner: Owner { name: g_str(r), dob: g_opt(r, g_dt) },
        servers: g_servers(r),
        mode: g_mode(r),
        opt: g_opt(r, g_int),
        last: g_str(r),
    }
}
fn g_plain(r: &mut Rng) -> Plain {
    Plain {
        title: g_str(r),
        n: g_int(r),
        f: g_f64(r),
        flag: r.below(2) == 1,
        tags: g_vec(r, 3, g_str),
        owner: OwnerN { name: g_str(r), nick: g_opt(r, g_str) },
        servers: g_servers(r),
        pts: g_vec(r, 3, |r| Pt { x: g_int(r), y: g_int(r) }),
        mode: g_mode(r),
        modes: g_vec(r, 3, g_mode),
        nested: g_vec(r, 3, |r| g_vec(r, 3, g_int)),
        opt: g_opt(r, g_int),
        last: g_str(r),
    }
}
const U64S: &[u64] = &[0, 1, 255, 256, 65535, 65536, u32::MAX as u64, 1 << 32, 1 << 53, (1 << 53) + 1, (i64::MAX - 1) as u64, i64::MAX as u64];
const F32S: &[f32] = &[0.0, -0.0, 1.0, 1.1, -2.5, 0.1, 1e10, 3.4028235e38, 1.1754944e-38, 1e-45, 16777216.0, 16777217.0, f32::INFINITY, f32::NEG_INFINITY];
fn g_u64(r: &mut Rng) -> u64 {
    *r.pick(U64S)
}
fn g_ints(r: &mut Rng) -> Ints {
    Ints {
        u: g_u64(r),
        us: g_u64(r) as usize,
        i: *r.pick(INTS),
        a: *r.pick(&[0, 1, u32::MAX, u32::MAX - 1, 65536]),
        b: *r.pick(&[0, -1, i32::MAX, i32::MIN]),
        c: *r.pick(&[0, 1, u16::MAX]),
        d: *r.pick(&[0, -1, i16::MAX, i16::MIN]),
        e: *r.pick(&[0, 1, 127, 128, u8::MAX]),
        g: *r.pick(&[0, -1, i8::MAX, i8::MIN]),
        x: *r.pick(F32S),
        list: g_vec(r, 3, g_u64),
        o: g_opt(r, g_u64),
        m: (0..r.below(3)).map(|_| (r.pick(KEYS).to_string(), g_u64(r))).collect(),
    }
}
fn g_dates(r: &mut Rng) -> Dates {
    Dates { d: g_date(r), t: g_time(r), dt: g_dt(r), list: g_vec(r, 3, g_dt), od: g_opt(r, g_date) }
}

fn ser_err(e: &toml::ser::Error) -> String {
    let m = e.to_string();
    let k = if m == "unsupported None value" {
        "UnsupportedNone"
    } else if m == "map key was not a string" {
        "KeyNotString"
    } else if m.starts_with("unsupported ") && m.ends_with(" type") {
        "UnsupportedType"
    } else {
        "Custom"
    };
    format!("err:{k}")
}

fn opt_plain(r: Result<toml::Value, toml::ser::Error>) -> String {
    match r {
        Ok(v) => format!("ok:{}", plain_toml(&v)),
        Err(e) => ser_err(&e),
    }
}

/// c13 `val`: serialize, decode through every route, and the try_from direction
fn val13<T: Serialize + DeserializeOwned + Canon + Clone>(v: T) -> String {
    let orig = v.canon();
    let text = match toml::to_string(&v) {
        Ok(t) => t,
        Err(e) => return format!("orig={orig} ser={}", ser_err(&e)),
    };
    let rs = doc_routes::<T>(&text);
    let all_back = rs.iter().all(|(_, r)| r.as_deref() == Some(orig.as_str()));
    let parsed = match toml::from_str::<toml::Value>(&text) {
        Ok(p) => format!("ok:{}", plain_toml(&p)),
        Err(_) => "err".to_string(),
    };
    let tf = opt_plain(toml::Value::try_from(v.clone()));
    let tt = opt_plain(toml::Table::try_from(v.clone()).map(toml::Value::Table));
    // and the tree produced by try_from decodes back to the value
    let back = match toml::Value::try_from(v.clone()) {
        Ok(tree) => match tree.try_into::<T>() {
            Ok(b) => (b.canon() == orig) as u8,
            Err(_) => 2,
        },
        Err(_) => 3,
    };
    // the canonical form of a derived value is long: print it once
    let shown = show_routes(&rs).replacen(&format!("c0={orig} "), "c0=orig ", 1);
    format!(
        "orig={orig} text={} allback={} {} parsed={parsed} tf={} tt={} tfback={back}",
        hex(text.as_bytes()),
        all_back as u8,
        shown,
        if tf == parsed { "same".to_string() } else { tf },
        if tt == parsed { "same".to_string() } else { tt },
    )
}

/// c17 `val`: fixed point and plain/pretty agreement on a derived value
fn val17<T: Serialize + DeserializeOwned + Canon + Clone>(v: T) -> String {
    let orig = v.canon();
    let t1 = match toml::to_string(&v) {
        Ok(t) => t,
        Err(e) => return format!("ser={}", ser_err(&e)),
    };
    let t1b = toml::to_string(&v).unwrap();
    let p1 = match toml::to_string_pretty(&v) {
        Ok(t) => t,
        Err(e) => return format!("serpretty={}", ser_err(&e)),
    };
    let d1 = toml::from_str::<T>(&t1);
    let dp = toml::from_str::<T>(&p1);
    let fix = match &d1 {
        Ok(x) => match toml::to_string(x) {
            Ok(t2) => (t2 == t1) as u8,
            Err(_) => 2,
        },
        Err(_) => 3,
    };
    let fixp = match &dp {
        Ok(x) => match toml::to_string_pretty(x) {
            Ok(t2) => (t2 == p1) as u8,
            Err(_) => 2,
        },
        Err(_) => 3,
    };
    let rt = d1.as_ref().map(|x| (x.canon() == orig) as u8).unwrap_or(2);
    let rtp = dp.as_ref().map(|x| (x.canon() == orig) as u8).unwrap_or(2);
    let same = match (&d1, &dp) {
        (Ok(a), Ok(b)) => (a.canon() == b.canon()) as u8,
        _ => 2,
    };
    // the same through `toml_edit::ser::{to_string, to_string_pretty}` (their own formatting visitor)
    let esame = match (toml_edit::ser::to_string(&v), toml_edit::ser::to_string_pretty(&v)) {
        (Ok(a), Ok(b)) => match (toml_edit::de::from_str::<T>(&a), toml_edit::de::from_str::<T>(&b)) {
            (Ok(x), Ok(y)) => (x.canon() == orig && y.canon() == orig) as u8,
            _ => 2,
        },
        _ => 3,
    };
    format!(
        "plain={} pretty={} pure={} rt={rt} rtp={rtp} fix={fix} fixp={fixp} same={same} esame={esame} ord={} ordp={}",
        hex(t1.as_bytes()),
        hex(p1.as_bytes()),
        (t1 == t1b) as u8,
        order_ok(&t1),
        order_ok(&p1)
    )
}

fn with_type_val(ty: &str, seed: u64, c17: bool) -> String {
    let mut r = Rng(seed.wrapping_mul(0x2545F4914F6CDD1D) ^ 0x1234_5678_9abc_def0);
    macro_rules! go {
        ($v:expr) => {{
            let v = $v;
            if c17 {
                val17(v)
            } else {
                val13(v)
            }
        }};
    }
    match ty {
        "config" => go!(g_config(&mut r)),
        "plain" => go!(g_plain(&mut r)),
        "dates" => go!(g_dates(&mut r)),
        "ints" => go!(g_ints(&mut r)),
        // (a struct variant at the root is refused by design: not generated)
        "roote" => go!(match r.below(2) {
            0 => RootE::Tcp(g_server(&mut r)),
            _ => RootE::Pool(g_servers(&mut r)),
        }),
        "s" => go!(S { when: if seed == 0 { "1979-05-27T07:32:00Z".parse().unwrap() } else { g_dt(&mut r) } }),
        "owner" => go!(Owner { name: g_str(&mut r), dob: g_opt(&mut r, g_dt) }),
        _ => "bad-type".into(),
    }
}

// ------------------------------------------------------------------------------------------
// toml::Value trees with explicit key order
// ------------------------------------------------------------------------------------------

struct P<'a> {
    b: &'a [u8],
    i: usize,
}

impl P<'_> {
    fn peek(&self) -> u8 {
        *self.b.get(self.i).unwrap_or(&0)
    }
    fn token(&mut self) -> &str {
        let s = self.i;
        while self.i < self.b.len() && !matches!(self.b[self.i], b';' | b']' | b'}' | b'=') {
            self.i += 1;
        }
        std::str::from_utf8(&self.b[s..self.i]).unwrap()
    }
    fn tree(&mut self) -> toml::Value {
        match self.peek() {
            b'[' => {
                self.i += 1;
                let mut v = Vec::new();
                if self.peek() == b']' {
                    self.i += 1;
                    return toml::Value::Array(v);
                }
                loop {
                    v.push(self.tree());
                    let c = self.peek();
                    self.i += 1;
                    if c == b']' {
                        break;
                    }
                    assert_eq!(c, b';', "tree syntax");
                }
                toml::Value::Array(v)
            }
            b'{' => {
                self.i += 1;
                let mut t = toml::Table::new();
                if self.peek() == b'}' {
                    self.i += 1;
                    return toml::Value::Table(t);
                }
                loop {
                    let k = unhex_str(self.token());
                    assert_eq!(self.peek(), b'=', "tree syntax");
                    self.i += 1;
                    let v = self.tree();
                    t.insert(k, v);
                    let c = self.peek();
                    self.i += 1;
                    if c == b'}' {
                        break;
                    }
                    assert_eq!(c, b';', "tree syntax");
                }
                toml::Value::Table(t)
            }
            b's' => {
                self.i += 1;
                toml::Value::String(unhex_str(self.token()))
            }
            b'i' => {
                self.i += 1;
                toml::Value::Integer(self.token().parse().unwrap())
            }
            b'f' => {
                self.i += 1;
                toml::Value::Float(f64::from_bits(u64::from_str_radix(self.token(), 16).unwrap()))
            }
            b'b' => {
                self.i += 1;
                toml::Value::Boolean(self.token() == "1")
            }
            b'd' => {
                self.i += 1;
                toml::Value::Datetime(unhex_str(self.token()).parse().expect("date-time text of the case"))
            }
            _ => panic!("tree syntax"),
        }
    }
}

fn parse_tree(s: &str) -> toml::Value {
    let mut p = P { b: s.as_bytes(), i: 0 };
    let v = p.tree();
    assert_eq!(p.i, s.len(), "tree syntax: trailing input");
    v
}

fn flavour_ok(f: &str) -> bool {
    (f == "P") == cfg!(feature = "preserve_order")
}

/// the keys of a toml::Value in the order its maps yield them (shows the flavour)
fn key_order(v: &toml::Value) -> String {
    match v {
        toml::Value::Table(t) => format!(
            "{{{}}}",
            t.iter().map(|(k, v)| format!("{}{}", hex(k.as_bytes()), key_order(v))).collect::<Vec<_>>().join(",")
        ),
        toml::Value::Array(a) => {
            if a.iter().any(|x| matches!(x, toml::Value::Table(_) | toml::Value::Array(_))) {
                format!("[{}]", a.iter().map(key_order).collect::<Vec<_>>().join(","))
            } else {
                String::new()
            }
        }
        _ => String::new(),
    }
}

/// In `text`: does every table list its own key/value pairs before the headers of its sub-tables and
/// arrays of tables? 1 yes, 0 no, 2 the text does not parse.
fn order_ok(text: &str) -> u8 {
    let doc = match toml_edit::ImDocument::parse(text.to_string()) {
        Ok(d) => d,
        Err(_) => return 2,
    };
    fn first_header(t: &toml_edit::Table) -> Option<usize> {
        // position in the text of the first header at or below this table
        let mut m = t.span().map(|s| s.start);
        for (_, it) in t.iter() {
            let c = match it {
                toml_edit::Item::Table(s) => first_header(s),
                toml_edit::Item::ArrayOfTables(a) => a.iter().filter_map(first_header).min(),
                _ => None,
            };
            m = match (m, c) {
                (Some(a), Some(b)) => Some(a.min(b)),
                (a, b) => a.or(b),
            };
        }
        m
    }
    fn walk(t: &toml_edit::Table) -> bool {
        let mut last_value: Option<usize> = None;
        let mut first_sub: Option<usize> = None;
        for (k, it) in t.iter() {
            match it {
                toml_edit::Item::Value(_) => {
                    let p = t.key(k).and_then(|k| k.span()).map(|s| s.start);
                    last_value = last_value.max(p);
                }
                toml_edit::Item::Table(s) => {
                    if s.is_dotted() {
                        // dotted keys are key/value lines of this table
                        let p = t.key(k).and_then(|k| k.span()).map(|s| s.start);
                        last_value = last_value.max(p);
                    } else {
                        let h = first_header(s);
                        first_sub = match (first_sub, h) {
                            (Some(a), Some(b)) => Some(a.min(b)),
                            (a, b) => a.or(b),
                        };
                    }
                    if !walk(s) {
                        return false;
                    }
                }
                toml_edit::Item::ArrayOfTables(a) => {
                    for s in a.iter() {
                        let h = first_header(s);
                        first_sub = match (first_sub, h) {
                            (Some(a), Some(b)) => Some(a.min(b)),
                            (a, b) => a.or(b),
                        };
                        if !walk(s) {
                            return false;
                        }
                    }
                }
                toml_edit::Item::None => {}
            }
        }
        match (last_value, first_sub) {
            (Some(v), Some(s)) => v < s,
            _ => true,
        }
    }
    walk(doc.as_table()) as u8
}

fn tree17(flavour: &str, tree: &str) -> String {
    if !flavour_ok(flavour) {
        return "flavour-mismatch".into();
    }
    let v = parse_tree(tree);
    let canon = plain_toml(&v);
    let ncanon = nplain(&v);
    let ko = key_order(&v);
    let t1 = match toml::to_string(&v) {
        Ok(t) => t,
        Err(e) => {
            let p = match toml::to_string_pretty(&v) {
                Ok(_) => "ok".to_string(),
                Err(e) => ser_err(&e),
            };
            return format!("canon={canon} keys={ko} ser={} serpretty={p}", ser_err(&e));
        }
    };
    let t1b = toml::to_string(&v).unwrap();
    let p1 = match toml::to_string_pretty(&v) {
        Ok(t) => t,
        Err(e) => return format!("canon={canon} keys={ko} serpretty={}", ser_err(&e)),
    };
    let d1 = toml::from_str::<toml::Value>(&t1);
    let dp = toml::from_str::<toml::Value>(&p1);
    let rt = d1.as_ref().map(|x| (nplain(x) == ncanon) as u8).unwrap_or(2);
    let rtp = dp.as_ref().map(|x| (nplain(x) == ncanon) as u8).unwrap_or(2);
    let fix = match &d1 {
        Ok(x) => match toml::to_string(x) {
            Ok(t2) => (t2 == t1) as u8,
            Err(_) => 2,
        },
        Err(_) => 3,
    };
    let fixp = match &dp {
        Ok(x) => match toml::to_string_pretty(x) {
            Ok(t2) => (t2 == p1) as u8,
            Err(_) => 2,
        },
        Err(_) => 3,
    };
    let same = match (&d1, &dp) {
        (Ok(a), Ok(b)) => (nplain(a) == nplain(b)) as u8,
        _ => 2,
    };
    // the root as a `toml::Table`: `impl Serialize for Map` hands the entries over in map order (no three passes),
    // `Display for Table` is that serializer
    let (tplain, disp, trt, tord) = match &v {
        toml::Value::Table(t) => match toml::to_string(t) {
            Ok(tt1) => {
                let trt = match toml::from_str::<toml::Table>(&tt1) {
                    Ok(x) => (nplain_table(&x) == ncanon) as u8,
                    Err(_) => 2,
                };
                (
                    if tt1 == t1 { "same".to_string() } else { hex(tt1.as_bytes()) },
                    (t.to_string() == tt1) as u8,
                    trt,
                    order_ok(&tt1),
                )
            }
            Err(e) => (ser_err(&e), 2, 2, 2),
        },
        _ => ("none".to_string(), 2, 2, 2),
    };
    let esame = match (toml_edit::ser::to_string(&v), toml_edit::ser::to_string_pretty(&v)) {
        (Ok(a), Ok(b)) => match (toml_edit::de::from_str::<toml::Value>(&a), toml_edit::de::from_str::<toml::Value>(&b)) {
            (Ok(x), Ok(y)) => (nplain(&x) == ncanon && nplain(&y) == ncanon) as u8,
            _ => 2,
        },
        _ => 3,
    };
    format!(
        "canon={canon} keys={ko} plain={} pretty={} tplain={tplain} pure={} disp={disp} rt={rt} rtp={rtp} trt={trt} fix={fix} fixp={fixp} same={same} esame={esame} ord={} ordp={} tord={tord}",
        hex(t1.as_bytes()),
        hex(p1.as_bytes()),
        (t1 == t1b) as u8,
        order_ok(&t1),
        order_ok(&p1)
    )
}

fn doc17(flavour: &str, hx: &str) -> String {
    if !flavour_ok(flavour) {
        return "flavour-mismatch".into();
    }
    let bytes = unhex(hx);
    let text = match std::str::from_utf8(&bytes) {
        Ok(t) => t,
        Err(_) => return "err".into(),
    };
    let tbl = match text.parse::<toml::Table>() {
        Ok(t) => t,
        Err(_) => return "err".into(),
    };
    let canon = plain_toml_table(&tbl);
    let ncanon = nplain_table(&tbl);
    let t1 = match toml::to_string(&tbl) {
        Ok(t) => t,
        Err(e) => return format!("canon={canon} ser={}", ser_err(&e)),
    };
    let t1b = tbl.to_string();
    let t1c = toml::to_string(&tbl).unwrap();
    let (rt, fix) = match t1.parse::<toml::Table>() {
        Ok(t2) => ((nplain_table(&t2) == ncanon) as u8, (toml::to_string(&t2).ok().as_deref() == Some(t1.as_str())) as u8),
        Err(_) => (2, 2),
    };
    let p1 = toml::to_string_pretty(&tbl).unwrap_or_default();
    let rtp = match p1.parse::<toml::Table>() {
        Ok(t2) => (nplain_table(&t2) == ncanon) as u8,
        Err(_) => 2,
    };
    format!(
        "canon={canon} plain={} pretty={} twice={} rt={rt} rtp={rtp} fix={fix} ord={} ordp={}",
        hex(t1.as_bytes()),
        hex(p1.as_bytes()),
        (t1 == t1b && t1 == t1c) as u8,
        order_ok(&t1),
        order_ok(&p1)
    )
}

/// c13 `tval`: a toml::Value through its own serializer / deserializer pair
fn tval13(flavour: &str, tree: &str) -> String {
    if !flavour_ok(flavour) {
        return "flavour-mismatch".into();
    }
    let v = parse_tree(tree);
    let canon = plain_toml(&v);
    let tf = opt_plain(toml::Value::try_from(v.clone()));
    let ti = match v.clone().try_into::<toml::Value>() {
        Ok(x) => format!("ok:{}", plain_toml(&x)),
        Err(_) => "err".into(),
    };
    let tt = match &v {
        toml::Value::Table(t) => opt_plain(toml::Table::try_from(t.clone()).map(toml::Value::Table)),
        other => opt_plain(toml::Table::try_from(other.clone()).map(toml::Value::Table)),
    };
    let text = match toml::to_string(&v) {
        Ok(t) => match toml::from_str::<toml::Value>(&t) {
            Ok(p) => format!("ok:{}", plain_toml(&p)),
            Err(_) => "reparse-err".into(),
        },
        Err(e) => ser_err(&e),
    };
    format!("canon={canon} tf={tf} ti={ti} tt={tt} text={text}")
}

// ------------------------------------------------------------------------------------------
// the derived types as `Dec` strings (c13typed.rs): the permanent validation of the `TySeed` description of serde
// ------------------------------------------------------------------------------------------

pub trait ToDec {
    fn to_dec(&self) -> String;
}
use crate::c13typed::{dec_date, dec_dt, dec_f32, dec_f64, dec_map, dec_named, dec_opt, dec_seq, dec_str, dec_time};
macro_rules! todec_int {
    ($($t:ty),*) => {$(
        impl ToDec for $t {
            fn to_dec(&self) -> String {
                format!("i{self}")
            }
        }
    )*};
}
todec_int!(i8, i16, i32, i64, u8, u16, u32, u64, usize);
impl ToDec for bool {
    fn to_dec(&self) -> String {
        format!("b{}", *self as u8)
    }
}
impl ToDec for f64 {
    fn to_dec(&self) -> String {
        dec_f64(*self)
    }
}
impl ToDec for f32 {
    fn to_dec(&self) -> String {
        dec_f32(*self)
    }
}
impl ToDec for String {
    fn to_dec(&self) -> String {
        dec_str(self)
    }
}
impl ToDec for Datetime {
    fn to_dec(&self) -> String {
        dec_dt(self)
    }
}
impl ToDec for Date {
    fn to_dec(&self) -> String {
        dec_date(self)
    }
}
impl ToDec for Time {
    fn to_dec(&self) -> String {
        dec_time(self)
    }
}
impl<T: ToDec> ToDec for Option<T> {
    fn to_dec(&self) -> String {
        dec_opt(self.as_ref().map(|x| x.to_dec()))
    }
}
impl<T: ToDec> ToDec for Vec<T> {
    fn to_dec(&self) -> String {
        dec_seq(&self.iter().map(|x| x.to_dec()).collect::<Vec<_>>())
    }
}
impl<T: ToDec> ToDec for BTreeMap<String, T> {
    fn to_dec(&self) -> String {
        dec_map(&self.iter().map(|(k, v)| (k.clone(), v.to_dec())).collect())
    }
}
macro_rules! todec_struct {
    ($t:ty { $($f:ident),* }) => {
        impl ToDec for $t {
            fn to_dec(&self) -> String {
                dec_named("S{", &[$((stringify!($f).to_string(), self.$f.to_dec())),*], "}")
            }
        }
    };
}
todec_struct!(Owner { name, dob });
todec_struct!(Server { ip, port, role });
todec_struct!(Config { title, n, f, flag, when, tags, owner, servers, mode, opt, last });
todec_struct!(Pt { x, y });
todec_struct!(OwnerN { name, nick });
todec_struct!(Plain { title, n, f, flag, tags, owner, servers, pts, mode, modes, nested, opt, last });
todec_struct!(Dates { d, t, dt, list, od });
todec_struct!(Ints { u, us, i, a, b, c, d, e, g, x, list, o, m });
todec_struct!(S { when });
impl ToDec for Mode {
    fn to_dec(&self) -> String {
        let tag = |n: &str| format!("E{}", hex(n.as_bytes()));
        match self {
            Mode::Fast => tag("Fast"),
            Mode::Slow => tag("Slow"),
            Mode::Custom(n) => format!("{}:{}", tag("Custom"), n.to_dec()),
            Mode::Tuned { level, label } => {
                format!("{}{}", tag("Tuned"), dec_named("{", &[("level".to_string(), level.to_dec()), ("label".to_string(), label.to_dec())], "}"))
            }
            Mode::Pair(a, b) => format!("{}({};{})", tag("Pair"), a.to_dec(), b.to_dec()),
        }
    }
}

/// a deterministic value of a derived type with `ToDec`, seen from the serializer side (c07typed.rs `dvc`): its `Dec`
/// string, the serde calls its derived `Serialize` impl makes, and the length hints / variant indices of those calls
pub fn derived_ser(target: &str, seed: u64) -> Option<(String, crate::c07::SVal, String)> {
    let mut r = Rng(seed.wrapping_mul(0x2545F4914F6CDD1D) ^ 0x0f1e_2d3c_4b5a_6978);
    fn pack<T: Serialize + ToDec>(v: T) -> (String, crate::c07::SVal, String) {
        let (sv, aux) = crate::c07::record_aux(&v);
        (v.to_dec(), sv, aux)
    }
    Some(match target {
        "config" => pack(g_config(&mut r)),
        "plain" => pack(g_plain(&mut r)),
        "dates" => pack(g_dates(&mut r)),
        "ints" => pack(g_ints(&mut r)),
        "owner" => pack(Owner { name: g_str(&mut r), dob: g_opt(&mut r, g_dt) }),
        "mode" => pack(g_mode(&mut r)),
        "pt" => pack(Pt { x: g_int(&mut r), y: g_int(&mut r) }),
        "s" => pack(S { when: g_dt(&mut r) }),
        _ => return None,
    })
}

/// the routes of c13typed.rs for a derived type; `true` = a single-value target
pub fn derived_routes(target: &str, text: &str) -> Option<(bool, Vec<(&'static str, Option<String>)>)> {
    use crate::c13typed::{doc_routes, val_routes, Derived};
    use std::marker::PhantomData as P;
    Some(match target {
        "config" => (false, doc_routes(&Derived::<Config>(P), text)),
        "plain" => (false, doc_routes(&Derived::<Plain>(P), text)),
        "dates" => (false, doc_routes(&Derived::<Dates>(P), text)),
        "ints" => (false, doc_routes(&Derived::<Ints>(P), text)),
        "s" => (false, doc_routes(&Derived::<S>(P), text)),
        "owner" => (false, doc_routes(&Derived::<Owner>(P), text)),
        "vowner" => (true, val_routes(&Derived::<Owner>(P), text)),
        "vmode" => (true, val_routes(&Derived::<Mode>(P), text)),
        "vpt" => (true, val_routes(&Derived::<Pt>(P), text)),
        _ => return None,
    })
}

pub fn run(line: &str) -> String {
    let p: Vec<&str> = line.split(' ').collect();
    match (p[0], p.len()) {
        ("doc", 3) => {
            let text = match String::from_utf8(unhex(p[1])) {
                Ok(t) => t,
                Err(_) => return "not-utf8".into(),
            };
            match with_target_doc(p[2], &text) {
                Some(rs) => show_routes(&rs),
                None => "bad-target".into(),
            }
        }
        ("sval", 3) => {
            let text = unhex_str(p[1]);
            match with_target_sval(p[2], &text) {
                Some(rs) => show_routes(&rs),
                None => "bad-target".into(),
            }
        }
        ("val", 3) => with_type_val(p[1], p[2].parse().unwrap(), false),
        ("tval", 3) => tval13(p[1], p[2]),
        ("typed", 4) => crate::c13typed::typed(p[1], p[2], p[3], false),
        ("typedv", 4) => crate::c13typed::typed(p[1], p[2], p[3], true),
        ("tcheck", 5) => crate::c13typed::tcheck(p[1], p[2], p[3], p[4]),
        _ => "bad-op".into(),
    }
}

pub fn run17(line: &str) -> String {
    let p: Vec<&str> = line.split(' ').collect();
    match (p[0], p.len()) {
        ("tree", 3) => tree17(p[1], p[2]),
        ("doc", 3) => doc17(p[1], p[2]),
        ("val", 3) => with_type_val(p[1], p[2].parse().unwrap(), true),
        _ => "bad-op".into(),
    }
}
