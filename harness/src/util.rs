pub fn hex(b: &[u8]) -> String {
    if b.is_empty() {
        return "-".into();
    }
    let mut s = String::with_capacity(b.len() * 2);
    for x in b {
        s.push_str(&format!("{x:02x}"));
    }
    s
}

pub fn unhex(s: &str) -> Vec<u8> {
    if s == "-" {
        return vec![];
    }
    let b = s.as_bytes();
    let mut v = Vec::with_capacity(b.len() / 2);
    let h = |c: u8| -> u8 {
        match c {
            b'0'..=b'9' => c - b'0',
            b'a'..=b'f' => c - b'a' + 10,
            b'A'..=b'F' => c - b'A' + 10,
            _ => panic!("bad hex"),
        }
    };
    let mut i = 0;
    while i + 1 < b.len() {
        v.push(h(b[i]) * 16 + h(b[i + 1]));
        i += 2;
    }
    v
}

pub fn unhex_str(s: &str) -> String {
    String::from_utf8(unhex(s)).expect("case strings are UTF-8")
}
