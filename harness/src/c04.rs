//! C04: every entry point on arbitrary bytes, and everything a caller can then do with the result.
//! output: verdict per entry point + elapsed microseconds (panics are caught by main)
use crate::util::*;
use std::str::FromStr;

fn v(b: bool) -> &'static str {
    if b {
        "ok"
    } else {
        "err"
    }
}

pub fn run(line: &str) -> String {
    let bytes = unhex(line);
    let t0 = std::time::Instant::now();
    // bytes entry points
    let slice = toml_edit::de::from_slice::<toml::Value>(&bytes);
    let slice_ok = slice.is_ok();
    match &slice {
        Ok(x) => {
            let _ = format!("{x:?}");
            let _ = x.to_string();
            let _ = x.clone();
        }
        Err(e) => {
            let _ = e.to_string();
            let _ = format!("{e:?}");
            let _ = e.clone();
        }
    }
    drop(slice);
    let text = match std::str::from_utf8(&bytes) {
        Ok(t) => t,
        Err(_) => {
            return format!("notutf8 slice={} us={}", v(slice_ok), t0.elapsed().as_micros());
        }
    };
    // document
    let doc_ok = match toml_edit::ImDocument::parse(text.to_string()) {
        Ok(d) => {
            let _ = d.to_string();
            let _ = format!("{d:?}");
            let m = d.clone().into_mut();
            let _ = m.to_string();
            let c = m.clone();
            let _ = toml_edit::de::from_document::<toml::Value>(c);
            for (k, i) in d.as_table().iter() {
                let _ = (k, i.span(), i.type_name());
            }
            drop(m);
            true
        }
        Err(e) => {
            let _ = e.to_string();
            let _ = format!("{e:?}");
            let _ = (e.message().len(), e.span());
            false
        }
    };
    let mut_ok = text.parse::<toml_edit::DocumentMut>().is_ok();
    let toml_ok = match toml::from_str::<toml::Value>(text) {
        Ok(x) => {
            let _ = x.to_string();
            let _ = format!("{x:?}");
            let _ = toml::to_string(&x);
            let _ = toml::to_string_pretty(&x);
            true
        }
        Err(e) => {
            let _ = e.to_string();
            let _ = format!("{e:?}");
            false
        }
    };
    let table_ok = text.parse::<toml::Table>().is_ok();
    // single value
    let val_ok = match text.parse::<toml_edit::Value>() {
        Ok(x) => {
            let _ = x.to_string();
            let _ = format!("{x:?}");
            let _ = x.clone();
            let _ = toml_edit::de::ValueDeserializer::from_str(text).map(|d| <toml::Value as serde::Deserialize>::deserialize(d).is_ok());
            true
        }
        Err(e) => {
            let _ = e.to_string();
            false
        }
    };
    // keys
    let key_ok = match text.parse::<toml_edit::Key>() {
        Ok(k) => {
            let _ = k.to_string();
            let _ = format!("{k:?}");
            let _ = k.get().len();
            true
        }
        Err(e) => {
            let _ = e.to_string();
            false
        }
    };
    let path_ok = match toml_edit::Key::parse(text) {
        Ok(ks) => {
            for k in &ks {
                let _ = k.to_string();
            }
            true
        }
        Err(e) => {
            let _ = e.to_string();
            false
        }
    };
    // standalone date-time
    let dt_ok = match text.parse::<toml_datetime::Datetime>() {
        Ok(d) => {
            let _ = d.to_string();
            let _ = format!("{d:?}");
            true
        }
        Err(e) => {
            let _ = e.to_string();
            false
        }
    };
    let us = t0.elapsed().as_micros();
    if !(doc_ok == mut_ok && doc_ok == toml_ok && doc_ok == table_ok && doc_ok == slice_ok) {
        return format!("mixed doc={} mut={} toml={} table={} slice={}", v(doc_ok), v(mut_ok), v(toml_ok), v(table_ok), v(slice_ok));
    }
    format!("doc={} val={} key={} path={} dt={} us={}", v(doc_ok), v(val_ok), v(key_ok), v(path_ok), v(dt_ok), us)
}
