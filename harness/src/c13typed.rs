//! C13, typed targets: a TYPE GRAMMAR instead of a handful of derived types.
//!
//! `Ty` describes a Rust target type; `TySeed(&Ty)` is a `serde::de::DeserializeSeed` that drives any
//! `Deserializer` exactly as the `Deserialize` impl of a type of that shape would:
//!   * leaves use serde's / toml's own impls (`bool::deserialize`, `i8::deserialize`, …, `Datetime::deserialize`,
//!     `toml::Value::deserialize`, `IgnoredAny::deserialize`), so nothing is re-described there;
//!   * `Option`, `Vec`, tuples, `BTreeMap<String, _>` follow serde's std impls (serde 1.0.219 `de/impls.rs`);
//!   * structs, newtype structs and externally tagged enums follow what `serde_derive` 1.0.219 generates
//!     (`de.rs`: `deserialize_struct(name, FIELDS, visitor)` with `visit_seq` + `visit_map`, field identifiers through
//!     `deserialize_identifier` (`visit_u64` / `visit_str` / `visit_bytes`), unknown fields read as `IgnoredAny`,
//!     `duplicate_field`, `missing_field` (= `None` for `Option`, error otherwise), `#[serde(default)]`;
//!     `deserialize_enum(name, VARIANTS, visitor)` with `visit_enum`, then `unit_variant` / `newtype_variant` /
//!     `tuple_variant(n, …)` / `struct_variant(FIELDS, …)`).
//! The result is a canonical `Dec` string (same grammar as lean/TomlVerif/Driver/C13Typed.lean `showDec`).
//!
//! cases of mode c13 handled here
//!   typed <flavour> <ty> <hex text>          a document through the text routes and the Value / Table routes
//!   typedv <flavour> <ty> <hex text>         a single value through the value deserializers and the Value route
//!   tcheck <flavour> <target> <ty> <hex>     a derived type of the harness and `TySeed` of the same shape, side by side
//!
//! <ty> := b | i8 | i16 | i32 | i64 | u8 | u16 | u32 | u64 | f64 | f32 | s | c | u | dt | da | ti | v | g
//!       | O(<ty>) | V(<ty>) | T(<ty>,…) | M(<ty>) | N(<ty>) | S(<field>,…) | E(<variant>,…)
//! <field> := <hexname>:<ty> | <hexname>?<ty>          (`?` = the field carries `#[serde(default)]`)
//! <variant> := <hexname> | <hexname>:N(<ty>) | <hexname>:T(<ty>,…) | <hexname>:S(<field>,…)
use crate::canon::*;
use crate::util::*;
use serde::de::{self, Deserialize, DeserializeSeed, Deserializer, EnumAccess, IgnoredAny, MapAccess, SeqAccess, VariantAccess, Visitor};
use std::collections::BTreeMap;
use std::fmt;
use toml_datetime::{Date, Datetime, Time};

#[derive(Debug, Clone, Copy, PartialEq)]
pub enum IntKind {
    I8,
    I16,
    I32,
    I64,
    U8,
    U16,
    U32,
    U64,
}

#[derive(Debug)]
pub struct Field {
    pub name: String,
    pub ty: Ty,
    pub dflt: bool,
}

#[derive(Debug)]
pub enum Shape {
    Unit,
    Newtype(Ty),
    Tuple(Vec<Ty>),
    Struct(Vec<Field>, &'static [&'static str]),
}

#[derive(Debug)]
pub enum Ty {
    Bool,
    Int(IntKind),
    F64,
    F32,
    Str,
    Char,
    Unit,
    Datetime,
    Date,
    Time,
    Value,
    Ignored,
    Opt(Box<Ty>),
    Seq(Box<Ty>),
    Tuple(Vec<Ty>),
    Map(Box<Ty>),
    Newtype(Box<Ty>),
    Struct(Vec<Field>, &'static [&'static str]),
    Enum(Vec<(String, Shape)>, &'static [&'static str]),
}

// ------------------------------------------------------------------------------------------
// the encoding
// ------------------------------------------------------------------------------------------

struct TP<'a> {
    b: &'a [u8],
    i: usize,
}

fn leak_names(names: Vec<String>) -> &'static [&'static str] {
    let v: Vec<&'static str> = names.into_iter().map(|s| &*Box::leak(s.into_boxed_str())).collect();
    Box::leak(v.into_boxed_slice())
}

impl TP<'_> {
    fn peek(&self) -> u8 {
        *self.b.get(self.i).unwrap_or(&0)
    }
    fn eat(&mut self, c: u8) {
        assert_eq!(self.peek(), c, "type syntax at {}", self.i);
        self.i += 1;
    }
    fn word(&mut self) -> &str {
        let s = self.i;
        while self.i < self.b.len() && (self.b[self.i].is_ascii_lowercase() || self.b[self.i].is_ascii_digit() || self.b[self.i] == b'-') {
            self.i += 1;
        }
        std::str::from_utf8(&self.b[s..self.i]).unwrap()
    }
    fn name(&mut self) -> String {
        let w = self.word().to_string();
        unhex_str(&w)
    }
    fn list<T>(&mut self, mut f: impl FnMut(&mut Self) -> T) -> Vec<T> {
        // after '(' : zero or more items separated by ',' up to ')'
        let mut v = Vec::new();
        if self.peek() == b')' {
            self.i += 1;
            return v;
        }
        loop {
            v.push(f(self));
            let c = self.peek();
            self.i += 1;
            if c == b')' {
                return v;
            }
            assert_eq!(c, b',', "type syntax at {}", self.i);
        }
    }
    fn field(&mut self) -> Field {
        let name = self.name();
        let c = self.peek();
        self.i += 1;
        assert!(c == b':' || c == b'?', "type syntax: field");
        let ty = self.ty();
        Field { name, ty, dflt: c == b'?' }
    }
    fn fields(&mut self) -> (Vec<Field>, &'static [&'static str]) {
        let fs = self.list(|p| p.field());
        let names = leak_names(fs.iter().map(|f| f.name.clone()).collect());
        (fs, names)
    }
    fn variant(&mut self) -> (String, Shape) {
        let name = self.name();
        if self.peek() != b':' {
            return (name, Shape::Unit);
        }
        self.i += 1;
        let k = self.peek();
        self.i += 1;
        self.eat(b'(');
        let sh = match k {
            b'N' => {
                let t = self.ty();
                self.eat(b')');
                Shape::Newtype(t)
            }
            b'T' => Shape::Tuple(self.list(|p| p.ty())),
            b'S' => {
                let (fs, names) = self.fields();
                Shape::Struct(fs, names)
            }
            _ => panic!("type syntax: variant shape"),
        };
        (name, sh)
    }
    fn ty(&mut self) -> Ty {
        let c = self.peek();
        if c.is_ascii_uppercase() {
            self.i += 1;
            self.eat(b'(');
            return match c {
                b'O' | b'V' | b'M' | b'N' => {
                    let t = Box::new(self.ty());
                    self.eat(b')');
                    match c {
                        b'O' => Ty::Opt(t),
                        b'V' => Ty::Seq(t),
                        b'M' => Ty::Map(t),
                        _ => Ty::Newtype(t),
                    }
                }
                b'T' => Ty::Tuple(self.list(|p| p.ty())),
                b'S' => {
                    let (fs, names) = self.fields();
                    Ty::Struct(fs, names)
                }
                b'E' => {
                    let vs = self.list(|p| p.variant());
                    let names = leak_names(vs.iter().map(|v| v.0.clone()).collect());
                    Ty::Enum(vs, names)
                }
                _ => panic!("type syntax: constructor"),
            };
        }
        match self.word() {
            "b" => Ty::Bool,
            "i8" => Ty::Int(IntKind::I8),
            "i16" => Ty::Int(IntKind::I16),
            "i32" => Ty::Int(IntKind::I32),
            "i64" => Ty::Int(IntKind::I64),
            "u8" => Ty::Int(IntKind::U8),
            "u16" => Ty::Int(IntKind::U16),
            "u32" => Ty::Int(IntKind::U32),
            "u64" => Ty::Int(IntKind::U64),
            "f64" => Ty::F64,
            "f32" => Ty::F32,
            "s" => Ty::Str,
            "c" => Ty::Char,
            "u" => Ty::Unit,
            "dt" => Ty::Datetime,
            "da" => Ty::Date,
            "ti" => Ty::Time,
            "v" => Ty::Value,
            "g" => Ty::Ignored,
            w => panic!("type syntax: word {w:?}"),
        }
    }
}

pub fn parse_ty(s: &str) -> Ty {
    let mut p = TP { b: s.as_bytes(), i: 0 };
    let t = p.ty();
    assert_eq!(p.i, s.len(), "type syntax: trailing input");
    t
}

// ------------------------------------------------------------------------------------------
// canonical forms of decoded leaves
// ------------------------------------------------------------------------------------------

pub fn dec_f64(f: f64) -> String {
    format!("f{:016x}", f.to_bits())
}
/// the payload of a NaN produced by a narrowing cast is not specified: only its sign is kept
pub fn dec_f32(f: f32) -> String {
    if f.is_nan() {
        format!("g{}", if f.is_sign_negative() { "ffc00000" } else { "7fc00000" })
    } else {
        format!("g{:08x}", f.to_bits())
    }
}
pub fn dec_str(s: &str) -> String {
    format!("s{}", hex(s.as_bytes()))
}
pub fn dec_dt(d: &Datetime) -> String {
    format!("d{}", show_dt(d))
}
pub fn dec_date(d: &Date) -> String {
    dec_dt(&Datetime { date: Some(*d), time: None, offset: None })
}
pub fn dec_time(t: &Time) -> String {
    dec_dt(&Datetime { date: None, time: Some(*t), offset: None })
}
pub fn dec_seq(items: &[String]) -> String {
    format!("[{}]", items.join(";"))
}
pub fn dec_named(open: &str, items: &[(String, String)], close: &str) -> String {
    format!("{open}{}{close}", items.iter().map(|(k, v)| format!("{}={}", hex(k.as_bytes()), v)).collect::<Vec<_>>().join(";"))
}
pub fn dec_map(m: &BTreeMap<String, String>) -> String {
    // BTreeMap<String, _> iterates in byte order of the keys
    let items: Vec<(String, String)> = m.iter().map(|(k, v)| (k.clone(), v.clone())).collect();
    dec_named("{", &items, "}")
}
pub fn dec_opt(o: Option<String>) -> String {
    match o {
        Some(d) => format!("O({d})"),
        None => "N".into(),
    }
}

// ------------------------------------------------------------------------------------------
// the dynamic target
// ------------------------------------------------------------------------------------------

#[derive(Clone, Copy)]
pub struct TySeed<'a>(pub &'a Ty);

impl<'de> DeserializeSeed<'de> for TySeed<'_> {
    type Value = String;

    fn deserialize<D: Deserializer<'de>>(self, d: D) -> Result<String, D::Error> {
        match self.0 {
            Ty::Bool => bool::deserialize(d).map(|b| format!("b{}", b as u8)),
            Ty::Int(k) => match k {
                IntKind::I8 => i8::deserialize(d).map(|n| format!("i{n}")),
                IntKind::I16 => i16::deserialize(d).map(|n| format!("i{n}")),
                IntKind::I32 => i32::deserialize(d).map(|n| format!("i{n}")),
                IntKind::I64 => i64::deserialize(d).map(|n| format!("i{n}")),
                IntKind::U8 => u8::deserialize(d).map(|n| format!("i{n}")),
                IntKind::U16 => u16::deserialize(d).map(|n| format!("i{n}")),
                IntKind::U32 => u32::deserialize(d).map(|n| format!("i{n}")),
                IntKind::U64 => u64::deserialize(d).map(|n| format!("i{n}")),
            },
            Ty::F64 => f64::deserialize(d).map(dec_f64),
            Ty::F32 => f32::deserialize(d).map(dec_f32),
            Ty::Str => String::deserialize(d).map(|s| dec_str(&s)),
            Ty::Char => char::deserialize(d).map(|c| format!("c{}", hex(c.to_string().as_bytes()))),
            Ty::Unit => <()>::deserialize(d).map(|_| "u".to_string()),
            Ty::Datetime => Datetime::deserialize(d).map(|x| dec_dt(&x)),
            Ty::Date => Date::deserialize(d).map(|x| dec_date(&x)),
            Ty::Time => Time::deserialize(d).map(|x| dec_time(&x)),
            Ty::Value => toml::Value::deserialize(d).map(|v| format!("V{}", plain_toml(&v))),
            Ty::Ignored => IgnoredAny::deserialize(d).map(|_| "_".to_string()),
            // impl Deserialize for Option<T>: deserialize_option(OptionVisitor)
            Ty::Opt(t) => d.deserialize_option(OptV(t)),
            // impl Deserialize for Vec<T>: deserialize_seq(VecVisitor)
            Ty::Seq(t) => d.deserialize_seq(SeqV(t)),
            // impl Deserialize for (T0, …): deserialize_tuple(len, TupleVisitor)
            Ty::Tuple(ts) => d.deserialize_tuple(ts.len(), TupleV(ts, "(", ")")),
            // impl Deserialize for BTreeMap<K, V>: deserialize_map(MapVisitor)
            Ty::Map(t) => d.deserialize_map(MapV(t)),
            // derive: deserialize_newtype_struct(name, visitor)
            Ty::Newtype(t) => d.deserialize_newtype_struct("N", NewtypeV(t)),
            // derive: deserialize_struct(name, FIELDS, visitor)
            Ty::Struct(fs, names) => d.deserialize_struct("S", names, StructV(fs, "S{", "}")),
            // derive: deserialize_enum(name, VARIANTS, visitor)
            Ty::Enum(vs, names) => d.deserialize_enum("E", names, EnumV(vs)),
        }
    }
}

struct OptV<'a>(&'a Ty);
impl<'de> Visitor<'de> for OptV<'_> {
    type Value = String;
    fn expecting(&self, f: &mut fmt::Formatter<'_>) -> fmt::Result {
        f.write_str("option")
    }
    fn visit_unit<E: de::Error>(self) -> Result<String, E> {
        Ok("N".into())
    }
    fn visit_none<E: de::Error>(self) -> Result<String, E> {
        Ok("N".into())
    }
    fn visit_some<D: Deserializer<'de>>(self, d: D) -> Result<String, D::Error> {
        TySeed(self.0).deserialize(d).map(|x| format!("O({x})"))
    }
}

struct SeqV<'a>(&'a Ty);
impl<'de> Visitor<'de> for SeqV<'_> {
    type Value = String;
    fn expecting(&self, f: &mut fmt::Formatter<'_>) -> fmt::Result {
        f.write_str("a sequence")
    }
    fn visit_seq<A: SeqAccess<'de>>(self, mut seq: A) -> Result<String, A::Error> {
        let mut v = Vec::new();
        while let Some(x) = seq.next_element_seed(TySeed(self.0))? {
            v.push(x);
        }
        Ok(dec_seq(&v))
    }
}

/// tuples and tuple variants: exactly `len` elements are read, a missing one is `invalid_length`
struct TupleV<'a>(&'a [Ty], &'static str, &'static str);
impl<'de> Visitor<'de> for TupleV<'_> {
    type Value = String;
    fn expecting(&self, f: &mut fmt::Formatter<'_>) -> fmt::Result {
        write!(f, "a tuple of size {}", self.0.len())
    }
    fn visit_seq<A: SeqAccess<'de>>(self, mut seq: A) -> Result<String, A::Error> {
        let mut v = Vec::new();
        for (i, t) in self.0.iter().enumerate() {
            match seq.next_element_seed(TySeed(t))? {
                Some(x) => v.push(x),
                None => return Err(de::Error::invalid_length(i, &self)),
            }
        }
        Ok(format!("{}{}{}", self.1, v.join(";"), self.2))
    }
}

struct MapV<'a>(&'a Ty);
impl<'de> Visitor<'de> for MapV<'_> {
    type Value = String;
    fn expecting(&self, f: &mut fmt::Formatter<'_>) -> fmt::Result {
        f.write_str("a map")
    }
    fn visit_map<A: MapAccess<'de>>(self, mut map: A) -> Result<String, A::Error> {
        let mut m = BTreeMap::new();
        while let Some(k) = map.next_key::<String>()? {
            let v = map.next_value_seed(TySeed(self.0))?;
            m.insert(k, v);
        }
        Ok(dec_map(&m))
    }
}

struct NewtypeV<'a>(&'a Ty);
impl<'de> Visitor<'de> for NewtypeV<'_> {
    type Value = String;
    fn expecting(&self, f: &mut fmt::Formatter<'_>) -> fmt::Result {
        f.write_str("tuple struct N")
    }
    fn visit_newtype_struct<D: Deserializer<'de>>(self, d: D) -> Result<String, D::Error> {
        TySeed(self.0).deserialize(d).map(|x| format!("W({x})"))
    }
    fn visit_seq<A: SeqAccess<'de>>(self, mut seq: A) -> Result<String, A::Error> {
        match seq.next_element_seed(TySeed(self.0))? {
            Some(x) => Ok(format!("W({x})")),
            None => Err(de::Error::invalid_length(0, &self)),
        }
    }
}

/// the `__Field` identifier of a derived struct: index of the field, `None` = `__ignore`
struct FieldSeed<'a>(&'a [Field]);
impl<'de> DeserializeSeed<'de> for FieldSeed<'_> {
    type Value = Option<usize>;
    fn deserialize<D: Deserializer<'de>>(self, d: D) -> Result<Option<usize>, D::Error> {
        d.deserialize_identifier(self)
    }
}
impl<'de> Visitor<'de> for FieldSeed<'_> {
    type Value = Option<usize>;
    fn expecting(&self, f: &mut fmt::Formatter<'_>) -> fmt::Result {
        f.write_str("field identifier")
    }
    fn visit_u64<E: de::Error>(self, v: u64) -> Result<Option<usize>, E> {
        Ok(if (v as usize) < self.0.len() { Some(v as usize) } else { None })
    }
    fn visit_str<E: de::Error>(self, v: &str) -> Result<Option<usize>, E> {
        Ok(self.0.iter().position(|f| f.name == v))
    }
    fn visit_bytes<E: de::Error>(self, v: &[u8]) -> Result<Option<usize>, E> {
        Ok(self.0.iter().position(|f| f.name.as_bytes() == v))
    }
}

/// `serde::__private::de::missing_field`: `Option<T>` becomes `None`, everything else is an error
fn missing(ty: &Ty) -> Option<String> {
    match ty {
        Ty::Opt(_) => Some("N".into()),
        _ => None,
    }
}

/// structs and struct variants
struct StructV<'a>(&'a [Field], &'static str, &'static str);
impl<'de> Visitor<'de> for StructV<'_> {
    type Value = String;
    fn expecting(&self, f: &mut fmt::Formatter<'_>) -> fmt::Result {
        f.write_str("struct S")
    }
    fn visit_seq<A: SeqAccess<'de>>(self, mut seq: A) -> Result<String, A::Error> {
        let mut out = Vec::new();
        for (i, fld) in self.0.iter().enumerate() {
            let v = match seq.next_element_seed(TySeed(&fld.ty))? {
                Some(x) => x,
                None if fld.dflt => "D".to_string(),
                None => return Err(de::Error::invalid_length(i, &self)),
            };
            out.push((fld.name.clone(), v));
        }
        Ok(dec_named(self.1, &out, self.2))
    }
    fn visit_map<A: MapAccess<'de>>(self, mut map: A) -> Result<String, A::Error> {
        let mut slots: Vec<Option<String>> = self.0.iter().map(|_| None).collect();
        while let Some(key) = map.next_key_seed(FieldSeed(self.0))? {
            match key {
                Some(i) => {
                    if slots[i].is_some() {
                        let name: &'static str = Box::leak(self.0[i].name.clone().into_boxed_str());
                        return Err(de::Error::duplicate_field(name));
                    }
                    slots[i] = Some(map.next_value_seed(TySeed(&self.0[i].ty))?);
                }
                None => {
                    let _ = map.next_value::<IgnoredAny>()?;
                }
            }
        }
        let mut out = Vec::new();
        for (fld, slot) in self.0.iter().zip(slots) {
            let v = match slot {
                Some(x) => x,
                None if fld.dflt => "D".to_string(),
                None => match missing(&fld.ty) {
                    Some(x) => x,
                    None => {
                        let name: &'static str = Box::leak(fld.name.clone().into_boxed_str());
                        return Err(de::Error::missing_field(name));
                    }
                },
            };
            out.push((fld.name.clone(), v));
        }
        Ok(dec_named(self.1, &out, self.2))
    }
}

/// the `__Field` identifier of a derived enum: index of the variant, unknown names are errors
struct VariantSeed<'a>(&'a [(String, Shape)], &'static [&'static str]);
impl<'de> DeserializeSeed<'de> for VariantSeed<'_> {
    type Value = usize;
    fn deserialize<D: Deserializer<'de>>(self, d: D) -> Result<usize, D::Error> {
        d.deserialize_identifier(self)
    }
}
impl<'de> Visitor<'de> for VariantSeed<'_> {
    type Value = usize;
    fn expecting(&self, f: &mut fmt::Formatter<'_>) -> fmt::Result {
        f.write_str("variant identifier")
    }
    fn visit_u64<E: de::Error>(self, v: u64) -> Result<usize, E> {
        if (v as usize) < self.0.len() {
            Ok(v as usize)
        } else {
            Err(de::Error::invalid_value(de::Unexpected::Unsigned(v), &"variant index"))
        }
    }
    fn visit_str<E: de::Error>(self, v: &str) -> Result<usize, E> {
        self.0.iter().position(|f| f.0 == v).ok_or_else(|| de::Error::unknown_variant(v, self.1))
    }
    fn visit_bytes<E: de::Error>(self, v: &[u8]) -> Result<usize, E> {
        self.0.iter().position(|f| f.0.as_bytes() == v).ok_or_else(|| de::Error::unknown_variant(&String::from_utf8_lossy(v), self.1))
    }
}

struct EnumV<'a>(&'a [(String, Shape)]);
impl<'de> Visitor<'de> for EnumV<'_> {
    type Value = String;
    fn expecting(&self, f: &mut fmt::Formatter<'_>) -> fmt::Result {
        f.write_str("enum E")
    }
    fn visit_enum<A: EnumAccess<'de>>(self, data: A) -> Result<String, A::Error> {
        let names = leak_names(self.0.iter().map(|v| v.0.clone()).collect());
        let (idx, variant) = data.variant_seed(VariantSeed(self.0, names))?;
        let (name, shape) = &self.0[idx];
        let tag = format!("E{}", hex(name.as_bytes()));
        match shape {
            Shape::Unit => {
                variant.unit_variant()?;
                Ok(tag)
            }
            Shape::Newtype(t) => variant.newtype_variant_seed(TySeed(t)).map(|x| format!("{tag}:{x}")),
            Shape::Tuple(ts) => variant.tuple_variant(ts.len(), TupleV(ts, "(", ")")).map(|x| format!("{tag}{x}")),
            Shape::Struct(fs, fnames) => variant.struct_variant(fnames, StructV(fs, "{", "}")).map(|x| format!("{tag}{x}")),
        }
    }
}

// ------------------------------------------------------------------------------------------
// routes
// ------------------------------------------------------------------------------------------

type Routes = Vec<(&'static str, Option<String>)>;

fn show_routes(rs: &Routes) -> String {
    let first = rs.iter().find_map(|(_, r)| r.clone());
    let mut out = vec![format!("c0={}", first.clone().unwrap_or_else(|| "none".into()))];
    for (n, r) in rs {
        out.push(match r {
            None => format!("{n}=err"),
            Some(c) if Some(c) == first.as_ref() => format!("{n}=ok0"),
            Some(c) => format!("{n}=ok:{c}"),
        });
    }
    out.join(" ")
}

/// every document route, driven by `f` (which gets the deserializer through a small closure trait)
pub trait Target {
    fn run<'de, D: Deserializer<'de>>(&self, d: D) -> Option<String>;
}
impl Target for TySeed<'_> {
    fn run<'de, D: Deserializer<'de>>(&self, d: D) -> Option<String> {
        DeserializeSeed::deserialize(*self, d).ok()
    }
}

pub fn doc_routes<T: Target>(t: &T, text: &str) -> Routes {
    let mut rs: Routes = Vec::new();
    // toml::from_str::<T> is `T::deserialize(toml::de::Deserializer::new(text))`
    rs.push(("td", t.run(toml::de::Deserializer::new(text))));
    rs.push(("ed", match text.parse::<toml_edit::de::Deserializer>() {
        Ok(d) => t.run(d),
        Err(_) => None,
    }));
    rs.push(("dm", match text.parse::<toml_edit::DocumentMut>() {
        Ok(d) => t.run(toml_edit::de::Deserializer::from(d)),
        Err(_) => None,
    }));
    rs.push(("im", match toml_edit::ImDocument::parse(text.to_string()) {
        Ok(d) => t.run(toml_edit::de::Deserializer::from(d)),
        Err(_) => None,
    }));
    rs.push(("vv", match toml::from_str::<toml::Value>(text) {
        Ok(v) => t.run(v),
        Err(_) => None,
    }));
    rs.push(("tv", match toml::from_str::<toml::Table>(text) {
        Ok(v) => t.run(v),
        Err(_) => None,
    }));
    rs
}

pub fn val_routes<T: Target>(t: &T, text: &str) -> Routes {
    let mut rs: Routes = Vec::new();
    rs.push(("ev", match text.parse::<toml_edit::de::ValueDeserializer>() {
        Ok(d) => t.run(d),
        Err(_) => None,
    }));
    rs.push(("tvd", t.run(toml::de::ValueDeserializer::new(text))));
    rs.push(("evv", match text.parse::<toml_edit::Value>() {
        Ok(v) => {
            use serde::de::IntoDeserializer;
            t.run(v.into_deserializer())
        }
        Err(_) => None,
    }));
    // the toml::Value holding the same data: the entry `x` of the table read from `x = <text>`
    let doc = format!("x = {text}");
    rs.push(("wv", match toml::from_str::<toml::Table>(&doc) {
        Ok(mut tb) => match tb.remove("x") {
            Some(v) => t.run(v),
            None => None,
        },
        Err(_) => None,
    }));
    rs
}

fn flavour_ok(f: &str) -> bool {
    (f == "P") == cfg!(feature = "preserve_order")
}

pub fn typed(flavour: &str, ty: &str, hx: &str, single: bool) -> String {
    if !flavour_ok(flavour) {
        return "flavour-mismatch".into();
    }
    let text = match String::from_utf8(unhex(hx)) {
        Ok(t) => t,
        Err(_) => return "not-utf8".into(),
    };
    let ty = parse_ty(ty);
    let seed = TySeed(&ty);
    let rs = if single { val_routes(&seed, &text) } else { doc_routes(&seed, &text) };
    show_routes(&rs)
}

// ------------------------------------------------------------------------------------------
// the derived types of c13.rs as `Dec`: validates the description of serde above
// ------------------------------------------------------------------------------------------

pub struct Derived<T>(pub std::marker::PhantomData<T>);
impl<T: serde::de::DeserializeOwned + crate::c13::ToDec> Target for Derived<T> {
    fn run<'de, D: Deserializer<'de>>(&self, d: D) -> Option<String> {
        T::deserialize(d).ok().map(|v| v.to_dec())
    }
}

/// `tcheck`: the derived type `target` and `TySeed(ty)` on the same document, route by route:
/// `same=1` when every route gives the same verdict and the same `Dec`; then the routes of the derived type
pub fn tcheck(flavour: &str, target: &str, ty: &str, hx: &str) -> String {
    if !flavour_ok(flavour) {
        return "flavour-mismatch".into();
    }
    let text = match String::from_utf8(unhex(hx)) {
        Ok(t) => t,
        Err(_) => return "not-utf8".into(),
    };
    let ty = parse_ty(ty);
    let seed = TySeed(&ty);
    let (single, derived) = match crate::c13::derived_routes(target, &text) {
        Some(x) => x,
        None => return "bad-target".into(),
    };
    let dynamic = if single { val_routes(&seed, &text) } else { doc_routes(&seed, &text) };
    let same = derived == dynamic;
    let mut out = format!("same={} {}", same as u8, show_routes(&dynamic));
    if !same {
        out.push_str(&format!(" derived:[{}]", show_routes(&derived)));
    }
    out
}
