//! mode `doc`: a document (hex bytes) through every parsing entry point; mode `val`: a single value
use crate::canon::*;
use crate::util::*;

pub fn run_doc(line: &str) -> String {
    let bytes = unhex(line);
    let slice = toml_edit::de::from_slice::<toml::Table>(&bytes);
    let text = match std::str::from_utf8(&bytes) {
        Ok(t) => t,
        Err(_) => {
            return if slice.is_err() { "err".into() } else { "mixed:slice-accepts-invalid-utf8".into() };
        }
    };
    let im = toml_edit::ImDocument::parse(text.to_string());
    let mu = text.parse::<toml_edit::DocumentMut>();
    let tv = toml::from_str::<toml::Table>(text);
    let ed = toml_edit::de::from_str::<toml::Table>(text);
    let oks = [im.is_ok(), mu.is_ok(), tv.is_ok(), ed.is_ok(), slice.is_ok()];
    if oks.iter().all(|x| !*x) {
        return "err".into();
    }
    if !oks.iter().all(|x| *x) {
        return format!("mixed:verdicts im/mut/toml/edit_de/slice={oks:?}");
    }
    let im = im.unwrap();
    let mu = mu.unwrap();
    let a = canon_tbl(im.as_table());
    let b = canon_tbl(mu.as_table());
    if a != b {
        return format!("mixed:im-vs-mut {a} {b}");
    }
    let p = plain_tbl(im.as_table());
    let t1 = plain_toml_table(&tv.unwrap());
    let t2 = plain_toml_table(&ed.unwrap());
    let t3 = plain_toml_table(&slice.unwrap());
    if p != t1 || t1 != t2 || t2 != t3 {
        return format!("mixed:data edit={p} toml={t1} edit_de={t2} slice={t3}");
    }
    format!("ok edit={} toml={} depth={}", a, p, depth_tbl(im.as_table()))
}

pub fn run_val(line: &str) -> String {
    let text = unhex_str(line);
    match text.parse::<toml_edit::Value>() {
        Ok(v) => format!("ok {}", canon_val(&v)),
        Err(_) => "err".into(),
    }
}
