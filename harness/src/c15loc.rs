//! C15, second sentence: WHERE a deserialization error is located (mode `c15d`).
//!
//! `loc <flavour> <ty> <hex document>`: `TySeed(ty)` (c13typed.rs) driven through
//!   td  `toml::de::Deserializer::new(text)`                      (what `toml::from_str` runs)
//!   ed  `toml_edit::de::Deserializer::parse(text)`                (what `toml_edit::de::from_str` runs)
//!   dm  `toml_edit::de::Deserializer::from(DocumentMut)`          (what `toml_edit::de::from_document` runs: no source)
//! and for each `ok:<dec>` or `err span=<a>..<b>|none keys=<hex>.<hex>…|-`.
//!
//! The span is the public `Error::span()`. The key path has no public accessor: it is read from the derived `Debug`
//! output of `toml_edit::TomlError` (`keys: [...]`), which `toml_edit::de::Error` converts into (`From`) and which the
//! `Debug` impls of `toml_edit::de::Error` / `toml::de::Error` forward to; `keys_from_rendered` reads it a second way,
//! from the `in \`a.b\`` line of the rendered message when there is no source, and the two are compared (`KEYS-DIFFER`).
use crate::c13typed::*;
use crate::util::*;
use serde::de::DeserializeSeed;

/// one Rust `Debug` string literal starting at `s[i] == '"'`; returns the string and the index after the closing quote
fn debug_str(s: &[char], mut i: usize) -> (String, usize) {
    assert_eq!(s[i], '"');
    i += 1;
    let mut out = String::new();
    loop {
        let c = s[i];
        i += 1;
        match c {
            '"' => return (out, i),
            '\\' => {
                let e = s[i];
                i += 1;
                match e {
                    'n' => out.push('\n'),
                    'r' => out.push('\r'),
                    't' => out.push('\t'),
                    '0' => out.push('\0'),
                    '\\' => out.push('\\'),
                    '"' => out.push('"'),
                    '\'' => out.push('\''),
                    'u' => {
                        assert_eq!(s[i], '{');
                        i += 1;
                        let mut v = 0u32;
                        while s[i] != '}' {
                            v = v * 16 + s[i].to_digit(16).unwrap();
                            i += 1;
                        }
                        i += 1;
                        out.push(char::from_u32(v).unwrap());
                    }
                    x => panic!("debug escape {x}"),
                }
            }
            c => out.push(c),
        }
    }
}

/// `TomlError { message: "…", raw: None | Some("…"), keys: ["…", …], span: … }`
fn keys_from_debug(dbg: &str) -> Vec<String> {
    let s: Vec<char> = dbg.chars().collect();
    let eat = |i: usize, lit: &str| -> usize {
        let l: Vec<char> = lit.chars().collect();
        assert!(s[i..].starts_with(&l), "debug layout at {i}: {dbg}");
        i + l.len()
    };
    let mut i = eat(0, "TomlError { message: ");
    let (_, j) = debug_str(&s, i);
    i = eat(j, ", raw: ");
    if s[i..].starts_with(&['N', 'o', 'n', 'e']) {
        i += 4;
    } else {
        i = eat(i, "Some(");
        let (_, j) = debug_str(&s, i);
        i = eat(j, ")");
    }
    i = eat(i, ", keys: [");
    let mut keys = Vec::new();
    while s[i] != ']' {
        let (k, j) = debug_str(&s, i);
        keys.push(k);
        i = j;
        if s[i] == ',' {
            i = eat(i, ", ");
        }
    }
    keys
}

fn show_keys(keys: &[String]) -> String {
    if keys.is_empty() {
        "-".into()
    } else {
        keys.iter().map(|k| if k.is_empty() { "e".to_string() } else { hex(k.as_bytes()) }).collect::<Vec<_>>().join(".")
    }
}

fn show_span(sp: Option<std::ops::Range<usize>>) -> String {
    match sp {
        Some(r) => format!("{}..{}", r.start, r.end),
        None => "none".into(),
    }
}

/// without source the rendered message ends with "in `a.b`" when there are keys
fn rendered_check(rendered: &str, keys: &[String], has_context: bool) -> &'static str {
    if has_context {
        return "";
    }
    let want = format!("in `{}`\n", keys.join("."));
    if keys.is_empty() {
        ""
    } else if rendered.ends_with(&want) {
        ""
    } else {
        " KEYS-DIFFER"
    }
}

pub fn show_err(sp: Option<std::ops::Range<usize>>, dbg: &str, rendered: &str, has_raw: bool) -> String {
    let keys = keys_from_debug(dbg);
    let ctx = has_raw && sp.is_some();
    format!("err span={} keys={}{}", show_span(sp), show_keys(&keys), rendered_check(rendered, &keys, ctx))
}

pub fn run(line: &str) -> String {
    let parts: Vec<&str> = line.split(' ').collect();
    if parts.len() != 4 || parts[0] != "loc" {
        return "bad-op".into();
    }
    if (parts[1] == "P") != cfg!(feature = "preserve_order") {
        return "flavour-mismatch".into();
    }
    let text = match String::from_utf8(unhex(parts[3])) {
        Ok(t) => t,
        Err(_) => return "not-utf8".into(),
    };
    let ty = parse_ty(parts[2]);
    let seed = TySeed(&ty);
    // the three routes
    let td = match seed.deserialize(toml::de::Deserializer::new(&text)) {
        Ok(d) => format!("ok:{d}"),
        Err(e) => {
            // a syntax error comes out of the same call
            if text.parse::<toml_edit::ImDocument<String>>().is_err() {
                return "parse-err".into();
            }
            show_err(e.span(), &format!("{e:?}"), &e.to_string(), true)
        }
    };
    let ed = match toml_edit::de::Deserializer::parse(text.as_str()) {
        Err(_) => return "parse-err".into(),
        Ok(d) => match seed.deserialize(d) {
            Ok(d) => format!("ok:{d}"),
            Err(e) => {
                let sp = e.span();
                let rendered = e.to_string();
                let te: toml_edit::TomlError = e.into();
                show_err(sp, &format!("{te:?}"), &rendered, true)
            }
        },
    };
    let dm = match text.parse::<toml_edit::DocumentMut>() {
        Err(_) => return "parse-err".into(),
        Ok(doc) => match seed.deserialize(toml_edit::de::Deserializer::from(doc)) {
            Ok(d) => format!("ok:{d}"),
            Err(e) => {
                let sp = e.span();
                let rendered = e.to_string();
                let te: toml_edit::TomlError = e.into();
                show_err(sp, &format!("{te:?}"), &rendered, false)
            }
        },
    };
    format!("td={td} ed={ed} dm={dm}")
}
