//! C11: numbers.
use crate::util::*;
use serde::{Deserialize, Serialize};
use toml_write::ToTomlValue;

fn number_value(s: &str) -> String {
    match s.parse::<toml_edit::Value>() {
        Ok(toml_edit::Value::Integer(f)) => format!("int:{}", f.value()),
        Ok(toml_edit::Value::Float(f)) => format!("float:{:016x}", f.value().to_bits()),
        Ok(toml_edit::Value::Datetime(_)) => "dt".into(),
        Ok(toml_edit::Value::Boolean(b)) => format!("bool:{}", b.value()),
        Ok(_) => "other".into(),
        Err(_) => "err".into(),
    }
}

#[derive(Serialize, Deserialize, Debug, PartialEq)]
struct W<T> {
    v: T,
}

fn ser_all<T: Serialize>(v: T, show: String) -> String {
    let w = W { v };
    let a = toml::to_string(&w).map(|s| s.trim().to_string());
    let b = toml_edit::ser::to_string(&w).map(|s| s.trim().to_string());
    let c = toml::Table::try_from(&w).map(|t| t.to_string().trim().to_string());
    let p = toml::to_string_pretty(&w).map(|s| s.trim().to_string());
    let want = format!("v = {show}");
    let all = [a.ok(), b.ok(), c.ok(), p.ok()];
    if all.iter().all(|x| x.as_deref() == Some(want.as_str())) {
        format!("ok:{show}")
    } else if all.iter().all(|x| x.is_none()) {
        "err".into()
    } else {
        format!("mixed:{all:?}")
    }
}

fn de_all<T: for<'a> Deserialize<'a> + std::fmt::Display + PartialEq>(n: &str) -> String {
    let doc = format!("v = {n}\n");
    let a = toml::from_str::<W<T>>(&doc).ok().map(|w| w.v.to_string());
    let b = toml_edit::de::from_str::<W<T>>(&doc).ok().map(|w| w.v.to_string());
    let c = doc.parse::<toml::Table>().ok().and_then(|t| t.try_into::<W<T>>().ok()).map(|w| w.v.to_string());
    if a == b && b == c {
        match a {
            Some(x) => format!("ok:{x}"),
            None => "err".into(),
        }
    } else {
        format!("mixed:{a:?}/{b:?}/{c:?}")
    }
}

pub fn run(line: &str) -> String {
    let p: Vec<&str> = line.split(' ').collect();
    match p[0] {
        "i" => {
            let n: i64 = p[1].parse().unwrap();
            let tok = n.to_toml_value();
            // the same integer through toml_edit's own Value constructor
            let tok2 = toml_edit::Value::from(n).to_string();
            if tok != tok2 {
                return format!("writers-differ {tok} {tok2}");
            }
            format!("{} {}", hex(tok.as_bytes()), number_value(&tok))
        }
        "l" => number_value(&unhex_str(p[1])),
        "fd" => {
            let bits = u64::from_str_radix(p[1], 16).unwrap();
            format!("{}", hex(format!("{}", f64::from_bits(bits)).as_bytes()))
        }
        "gd" => {
            let bits = u32::from_str_radix(p[1], 16).unwrap();
            format!("{}", hex(format!("{}", f32::from_bits(bits)).as_bytes()))
        }
        "f" => {
            let bits = u64::from_str_radix(p[1], 16).unwrap();
            let x = f64::from_bits(bits);
            let tok = x.to_toml_value();
            let tok2 = toml_edit::Value::from(x).to_string();
            if tok != tok2 {
                return format!("writers-differ {tok} {tok2}");
            }
            let disp = unhex_str(p[2]);
            let dispok = x.is_nan() || disp.parse::<f64>().map(|y| y.to_bits() == bits).unwrap_or(false);
            format!("{} {} dispok:{}", hex(tok.as_bytes()), number_value(&tok), dispok)
        }
        "g" => {
            let bits = u32::from_str_radix(p[1], 16).unwrap();
            let x = f32::from_bits(bits);
            let tok = x.to_toml_value();
            let disp = unhex_str(p[2]);
            let dispok = x.is_nan() || disp.parse::<f32>().map(|y| y.to_bits() == bits).unwrap_or(false);
            format!("{} {} dispok:{}", hex(tok.as_bytes()), number_value(&tok), dispok)
        }
        "so" => {
            let n: i128 = p[2].parse().unwrap_or(0);
            match p[1] {
                "u8" => ser_all(n as u8, p[2].into()),
                "i8" => ser_all(n as i8, p[2].into()),
                "u16" => ser_all(n as u16, p[2].into()),
                "i16" => ser_all(n as i16, p[2].into()),
                "u32" => ser_all(n as u32, p[2].into()),
                "i32" => ser_all(n as i32, p[2].into()),
                "u64" => ser_all(n as u64, p[2].into()),
                "i64" => ser_all(n as i64, p[2].into()),
                "i128" => ser_all(n, p[2].into()),
                "u128" => ser_all(p[2].parse::<u128>().unwrap(), p[2].into()),
                _ => panic!("kind"),
            }
        }
        "vv" => {
            // a value of the given width handed to toml::Value / toml::Table by serde's own primitive deserializers
            use serde::de::IntoDeserializer;
            type E = serde::de::value::Error;
            fn show(direct: Result<toml::Value, E>, in_map: Result<toml::Table, E>, in_seq: Result<toml::Value, E>) -> String {
                let d = direct.ok().map(|v| v.to_string());
                let m = in_map.ok().map(|t| t["k"].to_string());
                let s = in_seq.ok().map(|v| v.as_array().unwrap()[0].to_string());
                if d == m && m == s {
                    match d {
                        Some(x) => format!("ok:{x}"),
                        None => "err".into(),
                    }
                } else {
                    format!("mixed:{d:?}/{m:?}/{s:?}")
                }
            }
            macro_rules! vv {
                ($t:ty) => {{
                    let v: $t = p[2].parse().unwrap();
                    let direct = toml::Value::deserialize(IntoDeserializer::<E>::into_deserializer(v));
                    let map: std::collections::BTreeMap<&str, $t> = [("k", v)].into_iter().collect();
                    let in_map = toml::Table::deserialize(IntoDeserializer::<E>::into_deserializer(map));
                    let in_seq = toml::Value::deserialize(IntoDeserializer::<E>::into_deserializer(vec![v]));
                    show(direct, in_map, in_seq)
                }};
            }
            match p[1] {
                "u8" => vv!(u8),
                "i8" => vv!(i8),
                "u16" => vv!(u16),
                "i16" => vv!(i16),
                "u32" => vv!(u32),
                "i32" => vv!(i32),
                "u64" => vv!(u64),
                "i64" => vv!(i64),
                "i128" => vv!(i128),
                "u128" => vv!(u128),
                _ => panic!("kind"),
            }
        }
        "de" => match p[1] {
            "u8" => de_all::<u8>(p[2]),
            "i8" => de_all::<i8>(p[2]),
            "u16" => de_all::<u16>(p[2]),
            "i16" => de_all::<i16>(p[2]),
            "u32" => de_all::<u32>(p[2]),
            "i32" => de_all::<i32>(p[2]),
            "u64" => de_all::<u64>(p[2]),
            "i64" => de_all::<i64>(p[2]),
            "i128" => de_all::<i128>(p[2]),
            "u128" => de_all::<u128>(p[2]),
            _ => panic!("kind"),
        },
        _ => panic!("kind"),
    }
}
