//! C10: string/key quoting. case: `v <style> <hex>` or `k <style> <hex>`
//! output: `<token hex | none> <alone: ok:<hex>|err> <indoc: ok:<hex>|err>`
use crate::util::*;
use toml_write::{TomlKeyBuilder, TomlStringBuilder, WriteTomlKey, WriteTomlValue};

pub fn run(line: &str) -> String {
    let p: Vec<&str> = line.split(' ').collect();
    let s = unhex_str(p[2]);
    match p[0] {
        "v" => {
            let b = TomlStringBuilder::new(&s);
            let t = match p[1] {
                "default" => Some(b.as_default()),
                "literal" => b.as_literal(),
                "mlLiteral" => b.as_ml_literal(),
                "basicPretty" => b.as_basic_pretty(),
                "mlBasicPretty" => b.as_ml_basic_pretty(),
                "basic" => Some(b.as_basic()),
                "mlBasic" => Some(b.as_ml_basic()),
                _ => panic!("style"),
            };
            match t {
                None => "none - -".into(),
                Some(t) => {
                    let mut w = String::new();
                    t.write_toml_value(&mut w).unwrap();
                    let alone = match w.parse::<toml_edit::Value>() {
                        Ok(toml_edit::Value::String(f)) => format!("ok:{}", hex(f.value().as_bytes())),
                        Ok(_) => "wrongtype".into(),
                        Err(_) => "err".into(),
                    };
                    let doc = format!("k = {w}\n");
                    let indoc = match doc.parse::<toml_edit::DocumentMut>() {
                        Ok(d) => match d.get("k").and_then(|i| i.as_str()) {
                            Some(x) => format!("ok:{}", hex(x.as_bytes())),
                            None => "wrongtype".into(),
                        },
                        Err(_) => "err".into(),
                    };
                    format!("{} {} {}", hex(w.as_bytes()), alone, indoc)
                }
            }
        }
        "k" => {
            let b = TomlKeyBuilder::new(&s);
            let t = match p[1] {
                "default" => Some(b.as_default()),
                "unquoted" => b.as_unquoted(),
                "literal" => b.as_literal(),
                "basicPretty" => b.as_basic_pretty(),
                "basic" => Some(b.as_basic()),
                _ => panic!("style"),
            };
            match t {
                None => "none - -".into(),
                Some(t) => {
                    let mut w = String::new();
                    t.write_toml_key(&mut w).unwrap();
                    let alone = match w.parse::<toml_edit::Key>() {
                        Ok(k) => format!("ok:{}", hex(k.get().as_bytes())),
                        Err(_) => "err".into(),
                    };
                    let doc = format!("{w} = 1\n");
                    let indoc = match doc.parse::<toml_edit::DocumentMut>() {
                        Ok(d) => {
                            let ks: Vec<_> = d.iter().map(|(k, _)| k.to_string()).collect();
                            if ks.len() == 1 {
                                format!("ok:{}", hex(ks[0].as_bytes()))
                            } else {
                                "wrongshape".into()
                            }
                        }
                        Err(_) => "err".into(),
                    };
                    format!("{} {} {}", hex(w.as_bytes()), alone, indoc)
                }
            }
        }
        _ => panic!("kind"),
    }
}
