//! tvh — harness: runs the real toml-rs/toml code on line-protocol cases.
//! usage: tvh <mode>   (cases on stdin, one canonical output line per case on stdout)
use std::io::{self, BufRead, Write};

mod util;
mod c10;
mod c12;
mod c11;
mod canon;
mod doc;
mod stack;
mod c15;
mod c15loc;
mod c14sp;
mod c04;
mod c03;
mod c20;
mod c16;
mod c06;
mod c13;
mod c13typed;
mod c08;
mod c07;
mod c07typed;

fn main() {
    let mode = std::env::args().nth(1).unwrap_or_default();
    // silence panic messages; each case runs under catch_unwind
    std::panic::set_hook(Box::new(|_| {}));
    let stdin = io::stdin();
    let stdout = io::stdout();
    let mut out = io::BufWriter::new(stdout.lock());
    for line in stdin.lock().lines() {
        let line = line.unwrap();
        let line = line.trim_end();
        if line.is_empty() {
            continue;
        }
        let l = line.to_string();
        let m = mode.clone();
        let res = std::panic::catch_unwind(move || dispatch(&m, &l));
        match res {
            Ok(s) => {
                writeln!(out, "{s}").unwrap();
                out.flush().unwrap();
            }
            Err(e) => {
                let msg = if let Some(s) = e.downcast_ref::<String>() {
                    s.clone()
                } else if let Some(s) = e.downcast_ref::<&str>() {
                    s.to_string()
                } else {
                    "?".into()
                };
                writeln!(out, "PANIC {}", util::hex(msg.as_bytes())).unwrap()
            }
        }
    }
}

fn dispatch(mode: &str, line: &str) -> String {
    match mode {
        "c10" => c10::run(line),
        "c12" => c12::run(line),
        "c11" => c11::run(line),
        "doc" => doc::run_doc(line),
        "val" => doc::run_val(line),
        "stack" => stack::run(line),
        "c15" => c15::run(line),
        "c15d" => c15loc::run(line),
        "c14s" => c14sp::run(line),
        "c04" => c04::run(line),
        "c03" => c03::run_print(line),
        "c14" => c03::run_spans(line),
        "c20" => c20::run(line),
        "c16" => c16::run(line),
        "c06" => c06::run(line),
        "c13" => c13::run(line),
        "c08" => c08::run(line),
        "c07" => c07::run(line),
        "c17" => c13::run17(line),
        _ => format!("bad-mode {mode}"),
    }
}
