//! C07, typed values over the TYPE GRAMMAR of c13typed.rs: the serializer side.
//!
//! `DynVal { ty, dec }` is a Rust VALUE `dec` of the type `ty`, given as data; its `Serialize` impl makes exactly the
//! serde calls the `Serialize` impl of a real value of that type makes:
//!   * leaves, `Option`, `Vec`, `BTreeMap<String, _>` hand the work to serde's own impls (`bool::serialize`,
//!     `i8::serialize`, …, `String`, `char`, `()`, `Option<DynVal>`, `Vec<DynVal>`, `BTreeMap<&str, DynVal>`), date-times
//!     to `toml_datetime`'s (`Datetime` / `Date` / `Time`), `toml::Value` to `toml`'s — nothing is re-described there;
//!   * tuples follow serde's `tuple_impls!` (`serialize_tuple(len)`, `serialize_element` per component, `end`);
//!   * structs, newtype structs and externally tagged enums follow what `serde_derive` 1.0.219 generates (`ser.rs`):
//!     `serialize_struct(name, nfields)` + `SerializeStruct::serialize_field(name, &field)` per field in declaration
//!     order + `end` (no `skip_serializing_if` in the grammar: a `None` field is handed over as `serialize_none`),
//!     `serialize_newtype_struct(name, &self.0)`, `serialize_unit_variant(name, idx, variant)`,
//!     `serialize_newtype_variant(name, idx, variant, &f0)`, `serialize_tuple_variant(name, idx, variant, len)` +
//!     `SerializeTupleVariant::serialize_field` + `end`, `serialize_struct_variant(name, idx, variant, len)` +
//!     `SerializeStructVariant::serialize_field(name, &field)` + `end`.
//! The description is validated permanently by `dvc`: a derived Rust value and `DynVal` of the same shape, recorded side
//! by side (names, order, length hints, variant indices).
//!
//! cases of mode c07 handled here
//!   rtt<flags> <ty> <dec>      the serde calls of the value, every serializer route, and every successful route read back
//!                              with `TySeed(ty)` through the matching deserializers
//!   dvc <target> <ty> <seed>   a derived value of the harness (c13.rs family, `Extra` below) and `DynVal` side by side
//! <ty> as in c13typed.rs. <dec> is the `Dec` string of c13typed.rs (`showDec` of the driver):
//!   b0 | b1 | i<int> | f<16 hex> | g<8 hex> | s<hex> | c<hex> | u | d<date>|<time>|<offset> | V<plain tree> | N | O(<dec>)
//!   | [<dec>;…] | (<dec>;…) | {<hexkey>=<dec>;…} | W(<dec>) | S{<hexname>=<dec>;…}
//!   | E<hexname> | E<hexname>:<dec> | E<hexname>(<dec>;…) | E<hexname>{<hexname>=<dec>;…}
//! output of rtt: the fields of a `d` case (c07.rs) + `<r>.td` / `<r>.ed` (text routes read back by `toml::de` /
//! `toml_edit::de`), `ed.de`, `vt.de`, `tt.de` (= the decoded `Dec` or `err`) + `sval=<tokens>`; `ill-typed` when the
//! value is not of the type; `bad-op` when the case does not parse.
use crate::c07::{intern, record, record_aux, route_fields, routes, tokens, SVal};
use crate::c13typed::{parse_ty, Field, IntKind, Shape, Target, Ty, TySeed};
use crate::canon::plain_toml;
use crate::util::*;
use serde::ser::{Error as _, SerializeStruct, SerializeStructVariant, SerializeTuple, SerializeTupleVariant};
use serde::{Deserialize, Serialize, Serializer};
use std::collections::BTreeMap;
use toml_datetime::{Date, Datetime, Offset, Time};

const DT_NAME: &str = "$__toml_private_Datetime";
const DT_FIELD: &str = "$__toml_private_datetime";

// ------------------------------------------------------------------------------------------
// values as data
// ------------------------------------------------------------------------------------------

#[derive(Debug, Clone)]
pub enum Dec {
    Bool(bool),
    Int(i128),
    F64(u64),
    F32(u32),
    Str(String),
    Char(String),
    Unit,
    Dt(Datetime),
    Value(PV),
    /// `_` and `D` of the decoded form: never a value of a type
    NotAValue,
    None,
    Some(Box<Dec>),
    Seq(Vec<Dec>),
    Tuple(Vec<Dec>),
    Map(Vec<(String, Dec)>),
    Newtype(Box<Dec>),
    Struct(Vec<(String, Dec)>),
    VUnit(String),
    VNewtype(String, Box<Dec>),
    VTuple(String, Vec<Dec>),
    VStruct(String, Vec<(String, Dec)>),
}

/// a `toml::Value` as written in the case (entries in the written order, so that `valueOk` can look at them)
#[derive(Debug, Clone)]
pub enum PV {
    Str(String),
    Int(i64),
    Float(u64),
    Bool(bool),
    Dt(Datetime),
    Arr(Vec<PV>),
    Tbl(Vec<(String, PV)>),
}

struct DP<'a> {
    b: &'a [u8],
    i: usize,
}

type PR<T> = Option<T>;

impl<'a> DP<'a> {
    fn peek(&self) -> u8 {
        *self.b.get(self.i).unwrap_or(&0)
    }
    fn eat(&mut self, c: u8) -> PR<()> {
        if self.peek() == c {
            self.i += 1;
            Some(())
        } else {
            None
        }
    }
    /// `[0-9a-f-]*`
    fn hexword(&mut self) -> &'a str {
        let s = self.i;
        while self.i < self.b.len() && matches!(self.b[self.i], b'0'..=b'9' | b'a'..=b'f' | b'-') {
            self.i += 1;
        }
        std::str::from_utf8(&self.b[s..self.i]).unwrap()
    }
    /// up to one of `;` `)` `]` `}` `=`
    fn upto(&mut self) -> &'a str {
        let s = self.i;
        while self.i < self.b.len() && !matches!(self.b[self.i], b';' | b')' | b']' | b'}' | b'=') {
            self.i += 1;
        }
        std::str::from_utf8(&self.b[s..self.i]).unwrap()
    }
    fn hexbytes(&mut self) -> PR<Vec<u8>> {
        let w = self.hexword();
        if w == "-" {
            return Some(vec![]);
        }
        if w.is_empty() || w.len() % 2 != 0 || w.contains('-') {
            return None;
        }
        Some(unhex(w))
    }
    fn name(&mut self) -> PR<String> {
        String::from_utf8(self.hexbytes()?).ok()
    }
    fn datetime(&mut self) -> PR<Datetime> {
        let t = self.upto();
        let p: Vec<&str> = t.split('|').collect();
        if p.len() != 3 {
            return None;
        }
        let date = if p[0] == "-" {
            None
        } else {
            let q: Vec<&str> = p[0].split('-').collect();
            if q.len() != 3 {
                return None;
            }
            Some(Date { year: q[0].parse().ok()?, month: q[1].parse().ok()?, day: q[2].parse().ok()? })
        };
        let time = if p[1] == "-" {
            None
        } else {
            let q: Vec<&str> = p[1].split(':').collect();
            if q.len() != 4 {
                return None;
            }
            Some(Time { hour: q[0].parse().ok()?, minute: q[1].parse().ok()?, second: q[2].parse().ok()?, nanosecond: q[3].parse().ok()? })
        };
        let offset = match p[2] {
            "-" => None,
            "Z" => Some(Offset::Z),
            m => Some(Offset::Custom { minutes: m.parse().ok()? }),
        };
        Some(Datetime { date, time, offset })
    }
    fn fixhex(&mut self, n: usize) -> PR<u64> {
        let w = self.hexword();
        if w.len() != n || w.contains('-') {
            return None;
        }
        u64::from_str_radix(w, 16).ok()
    }
    fn list<T>(&mut self, close: u8, mut f: impl FnMut(&mut Self) -> PR<T>) -> PR<Vec<T>> {
        let mut v = Vec::new();
        if self.peek() == close {
            self.i += 1;
            return Some(v);
        }
        loop {
            v.push(f(self)?);
            let c = self.peek();
            self.i += 1;
            if c == close {
                return Some(v);
            }
            if c != b';' {
                return None;
            }
        }
    }
    fn named(&mut self, close: u8) -> PR<Vec<(String, Dec)>> {
        self.list(close, |p| {
            let k = p.name()?;
            p.eat(b'=')?;
            Some((k, p.dec()?))
        })
    }
    fn pv(&mut self) -> PR<PV> {
        let c = self.peek();
        self.i += 1;
        Some(match c {
            b's' => PV::Str(self.name()?),
            b'i' => PV::Int(self.upto().parse().ok()?),
            b'f' => PV::Float(self.fixhex(16)?),
            b'b' => match self.upto() {
                "0" => PV::Bool(false),
                "1" => PV::Bool(true),
                _ => return None,
            },
            b'd' => PV::Dt(self.datetime()?),
            b'[' => PV::Arr(self.list(b']', |p| p.pv())?),
            b'{' => PV::Tbl(self.list(b'}', |p| {
                let k = p.name()?;
                p.eat(b'=')?;
                Some((k, p.pv()?))
            })?),
            _ => return None,
        })
    }
    fn dec(&mut self) -> PR<Dec> {
        let c = self.peek();
        self.i += 1;
        Some(match c {
            b'b' => {
                let d = self.peek();
                self.i += 1;
                match d {
                    b'0' => Dec::Bool(false),
                    b'1' => Dec::Bool(true),
                    _ => return None,
                }
            }
            b'i' => Dec::Int(self.upto().parse().ok()?),
            b'f' => Dec::F64(self.fixhex(16)?),
            b'g' => Dec::F32(self.fixhex(8)? as u32),
            b's' => Dec::Str(self.name()?),
            b'c' => Dec::Char(self.name()?),
            b'u' => Dec::Unit,
            b'd' => Dec::Dt(self.datetime()?),
            b'V' => Dec::Value(self.pv()?),
            b'_' | b'D' => Dec::NotAValue,
            b'N' => Dec::None,
            b'O' => {
                self.eat(b'(')?;
                let d = self.dec()?;
                self.eat(b')')?;
                Dec::Some(Box::new(d))
            }
            b'W' => {
                self.eat(b'(')?;
                let d = self.dec()?;
                self.eat(b')')?;
                Dec::Newtype(Box::new(d))
            }
            b'[' => Dec::Seq(self.list(b']', |p| p.dec())?),
            b'(' => Dec::Tuple(self.list(b')', |p| p.dec())?),
            b'{' => Dec::Map(self.named(b'}')?),
            b'S' => {
                self.eat(b'{')?;
                Dec::Struct(self.named(b'}')?)
            }
            b'E' => {
                let n = self.name()?;
                match self.peek() {
                    b':' => {
                        self.i += 1;
                        Dec::VNewtype(n, Box::new(self.dec()?))
                    }
                    b'(' => {
                        self.i += 1;
                        Dec::VTuple(n, self.list(b')', |p| p.dec())?)
                    }
                    b'{' => {
                        self.i += 1;
                        Dec::VStruct(n, self.named(b'}')?)
                    }
                    _ => Dec::VUnit(n),
                }
            }
            _ => return None,
        })
    }
}

pub fn parse_dec(s: &str) -> Option<Dec> {
    let mut p = DP { b: s.as_bytes(), i: 0 };
    let d = p.dec()?;
    if p.i == s.len() {
        Some(d)
    } else {
        None
    }
}

// ------------------------------------------------------------------------------------------
// `WfTy` / `WellTyped` of Model/SerTyped.lean
// ------------------------------------------------------------------------------------------

fn distinct(names: &[&str]) -> bool {
    names.iter().enumerate().all(|(i, n)| !names[i + 1..].contains(n))
}

fn wf_fields(fs: &[Field]) -> bool {
    distinct(&fs.iter().map(|f| f.name.as_str()).collect::<Vec<_>>()) && fs.iter().all(|f| wf_ty(&f.ty))
}

pub fn wf_ty(t: &Ty) -> bool {
    match t {
        Ty::Opt(t) | Ty::Seq(t) | Ty::Map(t) | Ty::Newtype(t) => wf_ty(t),
        Ty::Tuple(ts) => ts.iter().all(wf_ty),
        Ty::Struct(fs, _) => wf_fields(fs),
        Ty::Enum(vs, _) => {
            distinct(&vs.iter().map(|v| v.0.as_str()).collect::<Vec<_>>())
                && vs.iter().all(|(_, sh)| match sh {
                    Shape::Unit => true,
                    Shape::Newtype(t) => wf_ty(t),
                    Shape::Tuple(ts) => ts.iter().all(wf_ty),
                    Shape::Struct(fs, _) => wf_fields(fs),
                })
        }
        _ => true,
    }
}

/// the crate prints the date-time and re-reads it as itself
fn dt_ok(d: &Datetime) -> bool {
    d.to_string().parse::<Datetime>().ok().as_ref() == Some(d)
}

fn ascending(keys: &[&str]) -> bool {
    keys.windows(2).all(|w| w[0].as_bytes() < w[1].as_bytes())
}

fn value_ok(v: &PV) -> bool {
    match v {
        PV::Dt(d) => dt_ok(d),
        PV::Arr(l) => l.iter().all(value_ok),
        PV::Tbl(es) => {
            let keys: Vec<&str> = es.iter().map(|e| e.0.as_str()).collect();
            ascending(&keys) && !keys.contains(&DT_FIELD) && es.iter().all(|e| value_ok(&e.1))
        }
        _ => true,
    }
}

fn int_range(k: IntKind) -> (i128, i128) {
    match k {
        IntKind::I8 => (i8::MIN as i128, i8::MAX as i128),
        IntKind::I16 => (i16::MIN as i128, i16::MAX as i128),
        IntKind::I32 => (i32::MIN as i128, i32::MAX as i128),
        IntKind::I64 => (i64::MIN as i128, i64::MAX as i128),
        IntKind::U8 => (0, u8::MAX as i128),
        IntKind::U16 => (0, u16::MAX as i128),
        IntKind::U32 => (0, u32::MAX as i128),
        // all of u64 (the deserializers deliver only up to i64::MAX)
        IntKind::U64 => (0, u64::MAX as i128),
    }
}

fn wt_tys(ts: &[Ty], l: &[Dec]) -> bool {
    ts.len() == l.len() && ts.iter().zip(l).all(|(t, d)| well_typed(t, d))
}

fn wt_fields(fs: &[Field], l: &[(String, Dec)]) -> bool {
    fs.len() == l.len() && fs.iter().zip(l).all(|(f, (k, d))| *k == f.name && well_typed(&f.ty, d))
}

fn variant_of<'a>(vs: &'a [(String, Shape)], d: &Dec) -> Option<(usize, &'a Shape)> {
    let n = match d {
        Dec::VUnit(n) | Dec::VNewtype(n, _) | Dec::VTuple(n, _) | Dec::VStruct(n, _) => n,
        _ => return None,
    };
    // the first variant of that name
    vs.iter().position(|v| v.0 == *n).map(|i| (i, &vs[i].1))
}

pub fn well_typed(ty: &Ty, d: &Dec) -> bool {
    match (ty, d) {
        (Ty::Bool, Dec::Bool(_)) => true,
        (Ty::Int(k), Dec::Int(n)) => {
            let (lo, hi) = int_range(*k);
            lo <= *n && *n <= hi
        }
        (Ty::F64, Dec::F64(_)) | (Ty::F32, Dec::F32(_)) | (Ty::Str, Dec::Str(_)) | (Ty::Unit, Dec::Unit) => true,
        (Ty::Char, Dec::Char(s)) => s.chars().count() == 1,
        (Ty::Datetime, Dec::Dt(d)) => dt_ok(d),
        (Ty::Date, Dec::Dt(d)) => dt_ok(d) && d.date.is_some() && d.time.is_none() && d.offset.is_none(),
        (Ty::Time, Dec::Dt(d)) => dt_ok(d) && d.date.is_none() && d.time.is_some() && d.offset.is_none(),
        (Ty::Value, Dec::Value(v)) => value_ok(v),
        (Ty::Opt(_), Dec::None) => true,
        (Ty::Opt(t), Dec::Some(d)) => well_typed(t, d),
        (Ty::Seq(t), Dec::Seq(l)) => l.iter().all(|d| well_typed(t, d)),
        (Ty::Tuple(ts), Dec::Tuple(l)) => wt_tys(ts, l),
        (Ty::Map(t), Dec::Map(l)) => ascending(&l.iter().map(|e| e.0.as_str()).collect::<Vec<_>>()) && l.iter().all(|e| well_typed(t, &e.1)),
        (Ty::Newtype(t), Dec::Newtype(d)) => well_typed(t, d),
        (Ty::Struct(fs, _), Dec::Struct(l)) => wt_fields(fs, l),
        (Ty::Enum(vs, _), d) => match (variant_of(vs, d), d) {
            (Some((_, Shape::Unit)), Dec::VUnit(_)) => true,
            (Some((_, Shape::Newtype(t))), Dec::VNewtype(_, x)) => well_typed(t, x),
            (Some((_, Shape::Tuple(ts))), Dec::VTuple(_, l)) => wt_tys(ts, l),
            (Some((_, Shape::Struct(fs, _))), Dec::VStruct(_, l)) => wt_fields(fs, l),
            _ => false,
        },
        _ => false,
    }
}

// ------------------------------------------------------------------------------------------
// the dynamic value
// ------------------------------------------------------------------------------------------

fn to_toml(v: &PV) -> toml::Value {
    match v {
        PV::Str(s) => toml::Value::String(s.clone()),
        PV::Int(i) => toml::Value::Integer(*i),
        PV::Float(b) => toml::Value::Float(f64::from_bits(*b)),
        PV::Bool(b) => toml::Value::Boolean(*b),
        PV::Dt(d) => toml::Value::Datetime(*d),
        PV::Arr(l) => toml::Value::Array(l.iter().map(to_toml).collect()),
        PV::Tbl(es) => toml::Value::Table(es.iter().map(|(k, v)| (k.clone(), to_toml(v))).collect()),
    }
}

/// a value `dec` of the Rust type `ty`; `nm` is the Rust name of every struct / enum of the type
#[derive(Clone, Copy)]
pub struct DynVal<'a> {
    pub ty: &'a Ty,
    pub dec: &'a Dec,
    pub nm: &'static str,
}

impl<'a> DynVal<'a> {
    fn at(&self, ty: &'a Ty, dec: &'a Dec) -> DynVal<'a> {
        DynVal { ty, dec, nm: self.nm }
    }
}

/// the fields of a derived struct / struct variant, through either `SerializeStruct` or `SerializeStructVariant`
macro_rules! put_fields {
    ($self:ident, $st:ident, $tr:ident, $fs:expr, $l:expr) => {{
        for (f, (_, d)) in $fs.iter().zip($l.iter()) {
            $tr::serialize_field(&mut $st, intern(&f.name), &$self.at(&f.ty, d))?;
        }
        $tr::end($st)
    }};
}

impl Serialize for DynVal<'_> {
    fn serialize<S: Serializer>(&self, s: S) -> Result<S::Ok, S::Error> {
        let ill = || S::Error::custom("not a value of the type");
        match (self.ty, self.dec) {
            // serde's own impls (ser/impls.rs `primitive_impl!`)
            (Ty::Bool, Dec::Bool(b)) => b.serialize(s),
            (Ty::Int(k), Dec::Int(n)) => match k {
                IntKind::I8 => (*n as i8).serialize(s),
                IntKind::I16 => (*n as i16).serialize(s),
                IntKind::I32 => (*n as i32).serialize(s),
                IntKind::I64 => (*n as i64).serialize(s),
                IntKind::U8 => (*n as u8).serialize(s),
                IntKind::U16 => (*n as u16).serialize(s),
                IntKind::U32 => (*n as u32).serialize(s),
                IntKind::U64 => (*n as u64).serialize(s),
            },
            (Ty::F64, Dec::F64(b)) => f64::from_bits(*b).serialize(s),
            (Ty::F32, Dec::F32(b)) => f32::from_bits(*b).serialize(s),
            (Ty::Str, Dec::Str(x)) => x.serialize(s),
            (Ty::Char, Dec::Char(x)) => x.chars().next().ok_or_else(ill)?.serialize(s),
            (Ty::Unit, Dec::Unit) => ().serialize(s),
            // toml_datetime's impls
            (Ty::Datetime, Dec::Dt(d)) => d.serialize(s),
            (Ty::Date, Dec::Dt(d)) => d.date.ok_or_else(ill)?.serialize(s),
            (Ty::Time, Dec::Dt(d)) => d.time.ok_or_else(ill)?.serialize(s),
            // toml's impl
            (Ty::Value, Dec::Value(v)) => to_toml(v).serialize(s),
            // impl Serialize for Option<T>
            (Ty::Opt(_), Dec::None) => None::<DynVal<'_>>.serialize(s),
            (Ty::Opt(t), Dec::Some(d)) => Some(self.at(t, d)).serialize(s),
            // impl Serialize for Vec<T>
            (Ty::Seq(t), Dec::Seq(l)) => l.iter().map(|d| self.at(t, d)).collect::<Vec<_>>().serialize(s),
            // impl Serialize for (T0, …): `tuple_impls!`
            (Ty::Tuple(ts), Dec::Tuple(l)) if ts.len() == l.len() => {
                let mut q = s.serialize_tuple(ts.len())?;
                for (t, d) in ts.iter().zip(l) {
                    q.serialize_element(&self.at(t, d))?;
                }
                q.end()
            }
            // impl Serialize for BTreeMap<K, V>
            (Ty::Map(t), Dec::Map(l)) => l.iter().map(|(k, d)| (k.as_str(), self.at(t, d))).collect::<BTreeMap<_, _>>().serialize(s),
            // derive: `struct N(T);`
            (Ty::Newtype(t), Dec::Newtype(d)) => s.serialize_newtype_struct(self.nm, &self.at(t, d)),
            // derive: `struct S { … }`
            (Ty::Struct(fs, _), Dec::Struct(l)) if fs.len() == l.len() => {
                let mut st = s.serialize_struct(self.nm, fs.len())?;
                put_fields!(self, st, SerializeStruct, fs, l)
            }
            // derive: `enum E { … }`, externally tagged
            (Ty::Enum(vs, _), d) => {
                let (idx, shape) = variant_of(vs, d).ok_or_else(ill)?;
                let vname = intern(&vs[idx].0);
                match (shape, d) {
                    (Shape::Unit, Dec::VUnit(_)) => s.serialize_unit_variant(self.nm, idx as u32, vname),
                    (Shape::Newtype(t), Dec::VNewtype(_, x)) => s.serialize_newtype_variant(self.nm, idx as u32, vname, &self.at(t, x)),
                    (Shape::Tuple(ts), Dec::VTuple(_, l)) if ts.len() == l.len() => {
                        let mut q = s.serialize_tuple_variant(self.nm, idx as u32, vname, ts.len())?;
                        for (t, x) in ts.iter().zip(l) {
                            SerializeTupleVariant::serialize_field(&mut q, &self.at(t, x))?;
                        }
                        SerializeTupleVariant::end(q)
                    }
                    (Shape::Struct(fs, _), Dec::VStruct(_, l)) if fs.len() == l.len() => {
                        let mut st = s.serialize_struct_variant(self.nm, idx as u32, vname, fs.len())?;
                        put_fields!(self, st, SerializeStructVariant, fs, l)
                    }
                    _ => Err(ill()),
                }
            }
            _ => Err(ill()),
        }
    }
}

// ------------------------------------------------------------------------------------------
// rtt
// ------------------------------------------------------------------------------------------

fn back(r: Option<String>) -> String {
    r.unwrap_or_else(|| "err".into())
}

fn toks(sv: &SVal) -> String {
    let mut tk = vec![];
    tokens(sv, &mut tk);
    tk.join(",")
}

pub fn rtt(tys: &str, decs: &str) -> String {
    let parsed = std::panic::catch_unwind(|| parse_ty(tys)).ok();
    let (ty, dec) = match (parsed, parse_dec(decs)) {
        (Some(t), Some(d)) => (t, d),
        _ => return "bad-op".into(),
    };
    if !wf_ty(&ty) || !well_typed(&ty, &dec) {
        return "ill-typed".into();
    }
    let v = DynVal { ty: &ty, dec: &dec, nm: "S" };
    let sv = record(&v);
    let r = routes(&v);
    let mut out = vec![];
    route_fields(&r, &mut out);
    let seed = TySeed(&ty);
    for (name, res) in [("ts", &r.ts), ("tp", &r.tp), ("es", &r.es), ("ep", &r.ep)] {
        if let Ok(text) = res {
            // toml::from_str / toml_edit::de::from_str
            out.push(format!("{name}.td={}", back(seed.run(toml::de::Deserializer::new(text)))));
            out.push(format!("{name}.ed={}", back(match text.parse::<toml_edit::de::Deserializer>() {
                Ok(d) => seed.run(d),
                Err(_) => None,
            })));
        }
    }
    if let Ok(d) = &r.ed {
        // toml_edit::de::from_document
        out.push(format!("ed.de={}", back(seed.run(toml_edit::de::Deserializer::from(d.clone())))));
    }
    if let Ok(x) = &r.vt {
        // Value::try_into
        out.push(format!("vt.de={}", back(seed.run(x.clone()))));
    }
    if let Ok(x) = &r.tt {
        // Table::try_into
        out.push(format!("tt.de={}", back(seed.run(x.clone()))));
    }
    out.push(format!("sval={}", toks(&sv)));
    out.join(" ")
}

// ------------------------------------------------------------------------------------------
// dvc: `DynVal` against serde_derive's and std's actual output
// ------------------------------------------------------------------------------------------

/// the Rust names of structs / enums are not part of the type grammar: every one becomes `nm` (the date-time struct of
/// `toml_datetime` keeps its name, the serializers look for it)
fn rename(v: &SVal, nm: &'static str) -> SVal {
    let n = |x: &'static str| if x == DT_NAME { x } else { nm };
    let all = |xs: &Vec<SVal>| xs.iter().map(|x| rename(x, nm)).collect::<Vec<_>>();
    let fields = |fs: &Vec<(&'static str, SVal)>| fs.iter().map(|(k, x)| (*k, rename(x, nm))).collect::<Vec<_>>();
    match v {
        SVal::Some(x) => SVal::Some(Box::new(rename(x, nm))),
        SVal::UnitStruct(x) => SVal::UnitStruct(n(x)),
        SVal::Newtype(x, y) => SVal::Newtype(n(x), Box::new(rename(y, nm))),
        SVal::Seq(xs) => SVal::Seq(all(xs)),
        SVal::Tuple(xs) => SVal::Tuple(all(xs)),
        SVal::TupleStruct(x, xs) => SVal::TupleStruct(n(x), all(xs)),
        SVal::Map(kvs) => SVal::Map(kvs.iter().map(|(k, x)| (rename(k, nm), rename(x, nm))).collect()),
        SVal::Struct(x, fs) => SVal::Struct(n(x), fields(fs)),
        SVal::UnitVariant(x, y) => SVal::UnitVariant(n(x), y),
        SVal::NewtypeVariant(x, y, z) => SVal::NewtypeVariant(n(x), y, Box::new(rename(z, nm))),
        SVal::TupleVariant(x, y, xs) => SVal::TupleVariant(n(x), y, all(xs)),
        SVal::StructVariant(x, y, fs) => SVal::StructVariant(n(x), y, fields(fs)),
        other => other.clone(),
    }
}

struct R(u64);
impl R {
    fn next(&mut self) -> u64 {
        // splitmix64
        self.0 = self.0.wrapping_add(0x9E3779B97F4A7C15);
        let mut z = self.0;
        z = (z ^ (z >> 30)).wrapping_mul(0xBF58476D1CE4E5B9);
        z = (z ^ (z >> 27)).wrapping_mul(0x94D049BB133111EB);
        z ^ (z >> 31)
    }
    fn below(&mut self, n: u64) -> u64 {
        self.next() % n
    }
    fn pick<T: Clone>(&mut self, xs: &[T]) -> T {
        xs[self.below(xs.len() as u64) as usize].clone()
    }
    fn opt<T>(&mut self, f: impl FnOnce(&mut R) -> T) -> Option<T> {
        if self.below(3) == 0 {
            None
        } else {
            Some(f(self))
        }
    }
    fn vec<T>(&mut self, mut f: impl FnMut(&mut R) -> T) -> Vec<T> {
        (0..self.below(4)).map(|_| f(self)).collect()
    }
}

/// shapes the derived family of c13.rs does not hold: tuples, a newtype struct, `()`, `char`, nested options,
/// `#[serde(default)]`, options as map values and sequence elements, every variant shape (renamed, empty), `i8` / `i16` /
/// `f32` with NaN payloads, a `u64` beyond `i64::MAX`, an empty struct, `Date` / `Time`, a `toml::Value`
#[derive(Serialize, Deserialize)]
struct XN(i64);
#[derive(Serialize, Deserialize)]
struct XU {}
#[derive(Serialize, Deserialize)]
enum XE {
    A,
    #[serde(rename = "b c")]
    B(XN),
    C(i64, char),
    D {
        x: Option<i64>,
        y: (),
    },
    #[serde(rename = "")]
    E(Option<Option<bool>>),
    F {},
    G(),
}
#[derive(Serialize, Deserialize)]
struct Extra {
    t: (i64, String),
    t3: (bool, f64, Vec<i64>),
    n: XN,
    u: (),
    c: char,
    oo: Option<Option<i64>>,
    #[serde(default)]
    d: Option<i64>,
    m: BTreeMap<String, Option<XN>>,
    e: Vec<XE>,
    f: f32,
    a: i8,
    b: i16,
    w: u64,
    nn: Vec<Option<i64>>,
    vv: toml::Value,
    em: XU,
    dd: Date,
    tt: Time,
    #[serde(rename = "k ey")]
    renamed: bool,
}

fn nd(items: &[(&str, String)]) -> String {
    items.iter().map(|(k, v)| format!("{}={}", hex(k.as_bytes()), v)).collect::<Vec<_>>().join(";")
}
fn d_i(n: i128) -> String {
    format!("i{n}")
}
fn d_opt<T>(o: &Option<T>, f: impl Fn(&T) -> String) -> String {
    match o {
        Some(x) => format!("O({})", f(x)),
        None => "N".into(),
    }
}
fn d_seq<T>(l: &[T], f: impl Fn(&T) -> String) -> String {
    format!("[{}]", l.iter().map(f).collect::<Vec<_>>().join(";"))
}
fn d_xn(x: &XN) -> String {
    format!("W({})", d_i(x.0 as i128))
}
fn d_char(c: char) -> String {
    format!("c{}", hex(c.to_string().as_bytes()))
}
fn d_xe(e: &XE) -> String {
    let tag = |n: &str| format!("E{}", hex(n.as_bytes()));
    match e {
        XE::A => tag("A"),
        XE::B(x) => format!("{}:{}", tag("b c"), d_xn(x)),
        XE::C(a, b) => format!("{}({};{})", tag("C"), d_i(*a as i128), d_char(*b)),
        XE::D { x, y: () } => format!("{}{{{}}}", tag("D"), nd(&[("x", d_opt(x, |v| d_i(*v as i128))), ("y", "u".into())])),
        XE::E(o) => format!("{}:{}", tag(""), d_opt(o, |p| d_opt(p, |b| format!("b{}", *b as u8)))),
        XE::F {} => format!("{}{{}}", tag("F")),
        XE::G() => format!("{}()", tag("G")),
    }
}
fn d_extra(x: &Extra) -> String {
    let dt = |d: Datetime| format!("d{}", crate::canon::show_dt(&d));
    format!(
        "S{{{}}}",
        nd(&[
            ("t", format!("({};s{})", d_i(x.t.0 as i128), hex(x.t.1.as_bytes()))),
            ("t3", format!("(b{};f{:016x};{})", x.t3.0 as u8, x.t3.1.to_bits(), d_seq(&x.t3.2, |v| d_i(*v as i128)))),
            ("n", d_xn(&x.n)),
            ("u", "u".into()),
            ("c", d_char(x.c)),
            ("oo", d_opt(&x.oo, |p| d_opt(p, |v| d_i(*v as i128)))),
            ("d", d_opt(&x.d, |v| d_i(*v as i128))),
            ("m", format!("{{{}}}", x.m.iter().map(|(k, v)| format!("{}={}", hex(k.as_bytes()), d_opt(v, d_xn))).collect::<Vec<_>>().join(";"))),
            ("e", d_seq(&x.e, d_xe)),
            ("f", format!("g{:08x}", x.f.to_bits())),
            ("a", d_i(x.a as i128)),
            ("b", d_i(x.b as i128)),
            ("w", d_i(x.w as i128)),
            ("nn", d_seq(&x.nn, |o| d_opt(o, |v| d_i(*v as i128)))),
            ("vv", format!("V{}", plain_toml(&x.vv))),
            ("em", "S{}".into()),
            ("dd", dt(Datetime { date: Some(x.dd), time: None, offset: None })),
            ("tt", dt(Datetime { date: None, time: Some(x.tt), offset: None })),
            ("k ey", format!("b{}", x.renamed as u8)),
        ])
    )
}

fn g_i64(r: &mut R) -> i64 {
    let x = r.next() as i64;
    r.pick(&[0, 1, -1, i64::MAX, i64::MIN, 42, x])
}
fn g_xn(r: &mut R) -> XN {
    XN(g_i64(r))
}
fn g_char(r: &mut R) -> char {
    r.pick(&['a', 'é', '\n', '"', '\u{0}', '\u{1F600}', '\u{10ffff}', '\u{7f}'])
}
fn g_xe(r: &mut R) -> XE {
    match r.below(7) {
        0 => XE::A,
        1 => XE::B(g_xn(r)),
        2 => XE::C(g_i64(r), g_char(r)),
        3 => XE::D { x: r.opt(g_i64), y: () },
        4 => XE::E(r.opt(|r| r.opt(|r| r.below(2) == 1))),
        5 => XE::F {},
        _ => XE::G(),
    }
}
fn g_value(r: &mut R, depth: u32) -> toml::Value {
    match r.below(if depth == 0 { 5 } else { 7 }) {
        0 => toml::Value::Integer(g_i64(r)),
        1 => toml::Value::String(r.pick(&["", "x", "é\n", "1979-05-27"]).to_string()),
        2 => toml::Value::Boolean(r.below(2) == 1),
        3 => toml::Value::Float(f64::from_bits(r.pick(&[0u64, 0x8000000000000000, 0x3ff8000000000000, 0x7ff8000000000000, 0xfff0000000000000]))),
        4 => toml::Value::Datetime(r.pick(&["1979-05-27T07:32:00Z", "1979-05-27", "07:32:00.5"]).parse().unwrap()),
        5 => toml::Value::Array((0..r.below(3)).map(|_| g_value(r, depth - 1)).collect()),
        _ => toml::Value::Table((0..r.below(4)).map(|_| (r.pick(&["a", "b", "", "k ey", "é"]).to_string(), g_value(r, depth - 1))).collect()),
    }
}
fn g_extra(r: &mut R) -> Extra {
    let x = r.next();
    Extra {
        t: (g_i64(r), r.pick(&["", "x", "a\"b"]).to_string()),
        t3: (r.below(2) == 1, f64::from_bits(r.pick(&[0u64, 0x3ff0000000000000, 0xfff8000000000000, 0x7ff0000000000001, x])), r.vec(g_i64)),
        n: g_xn(r),
        u: (),
        c: g_char(r),
        oo: r.opt(|r| r.opt(g_i64)),
        d: r.opt(g_i64),
        m: (0..r.below(4)).map(|_| (r.pick(&["a", "b", "", "k ey", "é"]).to_string(), r.opt(g_xn))).collect(),
        e: r.vec(g_xe),
        f: f32::from_bits(r.pick(&[0u32, 0x80000000, 0x3dcccccd, 0x7fc00000, 0xffc00000, 0x7fa00001, 0x7f800000, x as u32])),
        a: r.pick(&[0i8, -1, i8::MIN, i8::MAX]),
        b: r.pick(&[0i16, -1, i16::MIN, i16::MAX]),
        w: r.pick(&[0u64, i64::MAX as u64, i64::MAX as u64 + 1, u64::MAX, x]),
        nn: r.vec(|r| r.opt(g_i64)),
        vv: g_value(r, 2),
        em: XU {},
        dd: Date { year: r.pick(&[0u16, 1979, 9999]), month: 1 + r.below(12) as u8, day: 1 + r.below(28) as u8 },
        tt: Time { hour: r.below(24) as u8, minute: r.below(60) as u8, second: r.pick(&[0u8, 59, 60]), nanosecond: r.pick(&[0u32, 1, 500_000_000, 999_999_999]) },
        renamed: r.below(2) == 1,
    }
}

fn derived(target: &str, seed: u64) -> Option<(String, SVal, String)> {
    if target == "extra" {
        let mut r = R(seed ^ 0x5851_f42d_4c95_7f2d);
        let v = g_extra(&mut r);
        let (sv, aux) = record_aux(&v);
        return Some((d_extra(&v), sv, aux));
    }
    crate::c13::derived_ser(target, seed)
}

/// `same=1`: the derived / std `Serialize` impl of the Rust value and `DynVal { ty, to_dec(value) }` make the same serde
/// calls (struct / enum names aside), with the same length hints and variant indices
pub fn dvc(target: &str, tys: &str, seed: u64) -> String {
    let (dec_s, sv_real, aux_real) = match derived(target, seed) {
        Some(x) => x,
        None => return "bad-target".into(),
    };
    let ty = parse_ty(tys);
    let dec = match parse_dec(&dec_s) {
        Some(d) => d,
        None => return format!("same=0 wt=0 unparsed dec={dec_s}"),
    };
    let wt = wf_ty(&ty) && well_typed(&ty, &dec);
    if !wt {
        return format!("same=0 wt=0 dec={dec_s}");
    }
    let (sv_dyn, aux_dyn) = record_aux(&DynVal { ty: &ty, dec: &dec, nm: "S" });
    let (a, b) = (toks(&rename(&sv_real, "S")), toks(&sv_dyn));
    let same = a == b && aux_real == aux_dyn;
    let mut out = format!("same={} wt=1 dec={dec_s} sval={b}", same as u8);
    if !same {
        out.push_str(&format!(" derived={a} aux.derived={aux_real} aux.dyn={aux_dyn}"));
    }
    out
}
