//! tvh18 — the C18 battery: the same inputs under every Cargo feature configuration.
//! stdin: battery lines  `doc <hex>` | `build <n> <hexkey> <kind> ...`   stdout: one canonical line each.
use std::io::{self, BufRead, Write};

fn hex(b: &[u8]) -> String {
    if b.is_empty() {
        return "-".into();
    }
    b.iter().map(|x| format!("{x:02x}")).collect()
}
fn unhex(s: &str) -> Vec<u8> {
    if s == "-" {
        return vec![];
    }
    (0..s.len() / 2).map(|i| u8::from_str_radix(&s[2 * i..2 * i + 2], 16).unwrap()).collect()
}

#[cfg(feature = "parse")]
mod parse_side {
    use super::*;
    use toml_edit::{Item, Table, Value};

    fn show_dt(d: &toml_datetime::Datetime) -> String {
        d.to_string()
    }
    pub fn canon_val(v: &Value) -> String {
        match v {
            Value::String(f) => format!("s{}", hex(f.value().as_bytes())),
            Value::Integer(f) => format!("i{}", f.value()),
            Value::Float(f) => format!("f{:016x}", f.value().to_bits()),
            Value::Boolean(f) => format!("b{}", *f.value() as u8),
            Value::Datetime(f) => format!("d{}", show_dt(f.value())),
            Value::Array(a) => format!("[{}]", a.iter().map(canon_val).collect::<Vec<_>>().join(";")),
            Value::InlineTable(t) => format!("{{{}}}", t.iter().map(|(k, v)| format!("{}={}", hex(k.as_bytes()), canon_val(v))).collect::<Vec<_>>().join(";")),
        }
    }
    pub fn canon_item(i: &Item) -> String {
        match i {
            Item::None => "NONE".into(),
            Item::Value(v) => canon_val(v),
            Item::Table(t) => canon_tbl(t),
            Item::ArrayOfTables(a) => format!("A[{}]", a.iter().map(canon_tbl).collect::<Vec<_>>().join(";")),
        }
    }
    pub fn canon_tbl(t: &Table) -> String {
        format!("T{{{}}}", t.iter().map(|(k, v)| format!("{}={}", hex(k.as_bytes()), canon_item(v))).collect::<Vec<_>>().join(";"))
    }
    pub fn toml_plain(v: &toml::Value, sorted: bool) -> String {
        match v {
            toml::Value::String(s) => format!("s{}", hex(s.as_bytes())),
            toml::Value::Integer(i) => format!("i{i}"),
            toml::Value::Float(f) => format!("f{:016x}", f.to_bits()),
            toml::Value::Boolean(b) => format!("b{}", *b as u8),
            toml::Value::Datetime(d) => format!("d{d}"),
            toml::Value::Array(a) => format!("[{}]", a.iter().map(|x| toml_plain(x, sorted)).collect::<Vec<_>>().join(";")),
            toml::Value::Table(t) => toml_table(t, sorted),
        }
    }
    pub fn toml_table(t: &toml::Table, sorted: bool) -> String {
        let mut items: Vec<(Vec<u8>, String)> = t.iter().map(|(k, v)| (k.as_bytes().to_vec(), toml_plain(v, sorted))).collect();
        if sorted {
            items.sort_by(|a, b| a.0.cmp(&b.0));
        }
        format!("{{{}}}", items.iter().map(|(k, s)| format!("{}={}", hex(k), s)).collect::<Vec<_>>().join(";"))
    }
    /// the same table with the entries of every table (at any depth) inserted in reverse order
    fn reversed(t: &toml::Table) -> toml::Table {
        let mut r = toml::Table::new();
        let es: Vec<(&String, &toml::Value)> = t.iter().collect();
        for (k, v) in es.into_iter().rev() {
            r.insert(k.clone(), rev_val(v));
        }
        r
    }
    fn has_nan(v: &toml::Value) -> bool {
        match v {
            toml::Value::Float(f) => f.is_nan(),
            toml::Value::Table(t) => t.iter().any(|(_, v)| has_nan(v)),
            toml::Value::Array(a) => a.iter().any(has_nan),
            _ => false,
        }
    }
    fn rev_val(v: &toml::Value) -> toml::Value {
        match v {
            toml::Value::Table(t) => toml::Value::Table(reversed(t)),
            toml::Value::Array(a) => toml::Value::Array(a.iter().map(rev_val).collect()),
            x => x.clone(),
        }
    }
    pub fn doc(text: &str) -> String {
        let e = toml_edit::ImDocument::parse(text.to_string());
        let t = toml::from_str::<toml::Table>(text);
        match (e, t) {
            (Ok(d), Ok(t)) => {
                #[allow(unused_mut)]
                let mut printed = String::from("n/a");
                #[cfg(feature = "display")]
                {
                    printed = hex(d.clone().into_mut().to_string().as_bytes());
                }
                // `==` is about content: the same table with every table's entries inserted in reverse order is equal
                let eq = if has_nan(&toml::Value::Table(t.clone())) { "na" } else if t == reversed(&t) { "1" } else { "0" };
                format!("ok edit={} toml_sorted={} toml_iter={} print={} eq={eq}", canon_tbl(d.as_table()), toml_table(&t, true), toml_table(&t, false), printed)
            }
            (Err(_), Err(_)) => "err".into(),
            (a, b) => format!("mixed edit={} toml={}", a.is_ok(), b.is_ok()),
        }
    }
}

#[cfg(feature = "display")]
mod display_side {
    use super::*;
    /// build a document through the construction API: pairs (hexkey, kind, payload)
    pub fn build(parts: &[&str]) -> String {
        let mut doc = toml_edit::DocumentMut::new();
        let mut tv = toml::Table::new();
        let mut i = 0;
        while i + 2 < parts.len() {
            let key = String::from_utf8(unhex(parts[i])).unwrap();
            let kind = parts[i + 1];
            let payload = parts[i + 2];
            i += 3;
            match kind {
                "s" => {
                    let s = String::from_utf8(unhex(payload)).unwrap();
                    doc[&key] = toml_edit::value(s.clone());
                    tv.insert(key, toml::Value::String(s));
                }
                "i" => {
                    let n: i64 = payload.parse().unwrap();
                    doc[&key] = toml_edit::value(n);
                    tv.insert(key, toml::Value::Integer(n));
                }
                "f" => {
                    let f = f64::from_bits(u64::from_str_radix(payload, 16).unwrap());
                    doc[&key] = toml_edit::value(f);
                    tv.insert(key, toml::Value::Float(f));
                }
                "b" => {
                    doc[&key] = toml_edit::value(payload == "1");
                    tv.insert(key, toml::Value::Boolean(payload == "1"));
                }
                "a" => {
                    let mut a = toml_edit::Array::new();
                    let mut ta = vec![];
                    for x in payload.split(',').filter(|x| !x.is_empty()) {
                        let n: i64 = x.parse().unwrap();
                        a.push(n);
                        ta.push(toml::Value::Integer(n));
                    }
                    doc[&key] = toml_edit::value(a);
                    tv.insert(key, toml::Value::Array(ta));
                }
                "t" => {
                    let mut t = toml_edit::Table::new();
                    let mut tt = toml::Table::new();
                    for (j, x) in payload.split(',').filter(|x| !x.is_empty()).enumerate() {
                        let n: i64 = x.parse().unwrap();
                        t.insert(&format!("k{j}"), toml_edit::value(n));
                        tt.insert(format!("k{j}"), toml::Value::Integer(n));
                    }
                    doc[&key] = toml_edit::Item::Table(t);
                    tv.insert(key, toml::Value::Table(tt));
                }
                _ => panic!("kind"),
            }
        }
        format!("built edit={} toml={}", hex(doc.to_string().as_bytes()), hex(tv.to_string().as_bytes()))
    }
}

/// a serde map stream with a caller-chosen `size_hint` (what a length-prefixed binary format hands over)
mod hinted {
    use serde::de::{self, value::Error, DeserializeSeed, IntoDeserializer, MapAccess, Visitor};
    pub struct Stream {
        pub items: Vec<(String, i64)>,
        pub pos: usize,
        pub hint: Option<usize>,
    }
    impl<'de> MapAccess<'de> for Stream {
        type Error = Error;
        fn next_key_seed<K: DeserializeSeed<'de>>(&mut self, seed: K) -> Result<Option<K::Value>, Error> {
            match self.items.get(self.pos) {
                Some((k, _)) => seed.deserialize(k.clone().into_deserializer()).map(Some),
                None => Ok(None),
            }
        }
        fn next_value_seed<V: DeserializeSeed<'de>>(&mut self, seed: V) -> Result<V::Value, Error> {
            let v = self.items[self.pos].1;
            self.pos += 1;
            seed.deserialize(v.into_deserializer())
        }
        fn size_hint(&self) -> Option<usize> {
            self.hint
        }
    }
    pub struct De(pub Stream);
    impl<'de> de::Deserializer<'de> for De {
        type Error = Error;
        fn deserialize_any<V: Visitor<'de>>(self, visitor: V) -> Result<V::Value, Error> {
            visitor.visit_map(self.0)
        }
        serde::forward_to_deserialize_any! {
            bool i8 i16 i32 i64 i128 u8 u16 u32 u64 u128 f32 f64 char str string bytes byte_buf option unit unit_struct
            newtype_struct seq tuple tuple_struct map struct enum identifier ignored_any
        }
    }
}

fn main() {
    std::panic::set_hook(Box::new(|_| {}));
    let stdin = io::stdin();
    let mut out = io::BufWriter::new(io::stdout().lock());
    for line in stdin.lock().lines() {
        let line = line.unwrap();
        let p: Vec<&str> = line.trim_end().split(' ').collect();
        if p.is_empty() || p[0].is_empty() {
            continue;
        }
        let l = line.clone();
        let res = std::panic::catch_unwind(move || {
            let p: Vec<&str> = l.trim_end().split(' ').collect();
            match p[0] {
                "doc" => {
                    #[cfg(feature = "parse")]
                    {
                        match String::from_utf8(unhex(p[1])) {
                            Ok(t) => parse_side::doc(&t),
                            Err(_) => "err".to_string(),
                        }
                    }
                    #[cfg(not(feature = "parse"))]
                    {
                        "n/a".to_string()
                    }
                }
                "map" => {
                    // toml::Table as an ordered map: `map ins <k> <n>;rem <k>;…` -> iteration order at the end
                    let mut t = toml::Table::new();
                    let mut rets = vec![];
                    for op in l.trim_end()[4..].split(';') {
                        let q: Vec<&str> = op.split(' ').collect();
                        match q[0] {
                            "ins" => rets.push(match t.insert(q[1].to_string(), toml::Value::Integer(q[2].parse().unwrap())) {
                                Some(toml::Value::Integer(o)) => format!("v{o}"),
                                Some(_) => "v?".into(),
                                None => "none".into(),
                            }),
                            "rem" => rets.push(match t.remove(q[1]) {
                                Some(toml::Value::Integer(o)) => format!("v{o}"),
                                Some(_) => "v?".into(),
                                None => "none".into(),
                            }),
                            // the same removal / insertion through the Entry API and remove_entry, and retain
                            "erem" => rets.push(match t.entry(q[1].to_string()) {
                                toml::map::Entry::Occupied(o) => match o.remove() {
                                    toml::Value::Integer(o) => format!("v{o}"),
                                    _ => "v?".into(),
                                },
                                toml::map::Entry::Vacant(_) => "none".into(),
                            }),
                            "eins" => rets.push(match t.entry(q[1].to_string()).or_insert(toml::Value::Integer(q[2].parse().unwrap())) {
                                toml::Value::Integer(o) => format!("v{o}"),
                                _ => "v?".into(),
                            }),
                            "ret" => {
                                t.retain(|_, v| v.as_integer().unwrap_or(1) % 2 == 0);
                                rets.push("-".into());
                            }
                            _ => rets.push("bad".into()),
                        }
                    }
                    let it: Vec<String> = t.iter().map(|(k, v)| format!("{k}={}", v.as_integer().unwrap_or(-1))).collect();
                    // equality is about content, whatever the configuration: the same entries inserted in reverse order
                    let mut t2 = toml::Table::new();
                    let rev: Vec<(String, toml::Value)> = t.iter().map(|(k, v)| (k.clone(), v.clone())).collect();
                    for (k, v) in rev.into_iter().rev() {
                        t2.insert(k, v);
                    }
                    let eq = t == t2 && toml::Value::Table(t.clone()) == toml::Value::Table(t2);
                    format!("map rets={} iter={}{}", rets.join(","), it.join(","), if eq { "" } else { " EQ-DEPENDS-ON-ORDER" })
                }
                "hint" => {
                    // `hint <none|max|N> k v k v …`: toml::Table::deserialize from a serde stream with that size hint
                    let hint = match p[1] {
                        "none" => None,
                        "max" => Some(usize::MAX),
                        n => Some(n.parse().unwrap()),
                    };
                    let items: Vec<(String, i64)> = p[2..].chunks(2).map(|c| (c[0].to_string(), c[1].parse().unwrap())).collect();
                    match <toml::Table as serde::Deserialize>::deserialize(hinted::De(hinted::Stream { items, pos: 0, hint })) {
                        Ok(t) => {
                            let it: Vec<String> = t.iter().map(|(k, v)| format!("{k}={}", v.as_integer().unwrap_or(-1))).collect();
                            format!("hint ok iter={}", it.join(","))
                        }
                        Err(_) => "hint err".to_string(),
                    }
                }
                "build" => {
                    #[cfg(feature = "display")]
                    {
                        display_side::build(&p[1..])
                    }
                    #[cfg(not(feature = "display"))]
                    {
                        "n/a".to_string()
                    }
                }
                _ => "bad".to_string(),
            }
        });
        match res {
            Ok(s) => writeln!(out, "{s}").unwrap(),
            Err(_) => writeln!(out, "PANIC").unwrap(),
        }
    }
}
