"""vlib — shared machinery of the checks (see DESIGN.md section 2.2).

flow of every check:  translate -> lake build (table theorems + property theorems + driver)
-> axiom audit -> cargo build of the harness against /repo's working tree -> correspondence
(model driver vs implementation on the same case lines) + direct oracles -> evidence.
"""
import os, sys, re, json, time, subprocess, hashlib, random, shutil

ROOT = os.path.abspath(os.path.join(os.path.dirname(os.path.abspath(__file__)), ".."))
LEAN = os.path.join(ROOT, "lean")
HARNESS = os.path.join(ROOT, "harness")
WORK = os.path.join(ROOT, "work")
BUILD = os.path.join(ROOT, ".build")
REPO = os.environ.get("VERIF_REPO", "/repo")
ALLOWED_AXIOMS = {"propext", "Classical.choice", "Quot.sound"}
FORBIDDEN = re.compile(r"\bsorry\b|\badmit\b|^axiom |native_decide|bv_decide|implemented_by|unsafe |maxHeartbeats 0")

ENV = dict(os.environ)
ENV["CARGO_NET_OFFLINE"] = "true"


def sh(cmd, cwd=None, timeout=None, env=None, input=None):
    p = subprocess.run(cmd, cwd=cwd, env=env or ENV, input=input, capture_output=True, text=True, timeout=timeout)
    return p.returncode, p.stdout, p.stderr


class Ctx:
    def __init__(self, prop, tier, seed):
        self.prop = prop
        self.tier = tier
        self.seed = seed
        self.t0 = time.time()
        self.rng = random.Random((seed << 8) ^ int(prop[1:]))
        self.obligations = []      # (name, ok, detail)
        self.violations = []       # dicts
        self.known_hits = []
        self.cov = {}
        self.assumptions = []
        self.notes = []
        os.makedirs(WORK, exist_ok=True)
        os.makedirs(os.path.join(ROOT, "evidence"), exist_ok=True)
        self.known = load_known(prop)

    # ---- obligations -------------------------------------------------------------------
    def oblige(self, name, ok, detail=""):
        self.obligations.append((name, bool(ok), detail))

    @property
    def broken(self):
        return [(n, d) for (n, ok, d) in self.obligations if not ok]

    # ---- reporting ---------------------------------------------------------------------
    def violation(self, what, replay, concrete=True):
        """register a violation; `replay` is a JSON-able dict. Known findings are filtered."""
        key = replay.get("witness")
        for k in self.known:
            if k.get("status") == "known" and key is not None and k.get("witness") == key:
                if k["id"] not in [h["id"] for h in self.known_hits]:
                    self.known_hits.append(k)
                return
        self.violations.append({"what": what, "replay": replay, "concrete": concrete})

    def finish(self, level="proof"):
        wall = time.time() - self.t0
        ob = len(self.obligations)
        dis = sum(1 for (_, ok, _) in self.obligations if ok)
        cov = dict(self.cov)
        cov.setdefault("obligations", ob)
        cov.setdefault("discharged", dis)
        cov.setdefault("checker_cmd", "lake build (Lean 4.33.0 kernel) + `#print axioms` audit via tools/check.py")
        cov.setdefault("trusted_base", [
            "Lean 4.33.0 kernel; axioms limited to propext, Classical.choice, Quot.sound (audited per theorem)",
            "tools/translate.py (regex reader of Rust consts/match arms) — its output is re-proved equal to Spec tables by decide +kernel",
            "hand-written model control flow tied to /repo by the differential correspondence run below",
        ])
        cov["obligation_list"] = [{"name": n, "ok": ok, **({"detail": d[:400]} if d and not ok else {})} for (n, ok, d) in self.obligations]
        cov["notes"] = self.notes
        ev = {
            "property_id": self.prop, "tier": self.tier, "seed": self.seed, "level": level,
            "coverage": cov, "assumptions": self.assumptions, "wall_s": round(wall, 2),
            "violations": len(self.violations),
        }
        with open(os.path.join(ROOT, "evidence", f"{self.prop}.json"), "w") as f:
            json.dump(ev, f, indent=1, sort_keys=True)
            f.write("\n")
        for k in self.known_hits:
            print(f"KNOWN-FINDING: property={self.prop} {k['id']}: {k['what']}")
        if not self.violations:
            print(f"OK property={self.prop} tier={self.tier} seed={self.seed} obligations={dis}/{ob} wall={wall:.1f}s")
            return 0
        # one replay file per run, all violations inside, first one is the headline
        os.makedirs(os.path.join(WORK, "replay"), exist_ok=True)
        path = os.path.join(WORK, "replay", f"{self.prop}-{self.tier}-{self.seed}.json")
        self.violations.sort(key=lambda v: (not v["concrete"], len(str(v["replay"].get("witness", "")))))
        concrete = [v for v in self.violations if v["concrete"]]
        head = (concrete or self.violations)[0]
        with open(path, "w") as f:
            json.dump({"property": self.prop, "tier": self.tier, "seed": self.seed,
                       "headline": head, "all": self.violations[:50],
                       "replay_cmd": f"python3 tools/check.py {self.prop} --replay {path}"}, f, indent=1)
        tail = "" if concrete else " no-failing-input-found"
        for v in self.violations[:5]:
            print(f"  violation: {v['what']}")
        print(f"VIOLATION property={self.prop} replay={path}{tail}")
        return 1


def load_known(prop):
    p = os.path.join(ROOT, "known_findings.json")
    if not os.path.exists(p):
        return []
    with open(p) as f:
        data = json.load(f)
    return [e for e in data.get("findings", []) if e.get("property") == prop]


# ------------------------------------------------------------------------------------------
# tie 1: translator + lake build + audit
# ------------------------------------------------------------------------------------------

def translate(ctx):
    rc, out, err = sh([sys.executable, os.path.join(ROOT, "tools", "translate.py")])
    ctx.oblige("translate: every pinned source shape of /repo is readable", rc == 0, err.strip())
    return rc == 0, err.strip()


def lake_build(ctx, modules, what):
    """build modules (list of lake targets); each is one obligation group. Returns dict mod->ok"""
    res = {}
    rc, out, err = sh(["lake", "build"] + modules, cwd=LEAN, timeout=3000)
    text = out + err
    if rc == 0:
        for m in modules:
            res[m] = (True, "")
    else:
        # find out which targets fail on their own
        for m in modules:
            rc1, o1, e1 = sh(["lake", "build", m], cwd=LEAN, timeout=3000)
            t1 = o1 + e1
            errs = "\n".join(l for l in t1.split("\n") if l.startswith("error:") or "✖" in l)
            res[m] = (rc1 == 0, (errs + "\n" + t1[-1500:]) if rc1 != 0 else "")
    for m in modules:
        ctx.oblige(f"lake build {m} ({what.get(m, 'kernel-checked')})", res[m][0], res[m][1])
    return res, text


def theorem_names(lean_rel):
    p = os.path.join(LEAN, lean_rel)
    src = open(p).read()
    ns = re.search(r"^namespace\s+(\S+)", src, re.M)
    prefix = ns.group(1) + "." if ns else ""
    return [prefix + n for n in re.findall(r"^theorem\s+([A-Za-z0-9_'.]+)", src, re.M)]


def extra_props(ctx, names):
    """further property-theorem modules of the same property (Props/<name>.lean): build + axiom audit each"""
    for n in names:
        if os.path.exists(os.path.join(LEAN, "TomlVerif", "Props", n + ".lean")):
            lake_build(ctx, [f"TomlVerif.Props.{n}"], {f"TomlVerif.Props.{n}": "property theorems"})
            audit(ctx, f"TomlVerif.Props.{n}", f"TomlVerif/Props/{n}.lean")
            if ctx.tier == "thorough":
                leanchecker(ctx, f"TomlVerif.Props.{n}")
        else:
            ctx.oblige(f"property theorems TomlVerif.Props.{n}", False, "module missing")


def audit(ctx, module, lean_rel):
    """#print axioms for every theorem of a Props file; forbidden-word grep over the project."""
    names = theorem_names(lean_rel)
    os.makedirs(os.path.join(WORK, "audit"), exist_ok=True)
    f = os.path.join(WORK, "audit", module.split(".")[-1] + ".lean")
    with open(f, "w") as fh:
        fh.write(f"import {module}\n" + "".join(f"#print axioms {n}\n" for n in names))
    rc, out, err = sh(["lake", "env", "lean", f], cwd=LEAN, timeout=1200)
    text = out + err
    seen = {}
    for m in re.finditer(r"'(\S+)' depends on axioms: \[([^\]]*)\]", text, re.S):
        seen[m.group(1)] = {a.strip() for a in m.group(2).replace("\n", " ").split(",") if a.strip()}
    for m in re.finditer(r"'(\S+)' does not depend on any axioms", text):
        seen[m.group(1)] = set()
    axioms_used = set()
    for n in names:
        if n not in seen:
            ctx.oblige(f"theorem {n}", False, "not found by #print axioms: " + text[-500:])
        else:
            extra = seen[n] - ALLOWED_AXIOMS
            axioms_used |= seen[n]
            ctx.oblige(f"theorem {n} (axioms: {', '.join(sorted(seen[n])) or 'none'})", not extra, f"extra axioms {extra}")
    # forbidden words
    bad = []
    for dp, dn, fns in os.walk(LEAN):
        if ".lake" in dp:
            continue
        for fn in fns:
            if fn.endswith(".lean"):
                src = open(os.path.join(dp, fn)).read()
                src_nc = re.sub(r"/-.*?-/", "", src, flags=re.S)
                src_nc = re.sub(r"--.*", "", src_nc)
                for ln in src_nc.split("\n"):
                    if FORBIDDEN.search(ln):
                        bad.append(f"{fn}: {ln.strip()[:80]}")
    ctx.oblige("no sorry/admit/axiom/native_decide/bv_decide/implemented_by/unsafe in lean/", not bad, "; ".join(bad[:5]))
    ctx.cov["axioms_used"] = sorted(axioms_used)
    return names


def leanchecker(ctx, module):
    rc, out, err = sh(["lake", "env", "leanchecker", module], cwd=LEAN, timeout=3000)
    ctx.oblige(f"leanchecker {module}", rc == 0, (out + err)[-500:])


# ------------------------------------------------------------------------------------------
# tie 2: harness + driver
# ------------------------------------------------------------------------------------------

def cargo_build(ctx, features=(), release=False, no_default=False):
    args = ["cargo", "build", "--offline"]
    if release:
        args.append("--release")
    if features:
        args += ["--features", ",".join(features)]
    # keep Cargo.lock in step with /repo
    try:
        shutil.copyfile(os.path.join(REPO, "Cargo.lock"), os.path.join(HARNESS, "Cargo.lock"))
    except OSError:
        pass
    tdir = os.path.join(BUILD, "cargo_po" if "preserve_order" in features else "cargo")
    env = dict(ENV, CARGO_TARGET_DIR=tdir)
    rc, out, err = sh(args, cwd=HARNESS, timeout=3000, env=env)
    ok = rc == 0
    ctx.oblige("cargo build harness against /repo working tree" + (f" [{','.join(features)}]" if features else "") + (" [release]" if release else ""), ok, err[-2000:])
    return os.path.join(tdir, "release" if release else "debug", "tvh") if ok else None


def driver_path():
    return os.path.join(LEAN, ".lake", "build", "bin", "driver")


def run_lines(binary, mode, lines, timeout=1800):
    data = "\n".join(lines) + "\n"
    p = subprocess.run([binary, mode], input=data, capture_output=True, text=True, timeout=timeout)
    out = p.stdout.split("\n")
    if out and out[-1] == "":
        out.pop()
    return p.returncode, out, p.stderr


def run_pair(ctx, tvh, mode, cases, driver_mode=None):
    """run implementation and model on the same cases; returns (impl_out, model_out).
    If the harness process dies (abort, stack overflow) the killing case is marked CRASH and the
    rest of the cases are run in a fresh process."""
    impl = []
    start = 0
    crashes = []
    while start < len(cases):
        rc1, out, e1 = run_lines(tvh, mode, cases[start:])
        impl += out
        if rc1 == 0 and len(impl) == len(cases):
            break
        if len(impl) >= len(cases):
            break
        bad = cases[len(impl)]
        crashes.append((bad, e1[-300:]))
        impl.append("CRASH")
        start = len(impl)
        if len(crashes) > 200:
            impl += ["CRASH"] * (len(cases) - len(impl))
            break
    if crashes:
        ctx.oblige(f"harness {mode}: every case returns", False, f"{len(crashes)} crashing cases; first: {crashes[0][0][:200]} {crashes[0][1]}")
    rc2, model, e2 = run_lines(driver_path(), driver_mode or mode, cases)
    if not (rc2 == 0 and len(model) == len(cases)):
        ctx.oblige(f"driver {mode}: every case returns", False, f"rc={rc2} {e2[-300:]} lines={len(model)}/{len(cases)}")
        model = model + ["DRIVER-CRASH"] * (len(cases) - len(model))
    return impl, model


def regression_lines(ctx, tvh, modes, compare=None, suffix="", cut=None, driver_mode=None):
    """the committed probe corpus corpus/lines/<mode>.txt (cases written while reviewing the models against the
    sources, one case line per line): model driver = implementation on every line, no panic. `compare(i, m)` may
    return a description of a mismatch (default: the lines must be equal)."""
    total = 0
    for mode in modes:
        import gzip
        path = os.path.join(ROOT, "corpus", "lines", mode + suffix + ".txt.gz")
        if not os.path.exists(path):
            continue
        cases = [l.rstrip("\n") for l in gzip.open(path, "rt") if l.strip()]
        if not cases:
            continue
        impl, model = run_pair(ctx, tvh, {"doc_long": "doc"}.get(mode, mode), cases, driver_mode=driver_mode)
        nd, first = 0, None
        for c, i, m in zip(cases, impl, model):
            if i.startswith("PANIC") or i == "CRASH":
                ctx.violation(f"probe corpus {mode}: {c[:120]}: {i[:160]}", {"mode": mode, "case": c, "impl": i[:2000], "model": m[:2000], "witness": c})
                continue
            if cut:
                i = cut(i)
            mm = compare(i, m) if compare else (None if i == m else "lines differ")
            if mm:
                nd += 1
                if first is None or len(c) < len(first[0]):
                    first = (c[:300], i[:200], m[:200], mm)
        total += len(cases)
        ctx.oblige(f"probe corpus {mode}{suffix}: model driver = implementation on {len(cases)} reviewed cases", nd == 0, f"{nd} disagreements; shortest: {first}")
    ctx.cov["probe_corpus_lines"] = ctx.cov.get("probe_corpus_lines", 0) + total


def bisect_crash(tvh, mode, cases):
    lo, hi = 0, len(cases)
    rc, out, _ = run_lines(tvh, mode, cases)
    if rc == 0 and len(out) == len(cases):
        return None
    idx = len(out)
    if idx < len(cases):
        rc, out, _ = run_lines(tvh, mode, [cases[idx]])
        if rc != 0 or len(out) != 1:
            return cases[idx]
    return cases[idx] if idx < len(cases) else None


def h(b):
    if isinstance(b, str):
        b = b.encode("utf-8")
    return b.hex() if b else "-"


def unh(s):
    return b"" if s == "-" else bytes.fromhex(s)


def digest(s):
    return hashlib.sha1(s.encode()).hexdigest()[:16]


def ddmin(items, fails, max_steps=2000):
    """delta debugging over a list; `fails(list)` -> True if still failing"""
    n = 2
    steps = 0
    while len(items) >= 2 and steps < max_steps:
        chunk = max(1, len(items) // n)
        reduced = False
        for i in range(0, len(items), chunk):
            cand = items[:i] + items[i + chunk:]
            steps += 1
            if cand and fails(cand):
                items = cand
                n = max(n - 1, 2)
                reduced = True
                break
        if not reduced:
            if chunk == 1:
                break
            n = min(n * 2, len(items))
    return items
