#!/bin/sh
# run every claimed check (quick tier) on the current tree; prints one line per property
cd "$(dirname "$0")/.."
for p in $(python3 -c "import json;print(' '.join(c['property_id'] for c in json.load(open('MANIFEST.json'))['checks']))"); do
  python3 tools/check.py $p --tier ${1:-quick} 2>&1 | grep -E "^(OK|VIOLATION)" | cut -c1-160
done
