#!/usr/bin/env python3
"""gen_macro_arms.py — rewrite lean/TomlVerif/Model/MacroArms.lean (the model's PINNED copy of `toml_internal!`,
`toml!` and the helper functions of crates/toml/src/macros.rs) from /repo's working tree.

Run this ONLY after reviewing Model/Macro.lean against an edit of macros.rs: Gen/CheckMacro.lean proves that
what tools/translate.py reads from /repo equals this pinned copy, so regenerating it blindly defeats the tie.
`headerFnName` (the helper the `[table]` header arm calls) selects the model's header behaviour: `insert_toml`
assigns an empty table (defect F8); any other name is taken to be the repair that keeps an existing table."""
import os, re, sys
sys.path.insert(0, os.path.dirname(os.path.abspath(__file__)))
import translate

IMPL = {"@toplevel": "toplevel (key arms: keyPath, rewriteSignTop, firstDt [] · dtArms, value; header arms: headerPath, pushToml / headerTable)",
        "@topleveldatetime": "toplevel → dtValue, insertToml", "@path": "pathStr", "@value": "value / parenValue / litValue",
        "@table": "table (keyPath, rewriteSignComma, firstDt comma · dtArms, value)", "@tabledatetime": "table → dtValue, insertToml",
        "@array": "array (rewriteSignComma, firstDt comma · dtArms, value)", "@arraydatetime": "array → dtValue",
        "@trailingcomma": "withComma"}
HEADER_PAT = "(@toplevel $root:ident $oldpath:tt [$($($path:tt)-+).+] $($rest:tt)*)"


def main():
    info = translate.main()
    arms, helpers = info["macroArms"], info["macroHelpers"]
    hdr = [a for a in arms if a.startswith(HEADER_PAT + " => ")]
    if len(hdr) != 1:
        sys.exit("table-header arm not found")
    m = re.search(r"\$crate::macros::(\w+)", hdr[0])
    if not m:
        sys.exit("table-header arm calls no helper")
    out = []
    w = out.append
    w("/-! The model's pinned copy of `toml_internal!`: every arm in SOURCE ORDER (`pattern => expansion`, blanks")
    w("    normalised), the `toml!` macro and the functions of crates/toml/src/macros.rs, as they were when")
    w("    Model/Macro.lean was written and validated. Gen/CheckMacro.lean proves that tools/translate.py still reads")
    w("    exactly this text from /repo; a re-ordered, added, removed or edited arm or helper breaks that theorem, and")
    w("    the model has to be reviewed before this copy is regenerated (tools/gen_macro_arms.py). Implemented by")
    w("    (Model/Macro.lean):")
    for k, v in IMPL.items():
        w(f"      {k:18} {v}")
    w("-/")
    w("namespace TomlVerif.Model.Macro")
    w("")
    w("def armHeads : List String := [")
    last = None
    for i, a in enumerate(arms):
        st = re.match(r"\((@\w+)", a).group(1)
        if st != last:
            w(f"  -- {st}")
            last = st
        w("  " + translate.lean_str(a) + ("," if i < len(arms) - 1 else ""))
    w("]")
    w("")
    w("def helperSrc : List String := [")
    w(",\n".join("  " + translate.lean_str(h) for h in helpers))
    w("]")
    w("")
    w("/-- the helper the `[table]` header arm calls; `insert_toml` assigns an EMPTY table (defect F8) -/")
    w(f'def headerFnName : String := "{m.group(1)}"')
    w("")
    w("/-- does the `[table]` header arm keep an existing table? (`insert_toml` does not) -/")
    w('def headerKeeps : Bool := headerFnName != "insert_toml"')
    w("")
    w("end TomlVerif.Model.Macro")
    path = os.path.join(os.path.dirname(translate.OUT), "..", "Model", "MacroArms.lean")
    with open(path, "w") as f:
        f.write("\n".join(out) + "\n")
    print(f"{len(arms)} arms, {len(helpers)} helpers, header helper {m.group(1)} -> {os.path.normpath(path)}")


if __name__ == "__main__":
    main()
