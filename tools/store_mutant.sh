#!/bin/sh
# store_mutant.sh <worktree> <id> <property> <demo file> <needs_to_manifest> <confirmed> [also_run comma list]
W=$1; ID=$2; P=$3; DEMO=$4; NEEDS=$5; CONF=$6; ALSO=$7
D=/verif/seeded/$ID; mkdir -p $D
git -C $W diff > $D/patch.diff
cp $DEMO $D/
python3 - "$ID" "$P" "$(basename $DEMO)" "$NEEDS" "$CONF" "$ALSO" > $D/meta.json <<'PY'
import sys, json
i, p, d, n, c, a = sys.argv[1:7]
print(json.dumps({"id": i, "property": p, "demo": d, "needs_to_manifest": n, "confirmed": c, "also_run": [x for x in a.split(",") if x],
                  "source": "fresh sub-agent (fourth round) given only the property text, the list of ideas already used, and a scratch worktree"}, indent=1))
PY
wc -l $D/patch.diff
