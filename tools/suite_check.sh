#!/bin/sh
# suite_check.sh <id-dir> : apply seeded patch in a scratch worktree, run the existing suite, print pass/fail counts
D=$1; W=/tmp/sc_$(basename $D)
git -C /repo worktree add --detach $W HEAD -q || exit 2
cd $W && git apply $D/patch.diff || { echo "patch does not apply"; exit 2; }
CARGO_TARGET_DIR=/tmp/sc_target cargo test --workspace --no-fail-fast --offline 2>&1 | grep -E "^test result|FAILED|failed" | awk '/test result/ {p+=$4; f+=$6} !/test result/ {print} END {print "passed",p,"failed",f}'
cd /; git -C /repo worktree remove --force $W
