"""docgen — grammar-directed generator of TOML 1.0.0 documents in every lexical variant,
with the *intended* decoded tree (the generator's `sem`), plus mutation streams.

Values are python data: ('s', bytes) ('i', int) ('f', bits) ('b', bool) ('d', canon) list dict(bytes->value).
`plain(v)` gives the canonical one-line form used by the harness and the Lean driver (sorted tables).
"""
import struct, random


def hx(b):
    return b.hex() if b else "-"


def plain(v):
    if isinstance(v, dict):
        return "{" + ";".join(f"{hx(k)}={plain(x)}" for k, x in sorted(v.items())) + "}"
    if isinstance(v, list):
        return "[" + ";".join(plain(x) for x in v) + "]"
    t, x = v
    if t == "s":
        return "s" + hx(x)
    if t == "i":
        return f"i{x}"
    if t == "f":
        return "f%016x" % x
    if t == "b":
        return "b1" if x else "b0"
    if t == "d":
        return "d" + x
    raise ValueError(v)


class Gen:
    def __init__(self, rng, hist=None):
        self.r = rng
        self.hist = hist if hist is not None else {}
        self.ml_tokens = []
        self.comments = []
        self.kv_paths = []
        self.meta = {}
        self.spell = {}
        self.respelled = False
        self.inline_nonadjacent = False

    def hit(self, k):
        self.hist[k] = self.hist.get(k, 0) + 1

    # ---------------- trivia
    def ws(self, maxn=2):
        return "".join(self.r.choice(" \t") for _ in range(self.r.choice([0, 0, 1, 1, maxn])))

    def nl(self):
        return self.r.choice(["\n", "\n", "\n", "\r\n"])

    def comment(self):
        body = "".join(self.r.choice(["a", " ", "#", "\t", "é", "\"", "'", "=", "[", "😀", "\\", "~"]) for _ in range(self.r.randrange(0, 6)))
        self.hit("comment")
        self.comments.append("#" + body)
        return "#" + body

    def wcn(self):
        """ws / comment / newline runs (inside arrays)"""
        out = ""
        for _ in range(self.r.choice([0, 0, 1, 1, 2, 3])):
            c = self.r.randrange(4)
            if c == 0:
                out += self.ws(3)
            elif c == 1:
                out += self.nl()
            elif c == 2:
                out += self.ws() + self.comment() + self.nl()
            else:
                out += " "
        return out

    # ---------------- strings
    POOL = ["a", "b", "Z", "0", " ", "\t", "\n", "\r", "\"", "'", "\\", "#", "é", "ß", "€", "😀", "\x00", "\x01", "\x1f", "\x7f", "\x08", "\x0c",
            "=", ".", "[", "]", "{", "}", ",", "-", "_", "\ud7ff", "\ue000", "\U0010ffff", "\u0080", "\u2028", "\ufeff", "x" * 7]

    def content(self):
        n = self.r.choice([0, 1, 2, 3, 5, 8, 13])
        s = "".join(self.r.choice(self.POOL) for _ in range(n))
        if self.r.random() < 0.15:
            s += self.r.choice(['"', '""', "'", "''", '"""', "'''", "\\", "\n", "\r\n"])
        if self.r.random() < 0.1:
            s = self.r.choice(["\n", "\r\n", '"', "'"]) + s
        return s

    def esc_char(self, ch, ml):
        """a spelling of one character inside a (ml) basic string"""
        o = ord(ch)
        short = {8: "\\b", 9: "\\t", 10: "\\n", 12: "\\f", 13: "\\r", 34: '\\"', 92: "\\\\"}
        opts = []
        raw_ok = (o == 9 or 0x20 <= o <= 0x7e or o >= 0x80) and ch not in '"\\'
        if raw_ok:
            opts += ["raw"] * 6
        if o in short:
            opts += ["short"] * 3
        opts.append("u4" if o <= 0xffff else "u8")
        opts.append("u8")
        k = self.r.choice(opts)
        self.hit("esc:" + k)
        if k == "raw":
            return ch
        if k == "short":
            return short[o]
        hexs = self.r.choice(["%04X", "%04x"]) if k == "u4" else self.r.choice(["%08X", "%08x"])
        return ("\\u" if k == "u4" else "\\U") + hexs % o

    def string(self, s=None, key=False):
        """returns (text, decoded bytes)"""
        if s is None:
            s = self.content()
        kinds = ["basic"]
        lit_ok = all((c == "\t" or 0x20 <= ord(c) <= 0x7e or ord(c) >= 0x80) and c != "'" for c in s)
        if lit_ok:
            kinds += ["literal"] * 2
        if not key:
            kinds += ["mlbasic"] * 2
            mll_ok = all((c in "\t\n" or 0x20 <= ord(c) <= 0x7e or ord(c) >= 0x80) for c in s) and "'''" not in s and "\r" not in s
            if mll_ok:
                kinds += ["mlliteral"] * 2
        k = self.r.choice(kinds)
        self.hit("str:" + k)
        dec = s.encode("utf-8")
        if k == "basic":
            return '"' + "".join(self.esc_char(c, False) for c in s) + '"', dec
        if k == "literal":
            return "'" + s + "'", dec
        if k == "mlbasic":
            out = '"""'
            body = ""
            i = 0
            run = 0
            # a leading newline of the content must be protected by an extra newline or escaped
            if s[:1] == "\n" or s[:2] == "\r\n" or self.r.random() < 0.3:
                out += self.nl()
                self.hit("ml:firstnl")
            after_cont = False
            while i < len(s):
                c = s[i]
                if after_cont and c in " \t\n":
                    # whitespace right after a line continuation would be trimmed: spell it as an escape
                    t = {" ": "\\u0020", "\t": "\\t", "\n": "\\n"}[c]
                    run = 0
                elif c == "\n":
                    t = self.r.choice(["\n", "\n", "\r\n", "\\n"])
                    run = 0
                elif c == "\r":
                    t = self.r.choice(["\\r", "\\u000D"])
                    run = 0
                elif c == '"':
                    if run < 2 and self.r.random() < 0.7:
                        t = '"'
                        run += 1
                    else:
                        t = '\\"'
                        run = 0
                else:
                    t = self.esc_char(c, True)
                    run = 0
                body += t
                i += 1
                after_cont = False
                if self.r.random() < 0.08:
                    # line continuation: contributes nothing
                    body += "\\" + self.ws(2) + self.nl() + "".join(self.r.choice([" ", "\t", "\n", "\r\n"]) for _ in range(self.r.randrange(0, 3)))
                    run = 0
                    after_cont = True
                    self.hit("ml:linecont")
            # the body may end in up to two raw quotes: already handled by run counting
            self.ml_tokens.append(out + body + '"""')
            return out + body + '"""', dec
        # mlliteral
        out = "'''"
        if s[:1] == "\n" or self.r.random() < 0.3:
            out += self.nl()
            self.hit("ml:firstnl")
        body = s
        if self.r.random() < 0.3:
            body = body.replace("\n", "\r\n")
        self.ml_tokens.append(out + body + "'''")
        return out + body + "'''", dec

    def key(self, k=None):
        """simple key: (text, decoded bytes)"""
        if k is None:
            k = self.r.choice(["a", "b", "c", "key", "k-1", "_x", "1", "1979-05-27", "true", "inf", "", " ", "a.b", "é", "a b", '"', "'", "😀", "\n", "0x1", "-", "3.14"])
        bare_ok = k != "" and all(c.isascii() and (c.isalnum() or c in "-_") for c in k)
        if bare_ok and self.r.random() < 0.6:
            self.hit("key:bare")
            return k, k.encode()
        t, d = self.string(k, key=True)
        self.hit("key:quoted")
        return t, d

    # ---------------- scalars
    def integer(self):
        v = self.r.choice([0, 1, -1, 7, 42, 255, 2**31, 2**63 - 1, -2**63, self.r.getrandbits(self.r.choice([4, 16, 40, 63])), -self.r.getrandbits(self.r.choice([4, 16, 40, 63]))])
        def us(t):
            if len(t) > 1 and self.r.random() < 0.4:
                i = self.r.randrange(1, len(t))
                t = t[:i] + "_" + t[i:]
                self.hit("int:underscore")
            return t
        base = self.r.choice([10, 10, 10, 16, 8, 2]) if v >= 0 else 10
        self.hit(f"int:base{base}")
        if base == 10:
            return self.r.choice(["", "", "+"] if v >= 0 else ["-"]) + us(str(abs(v))) if v != -2**63 else "-" + us(str(2**63)), ("i", v)
        if base == 16:
            return "0x" + us(self.r.choice(["%x", "%X"]) % v), ("i", v)
        if base == 8:
            return "0o" + us("%o" % v), ("i", v)
        return "0b" + us(bin(v)[2:]), ("i", v)

    def float(self):
        c = self.r.randrange(10)
        if c == 0:
            t = self.r.choice(["inf", "+inf", "-inf", "nan", "+nan", "-nan"])
            self.hit("float:special")
            bits = {"inf": 0x7ff0000000000000, "+inf": 0x7ff0000000000000, "-inf": 0xfff0000000000000,
                    "nan": 0x7ff8000000000000, "+nan": 0x7ff8000000000000, "-nan": 0xfff8000000000000}[t]
            return t, ("f", bits)
        mant = str(self.r.getrandbits(self.r.choice([3, 10, 30, 53, 70])))
        k = self.r.randrange(1, len(mant) + 1)
        ip, fp = mant[:k], mant[k:]
        if len(ip) > 1:
            ip = ip.lstrip("0") or "0"
        t = ip
        shape = self.r.choice(["frac", "exp", "fracexp"])
        if shape != "exp":
            fp = fp or str(self.r.randrange(10))
            if len(fp) > 1 and self.r.random() < 0.3:
                fp = fp[:1] + "_" + fp[1:]
            t += "." + fp
        if shape != "frac":
            e = self.r.choice([0, 1, -1, 5, -5, 20, -20, 300, -300, self.r.randrange(-320, 300)])
            t += self.r.choice(["e", "E"]) + self.r.choice(["", "+"] if e >= 0 else ["-"]) + self.r.choice(["", "0"]) + str(abs(e))
        t = self.r.choice(["", "", "+", "-"]) + t
        self.hit("float:" + shape)
        f = float(t.replace("_", ""))
        if f in (float("inf"), float("-inf")):
            return "1.5", ("f", 0x3ff8000000000000)
        return t, ("f", struct.unpack("<Q", struct.pack("<d", f))[0])

    def datetime(self):
        y, mo = self.r.choice([0, 1979, 2000, 2024, 9999]), self.r.randrange(1, 13)
        dim = 29 if (mo == 2 and y % 4 == 0 and (y % 100 != 0 or y % 400 == 0)) else 28 if mo == 2 else 30 if mo in (4, 6, 9, 11) else 31
        d = self.r.randrange(1, dim + 1)
        h, mi, se = self.r.randrange(24), self.r.randrange(60), self.r.choice([0, 59, 60, self.r.randrange(61)])
        frac = self.r.choice(["", "", ".5", ".123", ".000000001", ".999999999", ".1234567899", ".0", ".000"])
        ns = int((frac[1:] or "0")[:9].ljust(9, "0"))
        kind = self.r.choice(["odt", "ldt", "ld", "lt"])
        self.hit("dt:" + kind)
        date = f"{y:04}-{mo:02}-{d:02}"
        time = f"{h:02}:{mi:02}:{se:02}{frac}"
        if kind == "ld":
            return date, ("d", f"{y}-{mo}-{d}|-|-")
        if kind == "lt":
            return time, ("d", f"-|{h}:{mi}:{se}:{ns}|-")
        delim = self.r.choice(["T", "t", " "])
        if kind == "ldt":
            return date + delim + time, ("d", f"{y}-{mo}-{d}|{h}:{mi}:{se}:{ns}|-")
        oh, om, sg = self.r.randrange(24), self.r.randrange(60), self.r.choice("+-")
        off, oc = self.r.choice([("Z", "Z"), ("z", "Z"), (f"{sg}{oh:02}:{om:02}", str((1 if sg == "+" else -1) * (oh * 60 + om)))])
        return date + delim + time + off, ("d", f"{y}-{mo}-{d}|{h}:{mi}:{se}:{ns}|{oc}")

    def scalar(self):
        c = self.r.randrange(10)
        if c < 3:
            t, d = self.string()
            return t, ("s", d)
        if c < 5:
            return self.integer()
        if c < 7:
            return self.float()
        if c < 8:
            b = self.r.random() < 0.5
            self.hit("bool")
            return ("true" if b else "false"), ("b", b)
        return self.datetime()

    # ---------------- containers
    def value(self, depth=0):
        c = self.r.randrange(10)
        if depth < 3 and c == 0:
            return self.array(depth)
        if depth < 3 and c == 1:
            return self.inline(depth)
        return self.scalar()

    def array(self, depth):
        n = self.r.choice([0, 0, 1, 2, 3])
        self.hit("array")
        if n == 0:
            return "[" + self.wcn() + "]", []
        parts, vals = [], []
        for _ in range(n):
            t, v = self.value(depth + 1)
            parts.append(self.wcn() + t + self.wcn())
            vals.append(v)
        txt = "[" + ",".join(parts)
        if self.r.random() < 0.3:
            txt += "," + self.wcn()
            self.hit("array:trailingcomma")
        return txt + "]", vals

    def inline(self, depth):
        self.hit("inline")
        n = self.r.choice([0, 1, 2, 3])
        tree = {}
        parts = []
        spell = {}
        order = []
        for _ in range(n):
            node = tree
            ok = True
            plen = self.r.choice([1, 1, 1, 2, 3])
            names = [self.r.choice(["a", "b", "k", "x y", "", "1", "é"]) for _ in range(plen)]
            path = [x.encode() for x in names]
            created = []
            for kd in path[:-1]:
                ent = node.get(kd)
                if ent is None:
                    ent = ("dotted", {})
                    created.append((node, kd, ent))
                elif not (isinstance(ent, tuple) and ent[0] == "dotted"):
                    ok = False
                    break
                node = ent[1]
            if not ok or path[-1] in node:
                continue
            for (c, kd, ent) in created:
                c[kd] = ent
            t, v = self.value(depth + 1)
            node[path[-1]] = v
            if plen > 1:
                self.hit("inline:dotted")
            ids = [tuple(names[: i + 1]) for i in range(plen)]
            order.append((0, tuple(path)))
            parts.append(self.ws() + self.render_path(ids, names, False, spell) + "=" + self.ws() + t + self.ws())
        if not adjacent_dotted(order):
            self.inline_nonadjacent = True
        def strip(n):
            return {k: (strip(v[1]) if isinstance(v, tuple) and v[0] == "dotted" else v) for k, v in n.items()}
        if not parts:
            return "{" + self.ws() + "}", {}
        return "{" + ",".join(parts) + "}", strip(tree)

    def render_path(self, abs_ids, path, names_table_last, spell=None):
        """text of a dotted path (header or key). Segments that name tables are remembered: toml_edit
        keeps one Key per table entry, so a later occurrence prints with the spelling and inner
        whitespace of the first one (known finding F15); `self.respelled` records when that matters."""
        if spell is None:
            spell = self.spell
        parts = []
        n = len(path)
        for i, seg in enumerate(path):
            ap = abs_ids[i]
            is_tbl = i < n - 1 or names_table_last
            rec = spell.get(ap) if is_tbl else None
            if rec is not None and self.r.random() < 0.9:
                kt, pre, post = rec[0], "", ""
            else:
                kt = self.key(seg)[0]
                pre = self.ws() if self.r.random() < 0.15 else ""
                post = self.ws() if self.r.random() < 0.15 else ""
            if is_tbl:
                if rec is None:
                    spell[ap] = (kt, pre, post)
                else:
                    free_pre = (i == 0 and i < n - 1)
                    if kt != rec[0] or rec[1] or rec[2] or post or (pre and not free_pre):
                        self.respelled = True
            parts.append(pre + kt + post)
        return ".".join(parts)

    # ---------------- documents
    def document(self):
        """(text, plain tree dict) of a valid document"""
        r = self.r
        out = ""
        self.ml_tokens = []
        self.comments = []
        self.kv_paths = []
        self.spell = {}
        self.respelled = False
        self.inline_nonadjacent = False
        sect_no = [0]
        cur_abs = [()]
        if r.random() < 0.05:
            out += "\ufeff"
            self.hit("bom")
        tree = {}
        KEYS = ["a", "b", "c", "d", "k", "t", "x1", "é", "a b", "", "1", "true"]

        def blank():
            s = ""
            for _ in range(r.choice([0, 0, 0, 1, 2])):
                s += r.choice([self.ws() + self.nl(), self.ws() + self.comment() + self.nl()])
            return s

        def emit_kv(node, section_dotted):
            """one key/value line into dict `node`; may use a dotted key"""
            nonlocal out
            plen = r.choice([1, 1, 1, 1, 2, 3])
            names = [r.choice(KEYS) for _ in range(plen)]
            path = [n.encode() for n in names]
            cur = node
            created = []
            for kd in path[:-1]:
                ent = cur.get(kd)
                if ent is None:
                    ent = ("dotted", {})
                    created.append((cur, kd, ent))
                elif not (isinstance(ent, tuple) and ent[0] == "dotted" and id(ent) in section_dotted):
                    return
                cur = ent[1]
            if path[-1] in cur:
                return
            for (c, kd, ent) in created:
                c[kd] = ent
                section_dotted.add(id(ent))
            if path[-1] in cur:
                return
            t, v = self.value()
            cur[path[-1]] = v
            if plen > 1:
                self.hit("doc:dottedkey")
            self.kv_paths.append((sect_no[0], tuple(path)))
            ids = [cur_abs[0] + tuple(names[: i + 1]) for i in range(plen)]
            out += self.render_path(ids, names, False) + "=" + self.ws() + t + self.ws()
            if r.random() < 0.3:
                out += self.comment()
            out += self.nl()

        out += blank()
        sd = set()
        for _ in range(r.choice([0, 1, 2, 4])):
            emit_kv(tree, sd)
            out += blank()
        # header sections
        nsec = r.choice([0, 1, 2, 3, 5])
        for _ in range(nsec):
            plen = r.choice([1, 1, 2, 3])
            path = [r.choice(KEYS[:6]) for _ in range(plen)]
            is_aot = r.random() < 0.3
            # walk / create
            cur = tree
            ok = True
            ids = []
            absp = ()
            for kd in [p.encode() for p in path[:-1]]:
                ent = cur.get(kd)
                if ent is None:
                    ent = ("implicit", {})
                    cur[kd] = ent
                absp = absp + (kd.decode(),)
                ids.append(absp)
                if isinstance(ent, tuple) and ent[0] in ("implicit", "explicit"):
                    cur = ent[1]
                elif isinstance(ent, tuple) and ent[0] == "dotted":
                    cur = ent[1]
                elif isinstance(ent, tuple) and ent[0] == "aot":
                    cur = ent[1][-1]
                    absp = absp + ("#%d" % (len(ent[1]) - 1),)
                else:
                    ok = False
                    break
            if not ok:
                continue
            last = path[-1].encode()
            ent = cur.get(last)
            absp = absp + (path[-1],)
            ids.append(absp)
            if is_aot:
                if ent is None:
                    ent = ("aot", [])
                    cur[last] = ent
                if not (isinstance(ent, tuple) and ent[0] == "aot"):
                    continue
                node = {}
                ent[1].append(node)
                absp = absp + ("#%d" % (len(ent[1]) - 1),)
                self.hit("doc:aot")
                hdr = "[[" + self.render_path(ids, path, True) + "]]"
            else:
                if ent is None:
                    node = {}
                    cur[last] = ("explicit", node)
                elif isinstance(ent, tuple) and ent[0] == "implicit":
                    node = ent[1]
                    cur[last] = ("explicit", node)
                    self.hit("doc:super-after-sub")
                else:
                    continue
                self.hit("doc:header")
                hdr = "[" + self.render_path(ids, path, True) + "]"
            cur_abs[0] = absp
            out += self.ws() + hdr + self.ws() + (self.comment() if r.random() < 0.2 else "") + self.nl()
            sect_no[0] += 1
            sd = set()
            out += blank()
            for _ in range(r.choice([0, 1, 2, 3])):
                emit_kv(node, sd)
                out += blank()
        if out.endswith("\n") and r.random() < 0.1:
            out = out[:-1]
            if out.endswith("\r"):
                out = out[:-1]
            self.hit("doc:nofinalnl")

        self.meta = {"ml": list(self.ml_tokens), "comments": [c for c in self.comments if c in out], "adjacent": adjacent_dotted(self.kv_paths) and not self.inline_nonadjacent,
                     "respelled": self.respelled, "text": out}

        def strip(n):
            res = {}
            for k, v in n.items():
                if isinstance(v, tuple) and v[0] in ("dotted", "implicit", "explicit"):
                    res[k] = strip(v[1])
                elif isinstance(v, tuple) and v[0] == "aot":
                    res[k] = [strip(x) for x in v[1]]
                else:
                    res[k] = stripv(v)
            return res

        def stripv(v):
            if isinstance(v, dict):
                return {k: stripv(x) for k, x in v.items()}
            if isinstance(v, list):
                return [stripv(x) for x in v]
            return v
        return out, strip(tree)


def header_order_documents(rng, n):
    """documents that exercise every ORDER in which the tables of a chain a, a.b, a.b.c (and arrays of
    tables on the way) can be declared, each section with 0-3 plain key/values and unique comments;
    returns (text, plain tree). Exact print-back is promised for all of them (no dotted keys)."""
    import itertools
    out = []
    chains = [[("a",), ("a", "b"), ("a", "b", "c")], [("a",), ("a", "b")], [("x",), ("a", "b", "c"), ("a",), ("a", "b")], [("a", "b", "c", "d"), ("a", "b"), ("a",), ("q",)]]
    perms = []
    for ch in chains:
        for pm in itertools.permutations(ch):
            perms.append(pm)
    for _ in range(n):
        pm = rng.choice(perms)
        omit = set(rng.sample(range(len(pm)), rng.choice([0, 0, 1]))) if len(pm) > 2 else set()
        text = ""
        tree = {}
        cno = 0
        if rng.random() < 0.5:
            for j in range(rng.choice([1, 2, 3])):
                cno += 1
                text += f"r{j} = {j} # c{cno}\n"
                tree[f"r{j}".encode()] = ("i", j)
        for idx, path in enumerate(pm):
            if idx in omit:
                continue
            cno += 1
            text += rng.choice(["", "\n", f"# c{cno}\n"]) + "[" + ".".join(path) + "]" + rng.choice(["", f" # h{cno}"]) + "\n"
            node = tree
            for seg in path:
                node = node.setdefault(seg.encode(), {})
            for j in range(rng.choice([0, 1, 2, 3, 4])):
                cno += 1
                k = f"k{j}"
                text += f"{k} = {cno}" + rng.choice(["", f"  # v{cno}"]) + "\n"
                node[k.encode()] = ("i", cno)
        out.append((text, tree))
    return out


def adjacent_dotted(kv_paths):
    """keys sharing a dotted prefix are adjacent within their section (so printing keeps the source order)"""
    by_sect = {}
    for sno, path in kv_paths:
        by_sect.setdefault(sno, []).append(path)
    for paths in by_sect.values():
        for plen in range(1, 4):
            seen_closed = set()
            prev = None
            for p in paths:
                pre = p[:plen] if len(p) > plen else None
                if pre != prev:
                    if prev is not None:
                        seen_closed.add(prev)
                    if pre is not None and pre in seen_closed:
                        return False
                prev = pre
    # a plain key following dotted keys of the same table, then more of the same dotted prefix, is covered above
    return True


def normalize(text: str, ml_tokens):
    """the three normalisations of C03: drop a leading BOM; CRLF -> LF outside multi-line string
    bodies; add a newline if the last key/value or header line has none"""
    if text.startswith("\ufeff"):
        text = text[1:]
    out = []
    pos = 0
    for tok in ml_tokens:
        i = text.find(tok, pos)
        if i < 0:
            continue
        out.append(text[pos:i].replace("\r", ""))
        out.append(tok)
        pos = i + len(tok)
    ml_end = sum(len(o) for o in out)      # end, in the result, of the last multi-line string token
    out.append(text[pos:].replace("\r", ""))
    res = "".join(out)
    if res and not res.endswith("\n"):
        start = res.rfind("\n") + 1
        if start < ml_end:
            # the last line begins inside a multi-line string: it holds the end of a key/value
            res += "\n"
        else:
            st = res[start:].strip(" \t")
            if st and not st.startswith("#"):
                res += "\n"
    return res


def mutate(rng, data: bytes, tokens=None):
    """byte-level mutation of a document"""
    b = bytearray(data)
    ops = rng.choice([1, 1, 1, 2, 3])
    SPECIAL = b"\"'\\#=.[]{},\n\r\t _-+:0123456789eExXoObBtTzZinfa\x00\x7f\x1f\xc3\xa9\xff\xe2\x82"
    for _ in range(ops):
        op = rng.randrange(6)
        if not b:
            b += bytes([rng.choice(SPECIAL)])
            continue
        i = rng.randrange(len(b))
        if op == 0:
            del b[i]
        elif op == 1:
            b.insert(i, rng.choice(SPECIAL))
        elif op == 2:
            b[i] = rng.choice(SPECIAL)
        elif op == 3:
            j = rng.randrange(len(b))
            b[i], b[j] = b[j], b[i]
        elif op == 4:
            j = min(len(b), i + rng.randrange(1, 6))
            b[i:i] = b[i:j]
        else:
            del b[i:]
    return bytes(b)
