"""shared by C01 (verdicts) and C02 (decoded data): documents through every parsing entry point,
model vs implementation vs independent expectations."""
import os
from vlib import *
import docgen

SLOTS = [
    b'a = "%s"\n', b"a = '%s'\n", b'a = """%s"""\n', b"a = '''%s'''\n", b"# %s\n", b"%s = 1\n", b"a = 1%s\n", b"a%s= 1\n",
    b"a = %s\n", b"a = [1%s]\n", b"a = {b = 1%s}\n", b'a = "\\%s"\n', b"a = 0x%s\n", b"a = 0o%s\n", b"a = 0b%s\n",
    b"a = 1979-05-27%s07:32:00\n", b"a = 1%s2\n", b"[a%s]\n", b"[[a]]%s\n", b"a = 1.%s\n", b"a = 1e%s\n", b"a = 1 %s\n",
    b'"%s" = 1\n', b"'%s' = 1\n", b"a.%s = 1\n", b"a = [%s]\n", b"a = {%s = 1}\n", b'a = """\\%s"""\n', b"a = 07:32:00%s\n",
    b"a = 1979-05-27T07:32:00%s\n", b"a = t%s\n", b"a = +%s\n", b'a = "\\u00%s0"\n', b"%s", b"a = 1\n%s", b"a = 1\r%s",
    b"a = 1_%s\n", b"a = 0%s\n", b"a = 1979-0%s-27\n", b"a = 07:3%s:00\n",
]


def corpus_files():
    res = []
    base = os.path.join(ROOT, "corpus", "toml-test")
    for dp, dn, fns in os.walk(base):
        for f in sorted(fns):
            if f.endswith(".toml"):
                p = os.path.join(dp, f)
                res.append((os.path.relpath(p, base), open(p, "rb").read()))
    res.sort()
    return res


def regression_files():
    res = []
    base = os.path.join(ROOT, "corpus", "regressions")
    if os.path.isdir(base):
        for f in sorted(os.listdir(base)):
            res.append((f, open(os.path.join(base, f), "rb").read()))
    return res


def build_cases(ctx):
    rng = ctx.rng
    big = ctx.tier != "quick"
    hist = {}
    g = docgen.Gen(rng, hist)
    cases = []   # (kind, label, bytes, expected_plain|None, expected_verdict|None)
    for name, data in regression_files():
        cases.append(("regression", name, data, None, None))
    corp = corpus_files()
    for name, data in corp:
        exp = None if name in U1_CORPUS else (not name.startswith("invalid"))
        cases.append(("corpus", name, data, None, exp))
    ndocs = 40000 if big else 2500
    docs = []
    for _ in range(ndocs):
        t, tree = g.document()
        b = t.encode("utf-8")
        docs.append(b)
        cases.append(("generated", "", b, docgen.plain(tree), True))
    for t, tree in docgen.header_order_documents(rng, 6000 if big else 800):
        cases.append(("header-order", "", t.encode(), docgen.plain(tree), True))
    # byte x slot sweep (exhaustive)
    for b in range(256):
        for sl in SLOTS:
            cases.append(("sweep", "", sl.replace(b"%s", bytes([b])), None, None))
    # two-byte / three-byte chars in the same slots (valid UTF-8 non-ASCII)
    for ch in ["é", "\u0080", "\u07ff", "\u0800", "\ud7ff", "\ue000", "\ufffd", "\uffff", "\U00010000", "\U0010ffff", "\ufeff", "\u2028", "\u0085"]:
        for sl in SLOTS:
            cases.append(("sweep-utf8", "", sl.replace(b"%s", ch.encode()), None, None))
    # mutations
    pool = docs[: (4000 if big else 600)] + [d for _, d in corp]
    nm = 300000 if big else 12000
    for _ in range(nm):
        cases.append(("mutation", "", docgen.mutate(rng, rng.choice(pool)), None, None))
    # truncations of some documents at every byte
    for d in rng.sample(docs, 40 if big else 8) + [d for n, d in corp if n.startswith("valid/spec-example")]:
        for i in range(len(d)):
            cases.append(("truncation", "", d[:i], None, None))
    # statement sequences (the C09 scope): definitions that collide or extend each other in every order
    from props import c09 as _c09
    import defrules as _dr
    sts = _c09.statements(_c09.paths("quick"))
    for _ in range(60000 if big else 6000):
        sq = tuple(rng.choice(sts) for _ in range(rng.choice([2, 3, 3, 4])))
        verdict = _dr.run(list(sq))
        txt = _c09.render(rng, sq).encode()
        exp_ok = None if verdict[0] == "undecided" else (verdict[0] == "valid")
        exp_plain = _c09.to_plain(verdict[1]) if verdict[0] == "valid" else None
        cases.append(("statements", "", txt, exp_plain, exp_ok))
    # implementation limits L1/L2
    for t in ["a = 9223372036854775807", "a = 9223372036854775808", "a = -9223372036854775808", "a = -9223372036854775809",
              "a = 0x7fffffffffffffff", "a = 0x8000000000000000", "a = 0o777777777777777777777", "a = 0o1000000000000000000000",
              "a = 0b" + "1" * 63, "a = 0b" + "1" * 64, "a = 1e308", "a = 1e309", "a = -1e309", "a = 1.7976931348623157e308",
              "a = 1.7976931348623159e308", "a = -1.7976931348623159e308", "a = 1e-999", "a = [" * 78 + "]" * 78, "a = [" * 79 + "]" * 79,
              "a = [" * 80 + "]" * 80, "a = " + "{a=" * 78 + "1" + "}" * 78, "a = " + "{a=" * 79 + "1" + "}" * 79,
              ".".join(["a"] * 79) + " = 1", ".".join(["a"] * 80) + " = 1", "[" + ".".join(["a"] * 79) + "]", "[" + ".".join(["a"] * 80) + "]"]:
        cases.append(("limits", "", t.encode(), None, None))
    # arbitrary bytes (slice entry point)
    for _ in range(20000 if big else 1500):
        n = rng.choice([1, 2, 3, 5, 8, 20])
        cases.append(("bytes", "", bytes(rng.choice([rng.randrange(256), rng.choice(b"a=\"'\n[]{}#\\.1 ")]) for _ in range(n)), None, None))
    return cases, hist


EXTRA_PROPS = {"C02": ["C02Strings"], "C01": ["C01Values", "C01Doc", "C01Sound", "C01DocSound"]}

# toml-test files whose validity the specification leaves undecided (DESIGN.md section 3.5, class U1): none in the 1.0.0 list
U1_CORPUS = set()


def run_parse(ctx, focus):
    """focus = 'verdict' (C01) or 'data' (C02)"""
    prop = ctx.prop
    translate(ctx)
    mods = ["TomlVerif.Gen.CheckLex", "TomlVerif.Gen.CheckDatetime", "TomlVerif.Gen.CheckNumbers", f"TomlVerif.Props.{prop}", "driver"]
    lake_build(ctx, mods, {"TomlVerif.Gen.CheckLex": "table theorems: byte classes, delimiters, keywords, escape arms, LIMIT",
                           "TomlVerif.Gen.CheckDatetime": "table theorems: date-time bounds",
                           "TomlVerif.Gen.CheckNumbers": "table theorems: number parser arms",
                           f"TomlVerif.Props.{prop}": "property theorems"})
    audit(ctx, f"TomlVerif.Props.{prop}", f"TomlVerif/Props/{prop}.lean")
    for extra in EXTRA_PROPS.get(prop, []):
        if os.path.exists(os.path.join(LEAN, "TomlVerif", "Props", extra + ".lean")):
            lake_build(ctx, [f"TomlVerif.Props.{extra}"], {f"TomlVerif.Props.{extra}": "property theorems"})
            audit(ctx, f"TomlVerif.Props.{extra}", f"TomlVerif/Props/{extra}.lean")
    if ctx.tier == "thorough":
        leanchecker(ctx, f"TomlVerif.Props.{prop}")
    tvh = cargo_build(ctx)
    if tvh is None:
        ctx.violation("harness does not build against /repo", {"unchecked": "cargo build"}, concrete=False)
        return
    if focus == "verdict":
        regression_lines(ctx, tvh, ["doc", "val"] + (["doc_long"] if ctx.tier == "thorough" else []))
    cases, hist = build_cases(ctx)
    lines = [h(c[2]) for c in cases]
    impl, model = run_pair(ctx, tvh, "doc", lines)
    ndis = 0
    first = None
    kinds = {}
    acc = 0
    seen = set()
    for c, ln, i, m in zip(cases, lines, impl, model):
        kind, label, data, exp_plain, exp_ok = c
        kinds[kind] = kinds.get(kind, 0) + 1
        if len(data) > 2:
            seen.add(ln)
        bad = None
        iok = i.startswith("ok ")
        if iok:
            acc += 1
        if i.startswith("PANIC") or i == "CRASH":
            bad = ("any", f"panic: {bytes.fromhex(i[6:]).decode(errors='replace')[:100] if i.startswith('PANIC ') and i[6:] != '-' else i}")
        elif i.startswith("mixed:"):
            bad = ("verdict" if "verdicts" in i or "utf8" in i else "data", f"entry points disagree: {i[:300]}")
        elif exp_ok is not None and iok != exp_ok:
            bad = ("verdict", f"{'accepted' if iok else 'rejected'}, expected {'valid' if exp_ok else 'invalid'} ({kind} {label})")
        elif exp_plain is not None and iok:
            got = i.split(" toml=")[1].split(" depth=")[0]
            if got != exp_plain:
                bad = ("data", f"decoded {got[:200]}, the document says {exp_plain[:200]}")
        if bad is None and i != m:
            mok = m.startswith("ok ")
            if iok != mok:
                bad = ("verdict", f"implementation {'accepts' if iok else 'rejects'}, the verified model {'accepts' if mok else 'rejects'}")
            else:
                bad = ("data", f"implementation decodes {i[:200]}, model decodes {m[:200]}")
        if i != m:
            ndis += 1
            if first is None or len(ln) < len(first[0]):
                first = (ln, i[:200], m[:200])
        if bad and (bad[0] == "any" or bad[0] == focus):
            ctx.violation(f"{kind} {label} text={data[:60]!r}: {bad[1]}",
                          {"mode": "doc", "case": ln, "text": data.decode("utf-8", errors="replace")[:2000], "impl": i[:2000], "model": m[:2000], "witness": ln})
    ctx.oblige("correspondence doc: model driver = implementation (verdict, decoded tree with flags and positions, plain data, depth) on every case",
               ndis == 0, f"{ndis} disagreements; shortest: {first}")
    if ctx.broken and not ctx.violations:
        for n, d in ctx.broken:
            ctx.violation(f"obligation no longer checks: {n}", {"unchecked": n, "detail": d[:1500], "searched": f"{len(cases)} documents"}, concrete=False)
    ctx.cov.update({
        "evaluations": len(cases), "distinct_nontrivial": len(seen),
        "rule": "toml-test 1.0.0 valid+invalid files with their expected verdicts; grammar-generated valid documents in every lexical variant with the generator's intended tree as oracle; exhaustive 256-byte x %d-slot sweep; UTF-8 scalar edge characters in every slot; byte-level mutations of generated and corpus documents; truncation at every byte; L1/L2/L3 limit literals; arbitrary byte strings through the slice entry point. non-trivial = distinct text longer than 2 bytes" % len(SLOTS),
        "samples": [cases[len(cases) // 3][2].decode("utf-8", errors="replace")[:200], cases[-5][2].hex(), cases[700][2].decode("utf-8", errors="replace")[:120]],
        "streams": kinds, "accepted": acc, "constructor_histogram": hist, "exhaustive_subspace": "byte x slot sweep",
        "traces_validated_against_impl": len(cases), "disagreements": ndis,
        "entry_points": ["ImDocument::parse", "str::parse::<DocumentMut>", "toml::from_str::<Table>", "toml_edit::de::from_str::<Table>", "toml_edit::de::from_slice::<Table>"],
    })
