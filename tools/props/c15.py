"""C15 — every rejection is a well-formed, correctly located error."""
from vlib import *
import docgen
from props.parse_common import corpus_files, SLOTS
from props import c15loc

# located deserialization errors with the span the error must carry (direct oracle, `c15d` line syntax): the offending value
# is an ELEMENT of an array / a field of a struct variant, not the container around it
LOCATED_FIXED = [
    # Vec<Date> with a date-time element (F36: was located at the whole array)
    ("loc S S(61:V(da)) " + "a = [1979-05-27, 1979-05-27T07:32:00Z]\n".encode().hex(), (17, 37)),
    ("loc S S(61:V(ti)) " + "a = [ 07:32:00 ,\n 1979-05-27 ]\n".encode().hex(), (18, 28)),
    ("loc S S(61:V(V(da))) " + "a = [[], [1979-05-27T07:32:00]]\n".encode().hex(), (10, 29)),
    ("loc S S(61:V(i8)) " + "a = [1, 300]\n".encode().hex(), (8, 11)),
    ("loc S S(61:T(i8,s)) " + "a = [1, 2]\n".encode().hex(), (8, 9)),
    ("loc S S(61:V(S(78:b))) " + "[[a]]\nx = true\n[[a]]\nx = 1\n".encode().hex(), (25, 26)),
]


def spec_lc(data: bytes, a: int):
    """line/column (1-based) of byte offset `a`, counting characters; at end of input: one past the end of the last line"""
    n = len(data)
    if n == 0:
        return (1, a + 1)
    anchor = min(a, n - 1)
    ls = data.rfind(b"\n", 0, anchor) + 1
    line = data.count(b"\n", 0, ls) + 1
    col = len(data[ls:min(a, n)].decode("utf-8", errors="replace")) + 1 + (a - min(a, n))
    return (line, col)


def leaves(tree, prefix=()):
    out = []
    for k, v in tree.items():
        if isinstance(v, dict):
            out.append((prefix + (k,), "map"))
            out += leaves(v, prefix + (k,))
        elif isinstance(v, list):
            out.append((prefix + (k,), "seq"))
        else:
            out.append((prefix + (k,), {"s": "string", "i": "i64", "f": "f64", "b": "bool", "d": "datetime"}[v[0]]))
    return out


def run(ctx):
    translate(ctx)
    mods = ["TomlVerif.Props.C15", "driver"]
    lake_build(ctx, mods, {"TomlVerif.Props.C15": "property theorems"})
    audit(ctx, "TomlVerif.Props.C15", "TomlVerif/Props/C15.lean")
    if ctx.tier == "thorough":
        leanchecker(ctx, "TomlVerif.Props.C15")
    tvh = cargo_build(ctx)
    if tvh is None:
        ctx.violation("harness does not build against /repo", {"unchecked": "cargo build"}, concrete=False)
        return
    rng = ctx.rng
    big = ctx.tier != "quick"
    g = docgen.Gen(rng)
    texts = []
    docs = [g.document() for _ in range(10000 if big else 400)]
    corp = [d for _, d in corpus_files()]
    corpus_names = {}
    for n, d in corpus_files():
        texts.append(d)
        corpus_names[d] = n
    pool = [t.encode() for t, _ in docs] + corp
    for _ in range(600000 if big else 9000):
        texts.append(docgen.mutate(rng, rng.choice(pool)))
    for d in rng.sample(pool, 60 if big else 12):
        for i in range(len(d) + 1):
            texts.append(d[:i])
    # multi-byte characters before the error position; errors at end of input with / without a final newline
    for pre in ["", "é", "éé", "😀", "a😀é", "\u2028", "x\ty", "# é\n", "k = 'é'\n", "\ufeff"]:
        for bad in ['"é"é', "a = é", "é = é", 'a = "é" é', "a = [", "a = [\n", "a = [ # é", "a = [ # é\n", 'a = "', "a = '''é", 'a = """é\n', "a = {", "a = {\n",
                    "[é", "[[a]", "a.é", "a = 1 é", "a = 1é", "a = \"\\é\"", "a = 0xé", "a = 1979-05-27Té", "= 1", "é", "a", "a =", "a = ", "a = \n", "a = 1\n\n\né"]:
            texts.append((pre + bad).encode() if not (pre.endswith("\n") or pre in ("", "\ufeff")) else (pre + bad).encode())
            texts.append(("k = '" + pre.replace("\n", "").replace("'", "") + "' " + bad).encode())
    for b in range(128):
        for sl in SLOTS[:12]:
            texts.append(sl.replace(b"%s", b"\xc3\xa9" + bytes([b])))
    texts = [t for t in dict.fromkeys(texts) if is_utf8(t)]
    ecases = [f"e {h(t)}" for t in texts]
    rc, eout, _ = run_lines(tvh, "c15", ecases)
    if len(eout) != len(ecases):
        ctx.oblige("harness c15 e: every case returns", False, f"{len(eout)}/{len(ecases)} lines; crash at `{ecases[len(eout)][:200] if len(eout) < len(ecases) else ''}`")
        ctx.violation("rendering or producing an error aborted the process", {"case": ecases[min(len(eout), len(ecases) - 1)], "witness": ecases[min(len(eout), len(ecases) - 1)]})
        eout += ["CRASH"] * (len(ecases) - len(eout))
    mcases, idx = [], []
    empty_msgs = 0
    rejected = 0
    nontriv = set()
    for k, (t, o) in enumerate(zip(texts, eout)):
        c = ecases[k]
        bad = None
        if o.startswith("PANIC") or o == "CRASH":
            bad = f"panic while producing/rendering the error: {o[:160]}"
        elif o.startswith("err"):
            rejected += 1
            f = dict(kv.split("=", 1) for kv in o.split(" ")[1:] if "=" in kv)
            if "span" not in f:
                if f.get("msg") != "ok":
                    bad = "empty message"
            else:
                a, b = [int(x) for x in f["span"].split("..")]
                want = spec_lc(t, a)
                if f["bounds"] != "ok":
                    bad = f"span {a}..{b} is out of bounds or off a character boundary (len {len(t)})"
                elif f["msg"] != "ok":
                    bad = "empty message"
                elif f["lc"] != f"{want[0]}:{want[1]}":
                    bad = f"rendered `line {f['lc'].replace(':', ', column ')}` for span start {a}; counting characters gives line {want[0]}, column {want[1]}"
                elif f["tsame"] != "true":
                    bad = "toml::de::Error differs from toml_edit::TomlError in span / position / message presence"
                mcases.append(f"tp {h(t)} {a}")
                idx.append(k)
                if any(x >= 0x80 for x in t[:a + 1]):
                    nontriv.add(c)
        if bad:
            wit = c
            if bad == "empty message" and corpus_names.get(t, "invalid/control/bare-cr.toml") == "invalid/control/bare-cr.toml":
                # known finding F13 (class identified by its call site); a toml-test file newly losing its message is NOT covered
                wit = "class:empty-message@TomlError::new"
                empty_msgs += 1
            ctx.violation(f"text={t[:60]!r}: {bad}", {"mode": "c15", "case": c, "text": t.decode("utf-8", errors="replace"), "impl": o, "witness": wit})
    rc, mout, _ = run_lines(driver_path(), "c15", mcases)
    ndis, first = 0, None
    for c, k, m in zip(mcases, idx, mout):
        o = eout[k]
        f = dict(kv.split("=", 1) for kv in o.split(" ")[1:] if "=" in kv)
        want = f"span={f['span']} lc={f['lc']}"
        if m != want:
            ndis += 1
            if first is None or len(c) < len(first[0]):
                first = (c, want, m)
    ctx.oblige("correspondence c15: model of char_span + translate_position + Display index arithmetic = implementation on every rejected text",
               ndis == 0 and len(mout) == len(mcases), f"{ndis} disagreements; shortest: {first}")
    # ---- deserialization errors
    dcases, dmeta = [], []
    for t, tree in docs:
        lv = [(p, k) for p, k in leaves(tree) if all(b"." not in x and x.decode("utf-8", "replace").isprintable() and x != b"" for x in p)]
        rng.shuffle(lv)
        for p, kind in lv[:3]:
            for want in rng.sample(["i64", "u8", "bool", "string", "f64", "seq", "map", "datetime", "char", "unit"], 3):
                if want == kind:
                    continue
                dcases.append(f"d {h(t.encode())} {want} {'.'.join(h(x) for x in p)}")
                dmeta.append((t, p, kind, want))
                # the same read through Option<…> at every level: the error must keep the offending value's span
                dcases.append(f"d {h(t.encode())} opt-{want} {'.'.join(h(x) for x in p)}")
                dmeta.append((t, p, kind, want))
        # every table (and the root) read as a struct with a required field it does not have
        for p, kind in [((), "map")] + [(p, k) for p, k in lv if k == "map"][:2]:
            dcases.append(f"d {h(t.encode())} missing {'.'.join(h(x) for x in p) if p else '.'}")
            dmeta.append((t, p, kind, "missing"))
    rc, dout, _ = run_lines(tvh, "c15", dcases)
    dout += ["CRASH"] * (len(dcases) - len(dout))
    derrs = 0
    for c, (t, p, kind, want), o in zip(dcases, dmeta, dout):
        bad = None
        if o.startswith("PANIC") or o == "CRASH":
            bad = f"panic: {o[:120]}"
        elif o in ("invalid-doc", "no-such-path"):
            continue
        else:
            parts = dict(x.split(":", 1) for x in o.split(" ") if ":" in x and x.split(":")[0] in ("src", "src2", "nosrc"))
            src = o.split("src:")[1].split(" src2:")[0]
            src2 = o.split("src2:")[1].split(" nosrc:")[0]
            nosrc = o.split("nosrc:")[1].split(" vspan=")[0]
            oks = [src.startswith("ok"), src2.startswith("ok"), nosrc.startswith("ok")]
            if len(set(oks)) != 1:
                bad = f"routes disagree on success: {o}"
            elif not oks[0]:
                derrs += 1
                nontriv.add(c)
                vnone = o.endswith("vspan=none")
                if vnone and "span=none" not in src and "span=none" not in src2:
                    pass    # a table without a span of its own (dotted / implicit): located by its key
                elif kind == "map" and "span=none" not in src and "span=none" not in src2:
                    pass    # a standard table's entries (sub-tables) may lie outside its own header..last-value span
                elif within(src, o) and within(src2, o):
                    pass    # raised for an entry inside the offending table: located inside the value's span
                elif "span=value" not in src or "span=value" not in src2:
                    bad = f"expecting {want} at {b'.'.join(p)!r} (a {kind}): error span is not the offending value's span: {o}"
                elif "msg=ok" not in src:
                    bad = "empty message"
                elif "keys=path" not in nosrc:
                    bad = f"without source text the error does not carry the key path: {o}"
        if bad:
            ctx.violation(f"{bad[:300]}", {"mode": "c15", "case": c, "text": t, "impl": o, "witness": c})
    # ---- WHERE a deserialization error is located: model (Model/DeLocated.lean) = the three routes, plus direct oracles
    extra_props(ctx, ["C15Located", "C15LocatedMore"])
    lstats, ldis, lbroken = c15loc.run_located(ctx, tvh)
    for name, fails in lbroken.items():
        for l, d in fails[:5]:
            wit = l
            if name == "span-present" and c15loc.root_unlocated(l.split(" ")[2]):
                wit = "class:F37 Date / Time as the root target: the shape error is raised after the deserializer has returned"
            ctx.violation(f"located decode, oracle {name}: {d[:300]}", {"mode": "c15d", "case": l, "impl": d[:2000], "witness": wit})
    if lstats.get("root-unlocated"):
        ctx.violation("a deserialization error raised by the target type `Date` / `Time` itself, as the root type, carries neither span nor key although the source text is available",
                      {"mode": "c15d", "count": lstats["root-unlocated"], "witness": "class:F37 Date / Time as the root target: the shape error is raised after the deserializer has returned"})
    if lstats.get("keys-omit-a-table-key"):
        ctx.violation("the key path of a deserialization error below an enum variant omits the variant's key (and the index keys of a tuple variant read from a table)",
                      {"mode": "c15d", "count": lstats["keys-omit-a-table-key"], "witness": "class:F38 enum variant key missing from the key path of the error"})
    rc, fout, _ = run_lines(tvh, "c15d", [l for l, _ in LOCATED_FIXED])
    for (l, want), o in zip(LOCATED_FIXED, fout + ["CRASH"] * len(LOCATED_FIXED)):
        r = c15loc.parse_routes(o) if not o.startswith(("CRASH", "PANIC", "parse-err")) else None
        got = r["td"][1] if r and r["td"][0] == "err" else None
        if got != want or (r and r["ed"] != r["td"]):
            ctx.violation(f"located decode `{bytes.fromhex(l.split(' ')[3]).decode()[:60]!r}` into {l.split(' ')[2]}: the error must carry the span {want} of the offending element, got {o[:200]}",
                          {"mode": "c15d", "case": l, "impl": o[:600], "witness": l})
    dcases_n = len(dcases) + lstats.get("cases", 0) + len(LOCATED_FIXED)
    if ctx.broken and not ctx.violations:
        for n, d in ctx.broken:
            ctx.violation(f"obligation no longer checks: {n}", {"unchecked": n, "detail": d[:1500], "searched": f"{len(ecases)} texts, {dcases_n} typed decodes"}, concrete=False)
    ctx.cov.update({
        "evaluations": len(ecases) + dcases_n, "located_decodes": lstats, "distinct_nontrivial": len(nontriv),
        "rule": "rejected texts: toml-test files, byte mutations of generated and corpus documents, truncations at every byte, hand-made errors preceded by multi-byte characters / at end of input with and without final newline / after BOM, a 2-byte character followed by each ASCII byte in 12 slots; typed decodes: generated valid documents x random leaf path x mismatching target kind through toml::de::Deserializer, toml_edit::de::Deserializer::parse and from a DocumentMut (no source); located decodes (c15d): well-typed (type, document) pairs of the C13 type grammar with one change (leaf type, required field, variant, tuple length, date-time shape) under up to three wrappers, all three routes against Model/DeLocated.lean and against direct oracles (span present, in the text, a key or value node of the document with the keys along its path). non-trivial = a non-ASCII byte at or before the error position, or a typed decode that failed",
        "samples": [ecases[50][:120], mcases[10][:120] if mcases else "", dcases[3][:160] if dcases else ""],
        "rejected_texts": rejected, "known_finding_F13_empty_messages": empty_msgs, "typed_decode_errors": derrs, "traces_validated_against_impl": len(mcases), "disagreements": ndis,
    })


def within(route, o):
    """the route's error span lies inside the offending value's span"""
    import re
    m = re.search(r"span=(\d+)\.\.(\d+)", route)
    v = re.search(r"vspan=(\d+)\.\.(\d+)", o)
    if "span=value" in route:
        return True
    if not m or not v:
        return False
    return int(v.group(1)) <= int(m.group(1)) <= int(m.group(2)) <= int(v.group(2))


def is_utf8(b):
    try:
        b.decode("utf-8")
        return True
    except UnicodeDecodeError:
        return False
