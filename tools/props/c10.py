"""C10 — string and key quoting is exact for every string in every offered style."""
import itertools
from vlib import *

ATOMS = [b'"', b"'", b"\\", b"\n", b"\r", b"\t", b" ", b"\x00", b"\x1b", b"\x7f", b"#", b"a", "é".encode(), "😀".encode()]
VSTYLES = ["default", "literal", "mlLiteral", "basicPretty", "mlBasicPretty", "basic", "mlBasic"]
KSTYLES = ["default", "unquoted", "literal", "basicPretty", "basic"]


def gen_strings(ctx):
    L = 3 if ctx.tier == "quick" else 4
    strs = []
    for n in range(0, L + 1):
        for t in itertools.product(ATOMS, repeat=n):
            strs.append(b"".join(t))
    nexh = len(strs)
    # byte sweep: every ASCII byte alone and between quotes; a few non-ASCII scalars around class edges
    for b in range(0, 128):
        strs.append(bytes([b]))
        strs.append(b'"' + bytes([b]) + b"'")
    for cp in [0x80, 0xA0, 0xFF, 0x7FF, 0x800, 0xD7FF, 0xE000, 0xFFFD, 0xFFFF, 0x10000, 0x10FFFF, 0xFEFF, 0x2028, 0x85]:
        strs.append(chr(cp).encode())
        strs.append(("x" + chr(cp) + '"').encode())
    # random long strings with runs of quotes
    rng = ctx.rng
    nrand = 3000 if ctx.tier == "quick" else 300000
    pool = ATOMS + [b'""', b"''", b'"""', b"'''", b"\r\n", b"\\\n", b'\\"', b"-", b"_", b"0", b"Z", b".", b"=", b"b", b"u", b"U"]
    for _ in range(nrand):
        k = rng.choice([5, 6, 7, 8, 12, 20, 40])
        strs.append(b"".join(rng.choice(pool) for _ in range(k)))
    # long runs (the metrics counters are u8 in the code)
    for q in (b'"', b"'"):
        for n in (3, 4, 5, 6, 7, 127, 128, 254, 255, 256, 257, 300, 513):
            strs.append(q * n)
            strs.append(b"a" + q * n + b"b")
    return strs, nexh


def run(ctx):
    translate(ctx)
    mods = ["TomlVerif.Gen.CheckLex", "TomlVerif.Gen.CheckWrite", "TomlVerif.Props.C10", "driver"]
    lake_build(ctx, mods, {"TomlVerif.Gen.CheckLex": "table theorems: parser byte classes = ABNF",
                           "TomlVerif.Gen.CheckWrite": "table theorems: toml_write escape arms/thresholds = model",
                           "TomlVerif.Props.C10": "property theorems"})
    audit(ctx, "TomlVerif.Props.C10", "TomlVerif/Props/C10.lean")
    if ctx.tier == "thorough":
        leanchecker(ctx, "TomlVerif.Props.C10")
    tvh = cargo_build(ctx)
    if tvh is None:
        ctx.violation("harness does not build against /repo", {"unchecked": "cargo build"}, concrete=False)
        return
    regression_lines(ctx, tvh, ["c10"])
    strs, nexh = gen_strings(ctx)
    cases = []
    for s in strs:
        hx = h(s)
        for st in VSTYLES:
            cases.append(f"v {st} {hx}")
        for st in KSTYLES:
            cases.append(f"k {st} {hx}")
    impl, model = run_pair(ctx, tvh, "c10", cases)
    ndis = 0
    nontrivial = set()
    offered = {}
    first_dis = None
    for c, i, m in zip(cases, impl, model):
        kind, st, hx = c.split(" ")
        s = unh(hx)
        if any(not (chr(x).isalnum()) for x in s):
            nontrivial.add(c)
        ip = i.split(" ")
        # direct oracle on the implementation
        bad = None
        if i.startswith("PANIC") or i == "CRASH":
            bad = f"panic/crash: {i[:120]}"
        elif ip[0] == "none":
            if st in ("default", "basic", "mlBasic"):
                bad = f"style {st} refused"
        else:
            offered[(kind, st)] = offered.get((kind, st), 0) + 1
            want = "ok:" + hx
            if ip[1] != want:
                bad = f"token {ip[0]} alone parses to {ip[1]}, expected {want}"
            elif ip[2] != want:
                bad = f"token {ip[0]} inside a document parses to {ip[2]}, expected {want}"
        if bad:
            ctx.violation(f"{kind} style={st} string={hx}: {bad}",
                          {"mode": "c10", "case": c, "impl": i, "model": m, "witness": c, "oracle": "parse(write(s)) = s"})
        if i != m:
            ndis += 1
            if first_dis is None or len(c) < len(first_dis[0]):
                first_dis = (c, i, m)
    ctx.oblige("correspondence c10: model driver = implementation on every case", ndis == 0,
               f"{ndis} disagreements; shortest: {first_dis}")
    if ctx.broken and not ctx.violations:
        for n, d in ctx.broken:
            ctx.violation(f"obligation no longer checks: {n}", {"unchecked": n, "detail": d[:1500],
                          "searched": f"{len(cases)} cases against the round-trip oracle"}, concrete=False)
    ctx.cov.update({
        "evaluations": len(cases), "distinct_nontrivial": len(nontrivial),
        "rule": f"all strings over 14 byte-class atoms up to length {3 if ctx.tier=='quick' else 4} ({nexh} strings, exhaustive) + ASCII byte sweep + random long quote-run strings, x 7 value styles and 5 key styles; non-trivial = string has a non-alphanumeric byte",
        "exhaustive_subspace": f"strings of <= {3 if ctx.tier=='quick' else 4} atoms",
        "samples": [cases[7 * 12 + 3], cases[len(cases) // 2], cases[-1][:80]],
        "offered_histogram": {f"{k[0]}:{k[1]}": v for k, v in sorted(offered.items())},
        "traces_validated_against_impl": len(cases), "disagreements": ndis,
    })
