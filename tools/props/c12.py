"""C12 — date-times: the standalone parser, the document parser and the printer agree."""
import re
from vlib import *

ALPHA = "0123456789-:.+TtZz "


def is_leap(y):
    return y % 4 == 0 and (y % 100 != 0 or y % 400 == 0)


def max_days(y, m):
    if m == 2:
        return 29 if is_leap(y) else 28
    return 30 if m in (4, 6, 9, 11) else 31


DATE = r"(\d{4})-(\d{2})-(\d{2})"
TIME = r"(\d{2}):(\d{2}):(\d{2})(?:\.(\d+))?"
OFF = r"(Z|z|[+-]\d{2}:\d{2})"
RE_ODT = re.compile(f"^{DATE}[Tt ]{TIME}{OFF}$")
RE_LDT = re.compile(f"^{DATE}[Tt ]{TIME}$")
RE_LD = re.compile(f"^{DATE}$")
RE_LT = re.compile(f"^{TIME}$")


def ref(s):
    """independent reference: TOML 1.0.0 date-time grammar (RFC 3339 profile) + field ranges"""
    def date(g):
        y, m, d = int(g[0]), int(g[1]), int(g[2])
        if not (1 <= m <= 12 and 1 <= d <= max_days(y, m)):
            return None
        return f"{y}-{m}-{d}"
    def time(g):
        h, mi, se = int(g[0]), int(g[1]), int(g[2])
        if not (h <= 23 and mi <= 59 and se <= 60):
            return None
        ns = int((g[3] or "0")[:9].ljust(9, "0"))
        return f"{h}:{mi}:{se}:{ns}"
    def off(o):
        if o in ("Z", "z"):
            return "Z"
        h, m = int(o[1:3]), int(o[4:6])
        if h > 23 or m > 59:
            return None
        return str((1 if o[0] == "+" else -1) * (h * 60 + m))
    for rx, kind in ((RE_ODT, "odt"), (RE_LDT, "ldt"), (RE_LD, "ld"), (RE_LT, "lt")):
        m = rx.match(s)
        if not m or not s.isascii():
            continue
        g = m.groups()
        if kind == "odt":
            d, t, o = date(g[0:3]), time(g[3:7]), off(g[7])
            return "err" if None in (d, t, o) else f"{d}|{t}|{o}"
        if kind == "ldt":
            d, t = date(g[0:3]), time(g[3:7])
            return "err" if None in (d, t) else f"{d}|{t}|-"
        if kind == "ld":
            d = date(g[0:3])
            return "err" if d is None else f"{d}|-|-"
        t = time(g[0:4])
        return "err" if t is None else f"-|{t}|-"
    return "err"


def gen(ctx):
    rng = ctx.rng
    strs = []
    exh = 0
    years = [0, 1, 1900, 2000, 2023, 2024, 2100, 9999]
    # exhaustive field edges
    for y in years:
        for m in range(0, 14):
            for d in range(0, 33):
                strs.append(f"{y:04}-{m:02}-{d:02}")
    for h in range(0, 26):
        for mi in (0, 1, 30, 58, 59, 60, 61, 99):
            for se in (0, 1, 58, 59, 60, 61, 62, 99):
                strs.append(f"{h:02}:{mi:02}:{se:02}")
                strs.append(f"2024-02-29T{h:02}:{mi:02}:{se:02}Z")
    for sign in "+-":
        for h in range(0, 26):
            for mi in range(0, 62):
                strs.append(f"1979-05-27T07:32:00{sign}{h:02}:{mi:02}")
        strs.append(f"1979-05-27T07:32:00{sign}99:99")
    for fr in ["0", "5", "50", "05", "123456789", "1234567891", "999999999", "9999999999", "000000001", "0000000001",
               "100000000", "1" * 20, "0" * 20, "", "00000000099"]:
        strs.append(f"00:00:00.{fr}")
        strs.append(f"1979-05-27 07:32:00.{fr}-07:00")
    exh = len(strs)
    seeds = ["1979-05-27T07:32:00Z", "1979-05-27T00:32:00-07:00", "1979-05-27T00:32:00.999999-07:00",
             "1979-05-27 07:32:00z", "1979-05-27t07:32:00", "1979-05-27T00:32:00.5", "1979-05-27", "07:32:00",
             "00:32:00.999999", "2000-02-29 23:59:60.123456789+23:59", "0000-01-01", "9999-12-31T23:59:59Z"]
    for sd in seeds:
        for i in range(len(sd) + 1):
            strs.append(sd[:i])                       # truncation
            strs.append(sd[i:])
            for c in ALPHA:
                strs.append(sd[:i] + c + sd[i:])      # insertion
                if i < len(sd):
                    strs.append(sd[:i] + c + sd[i + 1:])  # substitution
            if i < len(sd):
                strs.append(sd[:i] + sd[i + 1:])      # deletion
    n = 4000 if ctx.tier == "quick" else 400000
    for _ in range(n):
        sd = rng.choice(seeds)
        b = list(sd)
        for _ in range(rng.choice([1, 1, 2, 3])):
            op = rng.randrange(3)
            i = rng.randrange(len(b) + 1)
            if op == 0:
                b.insert(i, rng.choice(ALPHA))
            elif op == 1 and b:
                b[min(i, len(b) - 1)] = rng.choice(ALPHA)
            elif b:
                del b[min(i, len(b) - 1)]
        strs.append("".join(b))
    strs += ["", "1", "12", "12:", "é1:00:00", "1é:00:00", "12:00:00é", "1979-05-27T07:32:00Zé", "١٢:٠٠:٠٠", "1979-05-27T07:32:00−" "07:00"]
    # values with in-range fields
    vals = []
    nv = 3000 if ctx.tier == "quick" else 300000
    nss = [0, 1, 10, 100, 500000000, 120000, 999999999, 100000000, 123456789, 999999990, 1000]
    for _ in range(nv):
        y = rng.choice(years + [rng.randrange(10000)])
        m = rng.randrange(1, 13)
        d = rng.randrange(1, max_days(y, m) + 1)
        t = f"{rng.randrange(24)}:{rng.randrange(60)}:{rng.choice([0, 59, 60, rng.randrange(61)])}:{rng.choice(nss + [rng.randrange(10**9)])}"
        o = rng.choice(["Z", "0", str(rng.randrange(-1439, 1440)), "1439", "-1439", "-1", "60", "-60"])
        kind = rng.randrange(4)
        if kind == 0:
            vals.append(f"v {y}-{m}-{d} {t} {o}")
        elif kind == 1:
            vals.append(f"v {y}-{m}-{d} {t} -")
        elif kind == 2:
            vals.append(f"v {y}-{m}-{d} - -")
        else:
            vals.append(f"v - {t} -")
    return strs, vals, exh


def run(ctx):
    translate(ctx)
    mods = ["TomlVerif.Gen.CheckDatetime", "TomlVerif.Props.C12", "driver"]
    lake_build(ctx, mods, {"TomlVerif.Gen.CheckDatetime": "table theorems: date-time bounds in both parsers",
                           "TomlVerif.Props.C12": "property theorems"})
    audit(ctx, "TomlVerif.Props.C12", "TomlVerif/Props/C12.lean")
    if ctx.tier == "thorough":
        leanchecker(ctx, "TomlVerif.Props.C12")
    tvh = cargo_build(ctx)
    if tvh is None:
        ctx.violation("harness does not build against /repo", {"unchecked": "cargo build"}, concrete=False)
        return
    regression_lines(ctx, tvh, ["c12"])
    strs, vals, exh = gen(ctx)
    strs = list(dict.fromkeys(strs))
    cases = [f"s {h(s)}" for s in strs] + vals
    impl, model = run_pair(ctx, tvh, "c12", cases)
    ndis = 0
    first = None
    accepted = 0
    nontriv = set()
    for c, i, m in zip(cases, impl, model):
        bad = None
        if i.startswith("PANIC") or i == "CRASH":
            bad = f"panic: {i[:100]}"
        elif c.startswith("s "):
            s = unh(c[2:]).decode()
            f = dict(kv.split("=", 1) for kv in i.split(" "))
            want = ref(s)
            if f["std"] != f["doc"]:
                bad = f"standalone parser gives {f['std']}, document parser gives {f['doc']}"
            elif f["std"] != want:
                bad = f"both parsers give {f['std']}, the grammar reference gives {want}"
            elif f["std"] != "err":
                accepted += 1
                if f["rt"] != f"{f['std']},{f['std']}":
                    bad = f"printed form {unh(f['disp']).decode()!r} parses back to {f['rt']}, expected {f['std']} from both parsers"
            if len(s) >= 8:
                nontriv.add(c)
        else:
            _, d, t, o = c.split(" ")
            want = f"{d}|{t}|{o}"
            f = dict(kv.split("=", 1) for kv in i.split(" "))
            if f["std"] != want or f["doc"] != want:
                bad = f"value {want} prints as {unh(f['disp']).decode()!r} which parses to std={f['std']} doc={f['doc']}"
            nontriv.add(c)
        if bad:
            ctx.violation(f"{c}: {bad}", {"mode": "c12", "case": c, "text": (unh(c[2:]).decode() if c.startswith('s ') else c), "impl": i, "model": m, "witness": c})
        if i != m:
            ndis += 1
            if first is None or len(c) < len(first[0]):
                first = (c, i, m)
    ctx.oblige("correspondence c12: model driver = implementation on every case", ndis == 0, f"{ndis} disagreements; shortest: {first}")
    if ctx.broken and not ctx.violations:
        for n, d in ctx.broken:
            ctx.violation(f"obligation no longer checks: {n}", {"unchecked": n, "detail": d[:1500], "searched": f"{len(cases)} cases against agreement, grammar reference and print/parse round trip"}, concrete=False)
    ctx.cov.update({
        "evaluations": len(cases), "distinct_nontrivial": len(nontriv),
        "rule": f"{exh} exhaustive field-edge strings (13 months x 32 days x 8 years; hours 0-25 x minutes x seconds; offsets +-0-25h x 0-61m; fractions) + every truncation/insertion/substitution/deletion of 12 seed date-times over the date-time alphabet + random multi-edit mutations + non-ASCII; {len(vals)} in-range Datetime values printed and re-parsed. non-trivial = string of >= 8 bytes or a value case",
        "samples": [cases[5], unh(cases[exh + 100][2:]).decode(), vals[0]],
        "accepted_strings": accepted, "traces_validated_against_impl": len(cases), "disagreements": ndis,
        "oracles": ["standalone = document parser", "both = independent regex+range reference of the TOML grammar", "parse(print(x)) = x through both parsers"],
    })
