"""shared by C13 and C17: toml::Value trees with an explicit key order, the two harness builds,
field-wise comparison of implementation and model lines.

tree syntax (one token, no spaces):  s<hex> | i<int> | f<16 hex bits> | b0 | b1 | d<hex of date-time text>
                                     | [t;t;...] | {<hexkey>=t;...}      (hex of the empty string is "-")
python form: ('s', bytes) ('i', int) ('f', bits) ('b', bool) ('d', str) ('a', [tree]) ('t', [(key bytes, tree)])
"""
import itertools, os, shutil
from vlib import *

PRIVATE = b"$__toml_private_datetime"
KEYS_PLAIN = [b"a", b"b", b"c", b"d", b"e"]
KEYS_ODD = [b"", b"k e", "é".encode(), b"1", b"a.b", b'"q"', b"'", b"x\ny", b"true", PRIVATE, b"a-b_c", b"\x7f", "\U0001F600".encode()]
STRS = [b"", b"x", b"TOML", "héllo".encode(), b"line\nbreak", b'quote"s', b"it's", b"'''", b'"""', b"\x7f", b"tab\there", b" ",
        b"1979-05-27", PRIVATE, b"back\\slash", b"cr\rlf", b"\x00", b"'\"", b"''\"\"\"", b"# c"]
INTS = [0, 1, -1, 42, 2**63 - 1, -2**63, 10**6]
FLOATS = [0x0000000000000000, 0x8000000000000000, 0x3ff8000000000000, 0x7ff8000000000000, 0x7ff0000000000000, 0xfff0000000000000,
          0x3fb999999999999a, 0x7fefffffffffffff, 0x0000000000000001, 0x4341c37937e08000, 0xc000000000000000]
DTS = ["1979-05-27T07:32:00Z", "1979-05-27T00:32:00-07:00", "1979-05-27T00:32:00.999999", "1979-05-27", "07:32:00", "00:32:00.5",
       "0000-01-01", "9999-12-31T23:59:60.999999999+23:59", "2000-02-29T12:00:00.000000001-00:01"]


def hk(b):
    return b.hex() if b else "-"


def sx(t):
    k = t[0]
    if k == "s":
        return "s" + hk(t[1])
    if k == "i":
        return f"i{t[1]}"
    if k == "f":
        return "f%016x" % t[1]
    if k == "b":
        return "b1" if t[1] else "b0"
    if k == "d":
        return "d" + t[1].encode().hex()
    if k == "a":
        return "[" + ";".join(sx(x) for x in t[1]) + "]"
    if k == "t":
        return "{" + ";".join(f"{hk(kk)}={sx(v)}" for kk, v in t[1]) + "}"
    raise ValueError(t)


def has_kind(t, kind):
    if t[0] == kind:
        return True
    if t[0] == "a":
        return any(has_kind(x, kind) for x in t[1])
    if t[0] == "t":
        return any(has_kind(v, kind) for _, v in t[1])
    return False


def is_table(t):
    return t[0] == "t"


def entry_class(t):
    """the class the serializer's three passes and the formatter distinguish"""
    if t[0] == "t":
        return "table"
    if t[0] == "a":
        if t[1] and all(is_table(x) for x in t[1]):
            return "aot"
        if any(is_table(x) for x in t[1]):
            return "mixed-array"
        return "array"
    return "scalar"


# the entry kinds of the exhaustive enumeration: every class of `entry_class`, plus the empty shapes
ENTRY_KINDS = {
    "scalar": ("i", 7),
    "string": ("s", b"v"),
    "array": ("a", [("i", 1), ("i", 2)]),
    "empty-array": ("a", []),
    "aot": ("a", [("t", [(b"p", ("i", 1))]), ("t", [(b"q", ("t", [(b"r", ("b", True))])), (b"p", ("i", 2))])]),
    "mixed-array": ("a", [("i", 1), ("t", [(b"p", ("i", 1))])]),
    "table": ("t", [(b"z", ("t", [(b"w", ("i", 3))])), (b"y", ("i", 2))]),
    "empty-table": ("t", []),
    "table-of-tables": ("t", [(b"z", ("t", []))]),
    "datetime": ("d", "1979-05-27T07:32:00Z"),
}
SMALL_KINDS = ["scalar", "array", "aot", "mixed-array", "table"]


def exhaustive_trees(nmax_full, n_small):
    """(label, tree, is_identity_order): keys a,b,c,d; every assignment of kinds; every insertion order"""
    out = []
    for n in range(1, nmax_full + 1):
        for kinds in itertools.product(list(ENTRY_KINDS), repeat=n):
            for perm in itertools.permutations(range(n)):
                ents = [(KEYS_PLAIN[i], ENTRY_KINDS[kinds[i]]) for i in perm]
                out.append((f"exh{n}", ("t", ents), list(perm) == sorted(perm)))
    for n in n_small:
        for kinds in itertools.product(SMALL_KINDS, repeat=n):
            for perm in itertools.permutations(range(n)):
                ents = [(KEYS_PLAIN[i], ENTRY_KINDS[kinds[i]]) for i in perm]
                out.append((f"exh{n}s", ("t", ents), list(perm) == sorted(perm)))
    return out


class TreeGen:
    def __init__(self, rng, floats=True):
        self.r = rng
        self.floats = floats

    def scalar(self):
        r = self.r
        k = r.randrange(7 if self.floats else 6)
        if k == 0:
            return ("s", r.choice(STRS))
        if k == 1:
            return ("i", r.choice(INTS + [r.randrange(-2**63, 2**63)]))
        if k == 2:
            return ("b", r.random() < 0.5)
        if k == 3:
            return ("d", r.choice(DTS))
        if k == 4:
            return ("s", bytes(r.choice(b"ab \"'\\\n\t#=[]{}.") for _ in range(r.randrange(6))))
        if k == 5:
            return ("i", r.randrange(-5, 100))
        return ("f", r.choice(FLOATS))

    def key(self):
        r = self.r
        return r.choice(KEYS_PLAIN) if r.random() < 0.7 else r.choice(KEYS_ODD)

    def table(self, depth):
        r = self.r
        n = r.choice([0, 1, 2, 2, 3, 3, 4, 5])
        ents = []
        seen = set()
        for _ in range(n):
            k = self.key()
            if k in seen:
                continue
            seen.add(k)
            ents.append((k, self.value(depth + 1)))
        return ("t", ents)

    def array(self, depth):
        r = self.r
        n = r.choice([0, 1, 2, 3])
        mode = r.randrange(4)
        if mode == 0:
            return ("a", [self.scalar() for _ in range(n)])
        if mode == 1:
            return ("a", [self.table(depth + 1) for _ in range(n)])
        if mode == 2:
            return ("a", [self.value(depth + 1) for _ in range(n)])
        return ("a", [self.array(depth + 1) if depth < 3 else self.scalar() for _ in range(n)])

    def value(self, depth):
        r = self.r
        if depth >= 4:
            return self.scalar()
        x = r.random()
        if x < 0.45:
            return self.scalar()
        if x < 0.7:
            return self.array(depth)
        return self.table(depth)

    def root(self):
        return self.table(0)


def build_both(ctx):
    """build the harness with and without `preserve_order`; returns {'S': path, 'P': path} (copies, since the two
    builds share one target directory). The default build is made last so that it is the one left in place."""
    bins = {}
    os.makedirs(os.path.join(WORK, "bin"), exist_ok=True)
    for fl, feats in (("P", ("preserve_order",)), ("S", ())):
        tvh = cargo_build(ctx, features=feats)
        if tvh is None:
            return None
        dst = os.path.join(WORK, "bin", f"tvh-{ctx.prop}-{fl}")
        shutil.copyfile(tvh, dst)
        os.chmod(dst, 0o755)
        bins[fl] = dst
    return bins


def fields(line):
    d = {}
    for kv in line.split(" "):
        if "=" in kv:
            k, v = kv.split("=", 1)
            d[k] = v
    return d


def model_mismatch(i, m):
    """compare an implementation line with a model line field by field; the model's `n/a` fields (or a whole
    line `n/a`) are not covered. Returns (None | description, number of fields compared)."""
    if m == "n/a":
        return None, 0
    if "=" not in m or "=" not in i:
        return (None if i == m else f"impl {i[:120]} model {m[:120]}"), 1
    fi, fm = fields(i), fields(m)
    n = 0
    for k, v in fm.items():
        if v == "n/a":
            continue
        n += 1
        if fi.get(k) != v:
            return f"field {k}: impl {str(fi.get(k))[:160]} model {v[:160]}", n
    for k in fi:
        if k not in fm:
            return f"field {k} only in the implementation line", n
    return None, n
