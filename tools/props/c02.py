"""C02 — decoded data is exactly what the document says."""
from props.parse_common import run_parse
def run(ctx):
    run_parse(ctx, "data")
