"""C18 — Cargo feature choices change performance or ordering only, never results."""
import os, random, struct
from vlib import *
import docgen
from props.parse_common import corpus_files

H18 = os.path.join(ROOT, "harness18")
CELLS_QUICK = ["parse,display", "parse,display,perf,preserve_order", "parse", "display"]
CELLS_ALL = ["parse,display", "parse,display,perf", "parse,display,preserve_order", "parse,display,perf,preserve_order",
             "parse", "parse,perf", "parse,preserve_order", "parse,perf,preserve_order",
             "display", "display,perf", "display,preserve_order", "display,perf,preserve_order",
             "parse,display,unbounded", "parse,display,edit_serde", "parse,display,perf,preserve_order,unbounded,edit_serde"]


def build_cell(ctx, feats):
    tdir = os.path.join(BUILD, "c18", feats.replace(",", "_"))
    try:
        shutil.copyfile(os.path.join(REPO, "Cargo.lock"), os.path.join(H18, "Cargo.lock"))
    except OSError:
        pass
    env = dict(ENV)
    env["CARGO_TARGET_DIR"] = tdir
    rc, out, err = sh(["cargo", "build", "--offline", "--features", feats], cwd=H18, env=env, timeout=3000)
    ctx.oblige(f"configuration [{feats}] builds", rc == 0, err[-1500:])
    return os.path.join(tdir, "debug", "tvh18") if rc == 0 else None


def battery():
    """fixed and deterministic: independent of VERIF_SEED"""
    rng = random.Random(18)
    g = docgen.Gen(rng)
    lines = []
    meta = []
    for _ in range(500):
        t, _ = g.document()
        lines.append("doc " + h(t.encode()))
        meta.append("generated")
    for n, d in corpus_files():
        try:
            d.decode()
        except UnicodeDecodeError:
            continue
        lines.append("doc " + h(d))
        meta.append("corpus:" + n)
    for n in (10, 78, 79, 80, 120, 200):
        for t in (f"x = {'[' * n}{']' * n}\n", "x = " + "{a=" * n + "1" + "}" * n + "\n", ".".join(["k"] * n) + " = 1\n"):
            lines.append("doc " + h(t.encode()))
            meta.append(f"depth:{n}")
    keys = ["zeta", "alpha", "m", "b", "a b", "é", "", "k2", "k10"]
    for _ in range(300):
        parts = []
        ks = rng.sample(keys, rng.randrange(1, 7))
        for k in ks:
            kind = rng.choice("sifbat")
            if kind == "s":
                pl = h(rng.choice(["x", "a\"b", "é\n", "", "'q'", "\\", "\t"]).encode())
            elif kind == "i":
                pl = str(rng.choice([0, -1, 7, 2**63 - 1, -2**63]))
            elif kind == "f":
                pl = "%016x" % struct.unpack("<Q", struct.pack("<d", rng.choice([0.0, -0.0, 1.5, 1e300, float("inf"), float("nan"), 0.1])))[0]
            elif kind == "b":
                pl = rng.choice("01")
            else:
                pl = ",".join(str(rng.randrange(100)) for _ in range(rng.randrange(0, 4))) or ","
            parts += [h(k.encode()), kind, pl]
        lines.append("build " + " ".join(parts))
        meta.append("build")
    # toml::Table used as a map: insert / remove histories (removal must keep the documented order)
    mk = ["zulu", "bravo", "mike", "alpha", "tango", "echo", "kilo", "yankee"]
    for _ in range(300):
        ops = []
        present = []
        for _ in range(rng.randrange(3, 14)):
            if present and rng.random() < 0.35:
                k = rng.choice(present + mk[:2])
                ops.append(f"{rng.choice(['rem', 'rem', 'erem'])} {k}")
            else:
                k = rng.choice(mk)
                ops.append(f"{rng.choice(['ins', 'ins', 'ins', 'eins'])} {k} {rng.randrange(100)}" if rng.random() < 0.93 else "ret")
            present = list(dict.fromkeys(present + [k]))
        lines.append("map " + ";".join(ops))
        meta.append("map")
    # toml::Table::deserialize from a serde stream whose size hint is absent, exact, too small or absurdly large
    for _ in range(60):
        n = rng.randrange(0, 6)
        ks = [rng.choice(mk) for _ in range(n)]
        hint = rng.choice(["none", str(n), "0", str(n + 3), "max", "max"])
        lines.append("hint " + hint + "".join(f" {k} {rng.randrange(100)}" for k in ks))
        meta.append("hint")
    return lines, meta


def map_reference(line, insertion):
    """plain reference ordered map: dict in insertion order (python dicts keep position on re-insert and close the gap on delete)"""
    d = {}
    rets = []
    for op in line[4:].split(";"):
        q = op.split(" ")
        if q[0] == "ins":
            rets.append(f"v{d[q[1]]}" if q[1] in d else "none")
            d[q[1]] = int(q[2])
        elif q[0] == "eins":      # entry(k).or_insert(n): keeps an existing value (and its position)
            d.setdefault(q[1], int(q[2]))
            rets.append(f"v{d[q[1]]}")
        elif q[0] == "ret":       # retain the even values, order kept
            for k in [k for k, v in d.items() if v % 2]:
                del d[k]
            rets.append("-")
        else:                     # rem / erem (occupied entry): the gap closes, order kept
            rets.append(f"v{d.pop(q[1])}" if q[1] in d else "none")
    items = list(d.items()) if insertion else sorted(d.items())
    return "map rets=" + ",".join(rets) + " iter=" + ",".join(f"{k}={v}" for k, v in items)


def fields(o):
    if not o.startswith(("ok ", "built ")):
        return {"_": o}
    return dict(x.split("=", 1) for x in o.split(" ")[1:])


def run(ctx):
    translate(ctx)
    mods = ["TomlVerif.Gen.CheckLex", "TomlVerif.Props.C18", "driver"]
    lake_build(ctx, mods, {"TomlVerif.Gen.CheckLex": "table theorems incl. LIMIT (the only configuration-dependent constant)", "TomlVerif.Props.C18": "property theorems"})
    audit(ctx, "TomlVerif.Props.C18", "TomlVerif/Props/C18.lean")
    # the same statements for every accepted TEXT (WellKeyed derived from the parser's state-machine invariant)
    lake_build(ctx, ["TomlVerif.Props.C18Parsed"], {"TomlVerif.Props.C18Parsed": "property theorems for every accepted text"})
    audit(ctx, "TomlVerif.Props.C18Parsed", "TomlVerif/Props/C18Parsed.lean")
    # toml::from_str::<toml::Value> under both map builds: same verdict, values equal up to order
    lake_build(ctx, ["TomlVerif.Props.C18Decode"], {"TomlVerif.Props.C18Decode": "property theorems: decodeValue under both map builds"})
    audit(ctx, "TomlVerif.Props.C18Decode", "TomlVerif/Props/C18Decode.lean")
    if ctx.tier == "thorough":
        for m in ("TomlVerif.Props.C18", "TomlVerif.Props.C18Parsed", "TomlVerif.Props.C18Decode"):
            leanchecker(ctx, m)
    cells = CELLS_QUICK if ctx.tier == "quick" else CELLS_ALL
    lines, meta = battery()
    rc, model, _ = run_lines(driver_path(), "c18", lines)
    outs = {}
    for c in cells:
        b = build_cell(ctx, c)
        if b is None:
            ctx.violation(f"configuration [{c}] does not build", {"cell": c, "witness": "build:" + c})
            continue
        p = subprocess.run([b], input="\n".join(lines) + "\n", capture_output=True, text=True, timeout=1800)
        o = p.stdout.split("\n")[:-1]
        if len(o) != len(lines):
            ctx.violation(f"configuration [{c}] crashed on the battery", {"cell": c, "witness": "crash:" + c})
            continue
        outs[c] = o
    # "every configuration builds", per package: a crate built ALONE does not get the features another workspace member would
    # switch on in its dependencies (feature unification), so each serde-on / serde-off cell is checked with `-p` on its own
    alone = [["-p", "toml_edit", "--no-default-features", "--features", "serde"], ["-p", "toml_edit", "--features", "serde"],
             ["-p", "toml_edit", "--features", "serde,perf"], ["-p", "toml_edit", "--no-default-features", "--features", "serde,parse"],
             ["-p", "toml_edit", "--no-default-features", "--features", "serde,display"], ["-p", "toml_edit", "--features", "unbounded"],
             ["-p", "toml_datetime"], ["-p", "toml_datetime", "--features", "serde"],
             ["-p", "serde_spanned"], ["-p", "serde_spanned", "--features", "serde"],
             ["-p", "toml_write", "--no-default-features"], ["-p", "toml_write", "--no-default-features", "--features", "alloc"],
             ["-p", "toml", "--no-default-features", "--features", "preserve_order"], ["-p", "toml", "--features", "preserve_order"]]
    for args in alone:
        env = dict(ENV)
        env["CARGO_TARGET_DIR"] = os.path.join(BUILD, "c18", "ws")
        rc, o, e = sh(["cargo", "check", "--offline"] + args, cwd=REPO, env=env, timeout=3000)
        ctx.oblige(f"cargo check {' '.join(args)} (the package alone)", rc == 0, e[-800:])
        if rc != 0:
            ctx.violation(f"`cargo check {' '.join(args)}` fails: the configuration does not build when the package is built alone", {"witness": "build:" + " ".join(args), "stderr": e[-1500:]})
    ctx.cov["per_package_configurations_checked"] = len(alone)
    if ctx.tier == "thorough":
        # the remaining Cargo-level cells only have to build: toml_edit without serde, each crate alone
        for args in (["-p", "toml_edit", "--no-default-features", "--features", "parse,display"], ["-p", "toml_edit", "--no-default-features", "--features", "parse"],
                     ["-p", "toml_edit", "--no-default-features", "--features", "display"], ["-p", "toml_edit", "--no-default-features"],
                     ["-p", "toml", "--no-default-features"], ["-p", "toml", "--no-default-features", "--features", "parse"], ["-p", "toml", "--no-default-features", "--features", "display,preserve_order"],
                     ["-p", "toml_edit", "--all-features"], ["-p", "toml", "--all-features"]):
            env = dict(ENV)
            env["CARGO_TARGET_DIR"] = os.path.join(BUILD, "c18", "ws")
            rc, o, e = sh(["cargo", "build", "--offline"] + args, cwd=REPO, env=env, timeout=3000)
            ctx.oblige(f"cargo build {' '.join(args)}", rc == 0, e[-800:])
            if rc != 0:
                ctx.violation(f"`cargo build {' '.join(args)}` fails", {"witness": "build:" + " ".join(args)})
    base = "parse,display"
    ndis = 0
    first = None
    compared = 0
    for c, o in outs.items():
        feats = set(c.split(","))
        for k, (ln, mt, x, m) in enumerate(zip(lines, meta, o, model)):
            bad = None
            fx = fields(x)
            if x == "PANIC":
                bad = "panic"
            elif ln.startswith("map"):
                want = map_reference(ln, "preserve_order" in feats)
                if x != want:
                    bad = f"toml::Table as a map: got `{x}`, a reference ordered map ({'insertion' if 'preserve_order' in feats else 'sorted'} order) gives `{want}`"
            elif ln.startswith("hint"):
                q = ln.split(" ")[2:]
                d = {}
                for kk, vv in zip(q[0::2], q[1::2]):
                    d[kk] = int(vv)
                items = list(d.items()) if "preserve_order" in feats else sorted(d.items())
                want = "hint ok iter=" + ",".join(f"{a}={b}" for a, b in items)
                if x != want:
                    bad = f"toml::Table::deserialize from a serde stream with size hint `{ln.split(' ')[1]}`: got `{x}`, expected `{want}`"
            elif ln.startswith("doc"):
                if "parse" not in feats:
                    continue
                fm = fields(m)
                deep = mt.startswith("depth:") and int(mt[6:]) >= 79
                if "unbounded" in feats and deep:
                    # documented exception: no recursion limit (the model keeps it)
                    if not x.startswith("ok "):
                        bad = "rejected although `unbounded` removes the recursion limit"
                else:
                    compared += 1
                    want_iter = fm.get("toml_insertion") if "preserve_order" in feats else fm.get("toml_sorted")
                    if x.startswith("ok ") != m.startswith("ok "):
                        bad = f"verdict {x[:20]!r}, model {m[:20]!r}"
                    elif x.startswith("ok "):
                        if fx["edit"] != fm["edit"]:
                            bad = "decoded toml_edit tree differs from the model"
                        elif fx["toml_sorted"] != fm["toml_sorted"]:
                            bad = "toml::Table data differs from the model"
                        elif fx["toml_iter"] != want_iter:
                            bad = f"toml::Table iteration order is not the documented one for this configuration ({'insertion' if 'preserve_order' in feats else 'sorted'})"
                        elif fx.get("eq") == "0":
                            bad = "toml::Table == depends on the order in which equal entries were inserted in this configuration"
                    if bad is None and x != m and (x.startswith("ok ") != m.startswith("ok ")):
                        ndis += 1
                # printed text must not depend on the configuration
                if bad is None and base in outs and "display" in feats and x.startswith("ok "):
                    fb = fields(outs[base][k])
                    if fb.get("print") != fx.get("print") and not ("unbounded" in feats and deep):
                        bad = f"printed text differs from the default configuration"
            else:
                if "display" not in feats:
                    continue
                if base in outs:
                    fb = fields(outs[base][k])
                    if fb.get("edit") != fx.get("edit"):
                        bad = "toml_edit prints a built document differently than in the default configuration"
                    elif fb.get("toml") != fx.get("toml") and "preserve_order" not in feats:
                        bad = "toml::Table prints a built table differently than in the default configuration"
                    elif "preserve_order" in feats and fx.get("toml") is not None:
                        # documented exception: insertion order; same lines, possibly another order
                        a = sorted(unh(fb["toml"]).decode().split("\n")) if fb.get("toml") not in (None, "-") else []
                        b2 = sorted(unh(fx["toml"]).decode().split("\n")) if fx.get("toml") not in (None, "-") else []
                        if a != b2:
                            bad = "toml::Table under preserve_order prints different lines, not just another order"
            if bad:
                ctx.violation(f"[{c}] {mt} `{ln[:70]}`: {bad}", {"cell": c, "case": ln, "impl": x[:1500], "model": m[:1500], "witness": f"{c}|{ln}"})
                if first is None:
                    first = (c, ln[:100], bad)
    ctx.oblige("correspondence c18: in every configuration verdicts, decoded trees, toml::Table data and its iteration order equal the model instance for that configuration; printed text equals the default configuration's",
               not ctx.violations, f"first: {first}")
    if ctx.broken and not ctx.violations:
        for n, d in ctx.broken:
            ctx.violation(f"obligation no longer checks: {n}", {"unchecked": n, "detail": d[:1500]}, concrete=False)
    ctx.cov.update({
        "evaluations": len(lines) * len(outs), "distinct_nontrivial": len(set(lines)),
        "rule": f"fixed battery (seed-independent): 500 generated documents, the UTF-8 toml-test files, 18 depth documents, 300 API-built documents; run under {len(cells)} feature configurations of a dedicated crate (harness18) whose features map to the crates' features; thorough adds the Cargo-only cells (serde off, each crate alone, all-features). The configuration space is finite and enumerated. non-trivial = distinct battery line",
        "exhaustive": ctx.tier == "thorough", "configurations": cells, "samples": [lines[3][:100], lines[-5][:120]],
        "compared_with_model": compared, "traces_validated_against_impl": len(lines) * len(outs),
    })
