"""C13, typed targets: random target TYPES (the grammar of harness/src/c13typed.rs and Model/DeTyped.lean), valid
instances of a type rendered as TOML in several layouts (inline / header / dotted / array of tables) together with
the decoded value the generator intends (`Dec` string), structural defects of such instances, perturbed types.

python forms
  type   ('b',) ('int', 'i8'…'u64') ('f64',) ('f32',) ('s',) ('c',) ('u',) ('dt',) ('da',) ('ti',) ('v',) ('g',)
         ('O', t) ('V', t) ('T', [t…]) ('M', t) ('N', t) ('S', [(name, t, dflt)…]) ('E', [(name, shape)…])
  shape  ('unit',) ('N', t) ('T', [t…]) ('S', fields)
  data   ('s', str) ('i', int) ('f', toml text) ('b', bool) ('d', toml text) ('a', [data…]) ('t', [(key, data)…], ordered)
"""
import struct

PRIVATE = "$__toml_private_datetime"
INT_RANGE = {"i8": (-2**7, 2**7 - 1), "i16": (-2**15, 2**15 - 1), "i32": (-2**31, 2**31 - 1), "i64": (-2**63, 2**63 - 1),
             "u8": (0, 2**8 - 1), "u16": (0, 2**16 - 1), "u32": (0, 2**32 - 1), "u64": (0, 2**63 - 1)}
NAMES = ["a", "b", "name", "x", "y", "level", "k ey", "é", "a.b", "", "1", "0", "opt", "Fast", "type", "a-b_c"]
VNAMES = ["Fast", "Slow", "Custom", "Pair", "Tuned", "A", "b", "x y", "0", "é"]
STRS = ["", "x", "TOML", "héllo", "line\nbreak", 'quote"s', "it's", "\x7f", "tab\there", " ", "1979-05-27", "back\\slash", "Fast", "\U0001F600", "0"]
CHARS = ["x", "é", "\n", '"', "\U0001F600", " ", "0"]
# (toml text, show_dt form)
DATETIMES = [("1979-05-27T07:32:00Z", "1979-5-27|7:32:0:0|Z"), ("1979-05-27T00:32:00-07:00", "1979-5-27|0:32:0:0|-420"),
             ("1979-05-27T00:32:00.5", "1979-5-27|0:32:0:500000000|-"), ("2000-02-29 12:00:00.000000001+00:01", "2000-2-29|12:0:0:1|1")]
DATES = [("1979-05-27", "1979-5-27|-|-"), ("0000-01-01", "0-1-1|-|-"), ("9999-12-31", "9999-12-31|-|-")]
TIMES = [("07:32:00", "-|7:32:0:0|-"), ("00:32:00.5", "-|0:32:0:500000000|-"), ("23:59:60.999999999", "-|23:59:60:999999999|-")]
# (toml text, f64 bits)
FLOATS = [(t, struct.unpack("<Q", struct.pack("<d", float(t)))[0]) for t in
          ["1.5", "-0.0", "inf", "-inf", "nan", "1e3", "0.1", "5e-324", "1.7976931348623157e308", "3.4028235677973366e38", "1e-46",
           "16777217.0", "3.4028235e38", "3.4028236e38", "1e39", "-2.5"]]
F_INTS = [0, 1, -7, 42, 2**24, -(2**24), 2**53, 2**53 + 1, 2**63 - 1, -2**63, 10**6]


def hx(s):
    b = s.encode() if isinstance(s, str) else s
    return b.hex() if b else "-"


def enc_fields(fs):
    return ",".join(f"{hx(n)}{'?' if d else ':'}{enc(t)}" for n, t, d in fs)


def enc(t):
    k = t[0]
    if k == "int":
        return t[1]
    if k in ("O", "V", "M", "N"):
        return f"{k}({enc(t[1])})"
    if k == "T":
        return "T(" + ",".join(enc(x) for x in t[1]) + ")"
    if k == "S":
        return "S(" + enc_fields(t[1]) + ")"
    if k == "E":
        out = []
        for n, sh in t[1]:
            if sh[0] == "unit":
                out.append(hx(n))
            elif sh[0] == "N":
                out.append(f"{hx(n)}:N({enc(sh[1])})")
            elif sh[0] == "T":
                out.append(f"{hx(n)}:T(" + ",".join(enc(x) for x in sh[1]) + ")")
            else:
                out.append(f"{hx(n)}:S(" + enc_fields(sh[1]) + ")")
        return "E(" + ",".join(out) + ")"
    return k


def f64_bits_of_int(n):
    return struct.unpack("<Q", struct.pack("<d", float(n)))[0]


def f32_of_bits(bits):
    """`(v as f32).copysign(v)` for the f64 with these bits, as the 8-hex-digit form of the harness"""
    x = struct.unpack("<d", struct.pack("<Q", bits))[0]
    if x != x:
        return "ffc00000" if bits >> 63 else "7fc00000"
    try:
        return "%08x" % struct.unpack("<I", struct.pack("<f", x))[0]
    except OverflowError:
        return "ff800000" if x < 0 else "7f800000"


def plain_data(d):
    """the `plain_toml` form of a data tree decoded into toml::Value"""
    k = d[0]
    if k == "s":
        return "s" + hx(d[1])
    if k == "i":
        return f"i{d[1]}"
    if k == "f":
        return "f%016x" % dict(FLOATS)[d[1]]
    if k == "b":
        return "b1" if d[1] else "b0"
    if k == "d":
        return "d" + dict(DATETIMES + DATES + TIMES)[d[1]]
    if k == "a":
        return "[" + ";".join(plain_data(x) for x in d[1]) + "]"
    ents = sorted(((kk.encode(), plain_data(v)) for kk, v in d[1]), key=lambda e: e[0])
    return "{" + ";".join(f"{hx(kk)}={v}" for kk, v in ents) + "}"


class TypedGen:
    def __init__(self, rng, hist):
        self.r = rng
        self.hist = hist

    def hit(self, k):
        self.hist[k] = self.hist.get(k, 0) + 1

    # ---- types ---------------------------------------------------------------------------
    def leaf(self, inhabited):
        r = self.r
        ks = [("b",), ("int", r.choice(list(INT_RANGE))), ("f64",), ("f32",), ("s",), ("c",), ("dt",), ("da",), ("ti",), ("v",), ("g",),
              ("int", "i64"), ("s",)]
        if not inhabited:
            ks.append(("u",))
        return r.choice(ks)

    def names(self, n, pool):
        return self.r.sample(pool, n)

    def fields(self, depth, inhabited):
        r = self.r
        n = r.choice([0, 1, 2, 2, 3, 4])
        out = []
        for name in self.names(n, NAMES):
            t = self.ty(depth + 1, inhabited) if r.random() < 0.8 else ("O", self.ty(depth + 1, inhabited))
            out.append((name, t, r.random() < 0.2))
        return out

    def shape(self, depth, inhabited):
        r = self.r
        k = r.randrange(5)
        if k <= 1:
            return ("unit",)
        if k == 2:
            return ("N", self.ty(depth + 1, inhabited))
        if k == 3:
            return ("T", [self.ty(depth + 1, inhabited) for _ in range(r.choice([0, 2, 2, 3]))])
        return ("S", self.fields(depth + 1, inhabited))

    def ty(self, depth=0, inhabited=True):
        r = self.r
        if depth >= 3 or r.random() < 0.3:
            return self.leaf(inhabited)
        k = r.randrange(8)
        if k == 0:
            return ("O", self.ty(depth + 1, inhabited))
        if k == 1:
            return ("V", self.ty(depth + 1, inhabited))
        if k == 2:
            return ("T", [self.ty(depth + 1, inhabited) for _ in range(r.choice([1, 2, 2, 3]))])
        if k == 3:
            return ("M", self.ty(depth + 1, inhabited))
        if k == 4:
            return ("N", self.ty(depth + 1, inhabited))
        if k in (5, 6):
            return ("S", self.fields(depth, inhabited))
        n = r.choice([1, 2, 3, 4])
        return ("E", [(name, self.shape(depth, inhabited)) for name in self.names(n, VNAMES)])

    def root_ty(self):
        """a type a document can decode into: the root is a table"""
        r = self.r
        k = r.randrange(10)
        if k <= 6:
            fs = self.fields(0, True)
            if not fs:
                fs = [("x", self.ty(1), False)]
            return ("S", fs)
        if k == 7:
            return ("M", self.ty(1))
        if k == 8:
            return ("N", ("S", self.fields(1, True)))
        return ("O", ("S", self.fields(1, True)))

    # ---- instances -----------------------------------------------------------------------
    def any_data(self, depth=0):
        r = self.r
        k = r.randrange(8 if depth < 2 else 5)
        if k == 0:
            return ("s", r.choice(STRS))
        if k == 1:
            return ("i", r.choice([0, 1, -1, 42, 2**63 - 1, -2**63]))
        if k == 2:
            return ("b", r.random() < 0.5)
        if k == 3:
            return ("d", r.choice(DATETIMES + DATES + TIMES)[0])
        if k == 4:
            return ("f", r.choice(FLOATS)[0])
        if k == 5:
            return ("a", [self.any_data(depth + 1) for _ in range(r.randrange(3))])
        keys = self.names(r.randrange(3), NAMES)
        return ("t", [(kk, self.any_data(depth + 1)) for kk in keys], False)

    def struct_instance(self, fs, as_seq_ok=True, extras=True):
        r = self.r
        if fs and as_seq_ok and r.random() < 0.08:
            # `visit_seq` of the derived visitor: every field, in order
            self.hit("struct-as-array")
            items, decs = [], []
            for n, t, d in fs:
                dd, dec = self.instance(t)
                items.append(dd)
                decs.append((n, dec))
            return ("a", items), decs
        ents, decs = [], []
        for n, t, d in fs:
            optional = d or t[0] == "O"
            if optional and r.random() < 0.4:
                decs.append((n, "D" if d else "N"))
                self.hit("field-absent-default" if d else "field-absent-option")
                continue
            dd, dec = self.instance(t)
            ents.append((n, dd))
            decs.append((n, dec))
        if extras and r.random() < 0.25:
            have = {n for n, _, _ in fs}
            for kk in self.names(r.choice([1, 1, 2]), NAMES + ["extra", "zz"]):
                if kk not in have:
                    ents.append((kk, self.any_data(1)))
                    self.hit("unknown-field")
        r.shuffle(ents)
        return ("t", ents, False), decs

    def named(self, decs):
        return ";".join(f"{hx(n)}={d}" for n, d in decs)

    def instance(self, t):
        """(data, intended Dec string) of a value of type t that every route must accept"""
        r = self.r
        k = t[0]
        if k == "b":
            v = r.random() < 0.5
            return ("b", v), "b1" if v else "b0"
        if k == "int":
            lo, hi = INT_RANGE[t[1]]
            v = r.choice([lo, hi, 0, 1, max(lo, -1), min(hi, 42), r.randrange(lo, hi + 1)])
            return ("i", v), f"i{v}"
        if k == "f64":
            if r.random() < 0.3:
                v = r.choice(F_INTS)
                return ("i", v), "f%016x" % (f64_bits_of_int(v) if v != 0 else 0)
            text, bits = r.choice(FLOATS)
            return ("f", text), "f%016x" % bits
        if k == "f32":
            if r.random() < 0.3:
                v = r.choice([0, 1, -7, 42, 2**24, -(2**24), 10**6, 2**40])
                return ("i", v), "g" + f32_of_bits(f64_bits_of_int(v) if v != 0 else 0)
            text, bits = r.choice(FLOATS)
            return ("f", text), "g" + f32_of_bits(bits)
        if k == "s":
            v = r.choice(STRS)
            return ("s", v), "s" + hx(v)
        if k == "c":
            v = r.choice(CHARS)
            return ("s", v), "c" + hx(v)
        if k == "dt":
            text, shown = r.choice(DATETIMES + DATES + TIMES)
            return ("d", text), "d" + shown
        if k == "da":
            text, shown = r.choice(DATES)
            return ("d", text), "d" + shown
        if k == "ti":
            text, shown = r.choice(TIMES)
            return ("d", text), "d" + shown
        if k == "v":
            d = self.any_data(1)
            return d, "V" + plain_data(d)
        if k == "g":
            return self.any_data(1), "_"
        if k == "O":
            d, dec = self.instance(t[1])
            return d, f"O({dec})"
        if k == "V":
            xs = [self.instance(t[1]) for _ in range(r.choice([0, 1, 2, 3]))]
            return ("a", [x[0] for x in xs]), "[" + ";".join(x[1] for x in xs) + "]"
        if k == "T":
            xs = [self.instance(x) for x in t[1]]
            return ("a", [x[0] for x in xs]), "(" + ";".join(x[1] for x in xs) + ")"
        if k == "M":
            keys = self.names(r.choice([0, 1, 2, 3]), NAMES)
            xs = [(kk, self.instance(t[1])) for kk in keys]
            decs = sorted(((kk.encode(), x[1]) for kk, x in xs), key=lambda e: e[0])
            return ("t", [(kk, x[0]) for kk, x in xs], False), "{" + ";".join(f"{hx(kk)}={d}" for kk, d in decs) + "}"
        if k == "N":
            d, dec = self.instance(t[1])
            return d, f"W({dec})"
        if k == "S":
            d, decs = self.struct_instance(t[1])
            return d, "S{" + self.named(decs) + "}"
        if k == "E":
            name, sh = r.choice(t[1])
            # the first variant of that name is the one serde finds
            name, sh = next((n, s) for n, s in t[1] if n == name)
            tag = "E" + hx(name)
            if sh[0] == "unit":
                c = r.randrange(4)
                self.hit("unit-variant-" + ["string", "string", "empty-table", "empty-array"][c])
                if c <= 1:
                    return ("s", name), tag
                return ("t", [(name, ("t", [], False) if c == 2 else ("a", []))], False), tag
            if sh[0] == "N":
                d, dec = self.instance(sh[1])
                return ("t", [(name, d)], False), f"{tag}:{dec}"
            if sh[0] == "T":
                xs = [self.instance(x) for x in sh[1]]
                dec = f"{tag}(" + ";".join(x[1] for x in xs) + ")"
                if r.random() < 0.35:
                    self.hit("tuple-variant-from-table")
                    return ("t", [(name, ("t", [(str(i), x[0]) for i, x in enumerate(xs)], True))], False), dec
                return ("t", [(name, ("a", [x[0] for x in xs]))], False), dec
            d, decs = self.struct_instance(sh[1], extras=False)
            return ("t", [(name, d)], False), f"{tag}{{" + self.named(decs) + "}"
        raise ValueError(t)

    # ---- defects -------------------------------------------------------------------------
    def defect(self, d):
        """one structural change somewhere in a data tree"""
        r = self.r
        nodes = []

        containers = []

        def walk(x, path):
            nodes.append(path)
            if x[0] in ("a", "t"):
                containers.append(path)
            if x[0] == "a":
                for i, y in enumerate(x[1]):
                    walk(y, path + [i])
            elif x[0] == "t":
                for i, (_, y) in enumerate(x[1]):
                    walk(y, path + [i])
        walk(d, [])
        target = r.choice(containers) if containers and r.random() < 0.75 else r.choice(nodes)

        def change(x):
            k = x[0]
            if k == "a":
                c = r.randrange(4)
                if c == 0:
                    self.hit("defect-extra-element")
                    return ("a", x[1] + [self.any_data(2)])
                if c == 1 and x[1]:
                    self.hit("defect-drop-element")
                    return ("a", x[1][:-1])
                if c == 2 and len(x[1]) > 1:
                    self.hit("defect-swap-elements")
                    return ("a", x[1][::-1])
            if k == "t":
                c = r.randrange(4)
                if c == 0:
                    self.hit("defect-extra-key")
                    return ("t", x[1] + [(r.choice(["extra", "zz", "2", "Fast"]), self.any_data(2))], x[2])
                if c == 1 and x[1]:
                    self.hit("defect-drop-key")
                    i = r.randrange(len(x[1]))
                    return ("t", x[1][:i] + x[1][i + 1:], x[2])
                if c == 2 and len(x[1]) > 1:
                    self.hit("defect-reorder-keys")
                    return ("t", x[1][::-1], x[2])
                if c == 3 and x[1]:
                    self.hit("defect-rename-key")
                    i = r.randrange(len(x[1]))
                    return ("t", x[1][:i] + [(r.choice(NAMES + VNAMES), x[1][i][1])] + x[1][i + 1:], x[2])
            self.hit("defect-replace-value")
            return self.any_data(1)

        def rebuild(x, path):
            if not path:
                return change(x)
            i = path[0]
            if x[0] == "a":
                return ("a", x[1][:i] + [rebuild(x[1][i], path[1:])] + x[1][i + 1:])
            return ("t", x[1][:i] + [(x[1][i][0], rebuild(x[1][i][1], path[1:]))] + x[1][i + 1:], x[2])
        return rebuild(d, target)

    def perturb_ty(self, t):
        """a type close to t"""
        r = self.r
        k = t[0]
        if k in ("O", "V", "M", "N") and r.random() < 0.7:
            return (k, self.perturb_ty(t[1]))
        if k == "T" and t[1] and r.random() < 0.7:
            i = r.randrange(len(t[1]))
            c = r.randrange(3)
            if c == 0:
                return ("T", t[1][:i] + [self.perturb_ty(t[1][i])] + t[1][i + 1:])
            if c == 1 and len(t[1]) > 1:
                return ("T", t[1][:-1])
            return ("T", t[1] + [self.leaf(False)])
        if k == "S" and t[1] and r.random() < 0.8:
            i = r.randrange(len(t[1]))
            n, ft, d = t[1][i]
            c = r.randrange(5)
            if c == 0:
                return ("S", t[1][:i] + [(n, self.perturb_ty(ft), d)] + t[1][i + 1:])
            if c == 1:
                return ("S", t[1][:i] + t[1][i + 1:])
            if c == 2:
                return ("S", t[1] + [(r.choice(["added", "zz"]), self.leaf(False), r.random() < 0.3)])
            if c == 3:
                return ("S", t[1][:i] + [(n, ft, not d)] + t[1][i + 1:])
            return ("S", t[1][:i] + [(n, ("O", ft) if ft[0] != "O" else ft[1], d)] + t[1][i + 1:])
        if k == "E" and r.random() < 0.8:
            i = r.randrange(len(t[1]))
            n, sh = t[1][i]
            c = r.randrange(3)
            if c == 0:
                return ("E", t[1][:i] + [(n, self.shape(2, False))] + t[1][i + 1:])
            if c == 1 and len(t[1]) > 1:
                return ("E", t[1][:i] + t[1][i + 1:])
            if sh[0] in ("N",):
                return ("E", t[1][:i] + [(n, ("N", self.perturb_ty(sh[1])))] + t[1][i + 1:])
            if sh[0] == "S" and sh[1]:
                return ("E", t[1][:i] + [(n, ("S", self.perturb_ty(("S", sh[1]))[1]))] + t[1][i + 1:])
            return ("E", t[1][:i] + [(n, self.shape(2, False))] + t[1][i + 1:])
        return self.leaf(False) if r.random() < 0.7 else self.ty(2, False)

    # ---- rendering -----------------------------------------------------------------------
    def key(self, k):
        if k and all(c.isascii() and (c.isalnum() or c in "_-") for c in k) and self.r.random() < 0.8:
            return k
        return self.basic(k)

    def basic(self, s):
        out = ['"']
        for ch in s:
            o = ord(ch)
            if ch == '"':
                out.append('\\"')
            elif ch == "\\":
                out.append("\\\\")
            elif ch == "\n" and self.r.random() < 0.5:
                out.append("\\n")
            elif o < 0x20 or o == 0x7F:
                out.append("\\u%04x" % o)
            else:
                out.append(ch)
        out.append('"')
        return "".join(out)

    def string(self, s):
        if "'" not in s and all(ord(c) >= 0x20 and ord(c) != 0x7F or c == "\t" for c in s) and self.r.random() < 0.3:
            return "'" + s + "'"
        return self.basic(s)

    def inline(self, d):
        k = d[0]
        if k == "s":
            return self.string(d[1])
        if k == "i":
            return str(d[1])
        if k in ("f", "d"):
            return d[1]
        if k == "b":
            return "true" if d[1] else "false"
        if k == "a":
            return "[" + ", ".join(self.inline(x) for x in d[1]) + "]"
        if not d[1]:
            return "{}"
        return "{ " + ", ".join(f"{self.key(kk)} = {self.inline(v)}" for kk, v in d[1]) + " }"

    def document(self, root, layout=None):
        """TOML text of the data tree `root` (a table). layout: None = mixed, 'inline', 'header', 'dotted'"""
        r = self.r
        chunks = []

        def pick(options):
            if layout in options:
                return layout if r.random() < 0.85 else r.choice(options)
            return r.choice(options)

        def body(path, entries, allow_header):
            lines, deferred = [], []

            def entry(rel, v, hdr):
                if v[0] == "t" and not v[2]:
                    opts = ["inline"]
                    if v[1]:
                        opts.append("dotted")
                    if hdr:
                        opts.append("header")
                    c = pick(opts)
                    self.hit("layout-table-" + c)
                    if c == "dotted":
                        for kk, vv in v[1]:
                            entry(rel + [kk], vv, False)
                        return
                    if c == "header":
                        deferred.append(("table", path + rel, v))
                        return
                elif v[0] == "a" and hdr and v[1] and all(x[0] == "t" and not x[2] for x in v[1]) and pick(["inline", "header"]) == "header":
                    self.hit("layout-array-of-tables")
                    deferred.append(("aot", path + rel, v))
                    return
                lines.append(".".join(self.key(kk) for kk in rel) + " = " + self.inline(v))
            for kk, v in entries:
                entry([kk], v, allow_header)
            return lines, deferred

        def section(path, entries):
            lines, deferred = body(path, entries, True)
            chunks.extend(lines)
            for kind, p, v in deferred:
                hdr = ".".join(self.key(kk) for kk in p)
                if kind == "table":
                    chunks.append(f"[{hdr}]")
                    section(p, v[1])
                else:
                    for el in v[1]:
                        chunks.append(f"[[{hdr}]]")
                        section(p, el[1])
        section([], root[1])
        return "\n".join(chunks) + "\n"


# the derived types of harness/src/c13.rs in the type grammar
def _s(*fs):
    return ("S", [(n, t, False) for n, t in fs])


_I64, _STR = ("int", "i64"), ("s",)
MODE = ("E", [("Fast", ("unit",)), ("Slow", ("unit",)), ("Custom", ("N", _I64)),
              ("Tuned", ("S", [("level", ("int", "u8"), False), ("label", _STR, False)])), ("Pair", ("T", [_I64, _STR]))])
OWNER = _s(("name", _STR), ("dob", ("O", ("dt",))))
SERVER = _s(("ip", _STR), ("port", ("int", "u16")), ("role", ("O", _STR)))
PT = _s(("x", _I64), ("y", _I64))
OWNERN = _s(("name", _STR), ("nick", ("O", _STR)))
CONFIG = _s(("title", _STR), ("n", _I64), ("f", ("f64",)), ("flag", ("b",)), ("when", ("dt",)), ("tags", ("V", _STR)), ("owner", OWNER),
            ("servers", ("M", SERVER)), ("mode", MODE), ("opt", ("O", _I64)), ("last", _STR))
PLAIN = _s(("title", _STR), ("n", _I64), ("f", ("f64",)), ("flag", ("b",)), ("tags", ("V", _STR)), ("owner", OWNERN), ("servers", ("M", SERVER)),
           ("pts", ("V", PT)), ("mode", MODE), ("modes", ("V", MODE)), ("nested", ("V", ("V", _I64))), ("opt", ("O", _I64)), ("last", _STR))
DATES_T = _s(("d", ("da",)), ("t", ("ti",)), ("dt", ("dt",)), ("list", ("V", ("dt",))), ("od", ("O", ("da",))))
_U64 = ("int", "u64")
INTS_T = _s(("u", _U64), ("us", _U64), ("i", _I64), ("a", ("int", "u32")), ("b", ("int", "i32")), ("c", ("int", "u16")), ("d", ("int", "i16")),
            ("e", ("int", "u8")), ("g", ("int", "i8")), ("x", ("f32",)), ("list", ("V", _U64)), ("o", ("O", _U64)), ("m", ("M", _U64)))
S_T = _s(("when", ("dt",)))
TARGET_TY = {"config": CONFIG, "plain": PLAIN, "dates": DATES_T, "ints": INTS_T, "s": S_T, "owner": OWNER,
             "vowner": OWNER, "vmode": MODE, "vpt": PT}

# the verdict differences between the two deserializer families, one witness each (results never differ)
_n = hx
_MODE = enc(MODE)
SPLIT_WITNESSES = [
    ("typedv", "T(i64,i64)", "[1, 2, 3]", "trailing-element-tuple"),
    ("typedv", f"S({_n('x')}:i64,{_n('y')}:i64)", "[1, 2, 3]", "trailing-element-struct-from-array"),
    ("typedv", _MODE, '{ Tuned = [1, "l", 5] }', "trailing-element-struct-variant-from-array"),
    ("typedv", _MODE, '{ Tuned = { level = 1, label = "l", extra = 2 } }', "unknown-key-in-struct-variant"),
    ("typedv", _MODE, '{ Pair = { 1 = "a", 0 = 1 } }', "tuple-variant-table-key-order"),
    ("typedv", f"E({_n('V')}:T(" + ",".join(["i64"] * 11) + "))", "{ V = { " + ", ".join(f"{i} = {i}" for i in range(11)) + " } }", "tuple-variant-table-eleven-keys"),
    ("typedv", "M(O(s))", "1979-05-27", "datetime-as-map-of-option"),
    ("typedv", "M(N(s))", "1979-05-27", "datetime-as-map-of-newtype"),
    ("typedv", f"S({_n(PRIVATE)}:O(s))", "1979-05-27", "datetime-as-struct-with-private-field"),
    ("typed", f"S({_n('m')}:{_MODE})", 'm.Pair.1 = "x"\nm.Pair.0 = 1\n', "tuple-variant-table-key-order-document"),
    ("typed", f"S({_n('m')}:{_MODE})", '[m.Tuned]\nlevel = 1\nlabel = "x"\nzz = 0\n', "unknown-key-in-struct-variant-document"),
    ("typed", f"S({_n('p')}:T(i64,s))", 'p = [1, "x", true]\n', "trailing-element-tuple-document"),
    # components of the SAME type: if a route accepted the shuffled keys without reordering, two routes would succeed
    # with different values
    ("typedv", f"E({_n('Span')}:T(i64,i64))", "{ Span = { 1 = 5, 0 = 7 } }", "tuple-variant-table-key-order-same-type"),
    ("typedv", f"E({_n('Span')}:T(s,s,s))", '{ Span = { 2 = "c", 0 = "a", 1 = "b" } }', "tuple-variant-table-key-order-same-type-3"),
    ("typed", f"S({_n('m')}:E({_n('Span')}:T(i64,i64)))", "[m.Span]\n1 = 5\n0 = 7\n", "tuple-variant-table-key-order-same-type-document"),
    ("typed", f"E({_n('Span')}:T(i64,i64))", "[Span]\n1 = 5\n0 = 7\n", "tuple-variant-table-key-order-same-type-root"),
]
AGREE_WITNESSES = [
    ("typedv", _MODE, '"Fast"'), ("typedv", _MODE, '"Custom"'), ("typedv", _MODE, "{ Custom = 5 }"), ("typedv", _MODE, '{ Pair = [1, "a"] }'),
    ("typedv", _MODE, '{ Pair = { 0 = 1, 1 = "a" } }'), ("typedv", _MODE, '{ Pair = { "+0" = 1, "01" = "a" } }'), ("typedv", _MODE, "{ Fast = {} }"),
    ("typedv", _MODE, "{ Fast = [] }"), ("typedv", _MODE, "{ Fast = 1 }"), ("typedv", _MODE, "{}"), ("typedv", _MODE, "{ Fast = {}, Slow = {} }"),
    ("typedv", _MODE, "1"), ("typedv", _MODE, "[]"), ("typedv", _MODE, "1979-05-27"), ("typedv", _MODE, '{ Tuned = [1, "l"] }'), ("typedv", _MODE, '{ Tuned = [1] }'),
    ("typedv", "N(i64)", "1"), ("typedv", "N(i64)", "[1]"), ("typedv", "O(O(i64))", "1"), ("typedv", "u", "1"), ("typedv", "O(u)", "1"),
    ("typedv", "g", "{ a = [1, { b = 1979-05-27 }] }"), ("typedv", "V(i64)", "{ a = 1 }"), ("typedv", "M(i64)", "[1]"), ("typedv", "M(s)", "1979-05-27"),
    ("typedv", "f64", "1"), ("typedv", "f64", "9007199254740993"), ("typedv", "f32", "0.1"), ("typedv", "f32", "9007199254740993"), ("typedv", "f32", "1e39"),
    ("typedv", "f32", "-nan"), ("typedv", "f32", "1e-46"), ("typedv", "f32", "16777217"), ("typedv", "f32", "-9223372036854775808"),
    ("typedv", "c", '"é"'), ("typedv", "c", '"ab"'), ("typedv", "c", '""'), ("typedv", "u8", "256"), ("typedv", "u8", "-1"), ("typedv", "i8", "-128"), ("typedv", "u64", "9223372036854775807"),
    ("typedv", "dt", "1979-05-27"), ("typedv", "da", "1979-05-27T07:32:00Z"), ("typedv", "ti", "07:32:00"), ("typedv", "dt", '"1979-05-27"'),
    ("typedv", "dt", '{ "$__toml_private_datetime" = "1979-05-27" }'), ("typedv", "s", "1979-05-27"), ("typedv", "v", "1979-05-27"),
    ("typedv", f"S({_n('x')}:i64,{_n('y')}?i64)", "[1]"), ("typedv", f"S({_n('x')}:i64,{_n('y')}:O(i64))", "[1]"), ("typedv", f"S({_n('x')}:i64,{_n('y')}:O(i64))", "{ x = 1 }"),
    ("typedv", f"S({_n('x')}:i64,{_n('y')}?i64)", "{ x = 1, z = { w = [1979-05-27] } }"), ("typedv", f"S({_n('x')}:u)", "{}"), ("typedv", f"S({_n('x')}:O(u))", "{}"),
    ("typedv", "T(i64)", "[1]"), ("typedv", "T(i64,i64)", "[1]"), ("typedv", "V(T(i64,s))", '[[1, "a"], [2, "b"]]'),
    ("typed", f"S({_n('a')}:V(S({_n('x')}:i64)))", "[[a]]\nx = 1\n[[a]]\nx = 2\n"), ("typed", f"S({_n('m')}:{_MODE})", "[m.Fast]\n"),
    ("typed", f"S({_n('m')}:{_MODE})", "[[m.Fast]]\n"), ("typed", f"S({_n('m')}:{_MODE})", "[m]\nFast = []\n"), ("typed", f"S({_n('m')}:{_MODE})", '[m.Pair]\n0 = 1\n1 = "x"\n'),
    ("typed", "M(M(i64))", "[b]\ny = 1\n[a]\nx = 2\n"), ("typed", "N(M(i64))", "a = 1\n"), ("typed", "O(M(i64))", "a = 1\n"), ("typed", "v", "a = 1\n"), ("typed", "g", "a = 1\n"),
    ("typed", _MODE, "Custom = 5\n"), ("typed", _MODE, "[Tuned]\nlevel = 1\nlabel = \"x\"\n"), ("typed", "i64", "a = 1\n"), ("typed", "V(i64)", ""),
]


# known finding F24 (the private date-time key used as an ordinary key) as it shows for typed targets: the routes through
# toml::Value turn the table into a date-time and the other entries are lost — a RESULT difference, filtered as F24
PRIVATE_WITNESSES = [
    ("typed", f"S({_n('x')}:S({_n(PRIVATE)}:s,{_n('y')}:O(i64)))", 'x = { "$__toml_private_datetime" = "1979-05-27", y = 1 }\n'),
    ("typed", f"S({_n('x')}:M(v))", 'x = { "$__toml_private_datetime" = "1979-05-27", y = 1 }\n'),
    ("typed", f"S({_n('x')}:dt)", 'x = { "$__toml_private_datetime" = "1979-05-27", y = 1 }\n'),
    ("typed", f"S({_n('x')}:dt)", 'x = { y = 1, "$__toml_private_datetime" = "1979-05-27" }\n'),
    ("typedv", "dt", '{ "$__toml_private_datetime" = "1979-05-27", y = 1 }'),
    ("typedv", f"S({_n(PRIVATE)}:s)", "1979-05-27"),
]


def gen_typed(rng, big, hist):
    """[(flavour, case line, kind, intended Dec or None)]"""
    g = TypedGen(rng, hist)
    out = []
    for j in range(400 if big else 60):
        n = rng.choice([2, 2, 3, 4])
        leaf, lit = rng.choice([("i64", lambda i: str(10 + i)), ("s", lambda i: f'"v{i}"'), ("b", lambda i: "true" if i % 2 else "false"), ("f64", lambda i: f"{i}.5")])
        ty = f"E({hx('V')}:T(" + ",".join([leaf] * n) + f"),{hx('U')})"
        order = list(range(n))
        rng.shuffle(order)
        body = ", ".join(f"{i} = {lit(i)}" for i in order)
        fl = "SP"[j % 2]
        out.append((fl, f"typedv {fl} {ty} {hx('{ V = { ' + body + ' } }')}", "typed-tuple-variant-shuffled-keys", None))
        out.append((fl, f"typed {fl} S({hx('m')}:{ty}) {hx('[m.V]' + chr(10) + chr(10).join(f'{i} = {lit(i)}' for i in order) + chr(10))}", "typed-tuple-variant-shuffled-keys", None))
    for op, ty, text, why in SPLIT_WITNESSES:
        for fl in "SP":
            out.append((fl, f"{op} {fl} {ty} {hx(text)}", "typed-fixed-split", None))
    for op, ty, text in PRIVATE_WITNESSES:
        for fl in "SP":
            out.append((fl, f"{op} {fl} {ty} {hx(text)}", "typed-fixed-private", None))
    for op, ty, text in AGREE_WITNESSES:
        for fl in "SP":
            out.append((fl, f"{op} {fl} {ty} {hx(text)}", "typed-fixed", None))
    n = 40000 if big else 5000
    for j in range(n):
        fl = "SP"[j % 2]
        ty = g.root_ty()
        data, dec = g.instance(ty)
        if data[0] != "t":
            continue
        layout = [None, "inline", "header", "dotted"][j % 4]
        mode = j % 5
        if mode <= 2:
            out.append((fl, f"typed {fl} {enc(ty)} {hx(g.document(data, layout))}", "typed-instance", dec))
        elif mode == 3:
            bad = g.defect(data)
            if bad[0] != "t":
                bad = ("t", [("x", bad)], False)
            out.append((fl, f"typed {fl} {enc(ty)} {hx(g.document(bad, layout))}", "typed-defect", None))
        else:
            out.append((fl, f"typed {fl} {enc(g.perturb_ty(ty))} {hx(g.document(data, layout))}", "typed-other-type", None))
    n = 20000 if big else 2400
    for j in range(n):
        fl = "SP"[j % 2]
        ty = g.ty(0, inhabited=(j % 4 != 3))
        mode = j % 4
        if mode == 3:
            out.append((fl, f"typedv {fl} {enc(ty)} {hx(g.inline(g.any_data(0)))}", "typedv-any-value", None))
            continue
        data, dec = g.instance(ty)
        if mode <= 1:
            out.append((fl, f"typedv {fl} {enc(ty)} {hx(g.inline(data))}", "typedv-instance", dec))
        else:
            out.append((fl, f"typedv {fl} {enc(ty)} {hx(g.inline(g.defect(data)))}", "typedv-defect", None))
    return out
