"""C15, second sentence: WHERE a deserialization error is located — generator and comparator of the `c15d` stream.

case line   `loc <flavour> <ty> <hex document>`            (type syntax of harness/src/c13typed.rs)
both sides  `td=<r> ed=<r> dm=<r>`, <r> = `ok:<dec>` | `err span=<a>..<b>|none keys=<hex>.<hex>…|-`
            td = toml::de::Deserializer (toml::from_str), ed = toml_edit::de::Deserializer::parse (toml_edit::de::from_str),
            dm = toml_edit::de::Deserializer::from(DocumentMut) (toml_edit::de::from_document: no source text)
model       lean/TomlVerif/Model/DeLocated.lean `decodeLoc` on the tree of `Cst.parseCst` (td, ed) and on the despanned tree (dm)

The cases mostly FAIL: a well-typed (type, document) pair from `c13typed.TypedGen` with ONE change — a leaf type replaced, a required
field added to a struct of the type (absent from the document), a variant renamed, a tuple / tuple variant lengthened or
shortened, a field removed from a struct variant (unexpected key), `Date` / `Time` given another date-time shape, the private
date-time key with a wrong value — optionally wrapped in up to three levels of Option / newtype / Vec / map / tuple / struct field /
newtype, tuple and struct variants, rendered in inline / header / dotted / array-of-tables layouts; plus the structural defects
and perturbed types of c13typed, plus well-typed pairs.

Besides model = implementation (exact, all three routes) the implementation's answers are checked directly:
  same-routes      td = ed; dm has the same verdict, the same keys, and no span
  span-present     with source every error has a span   (known exception, reported: `Date` / `Time` as the ROOT type)
  span-in-text     0 <= a <= b <= len, both on character boundaries
  span-is-node     the span is the key span or the value span of a node of the document (the `c14` span list of the harness),
                   and the error's keys are a subsequence of that node's path
  keys-are-path    the keys name a path of the document: table entries in order, passing through array elements and — NOT
                   named in `keys` — the single entry of an enum's table and the numeric keys of a tuple variant's table
"""
import os
import random
import sys

if __name__ == "__main__":
    sys.path.insert(0, os.path.dirname(os.path.dirname(os.path.abspath(__file__))))

from props import c13typed
from props.c13typed import TypedGen, enc, hx, PRIVATE, NAMES, VNAMES

LEAVES = [("b",), ("int", "i8"), ("int", "i64"), ("int", "u16"), ("f64",), ("f32",), ("s",), ("c",), ("dt",), ("da",), ("ti",), ("u",)]


def _is_leaf(t):
    return t[0] in ("b", "int", "f64", "f32", "s", "c", "u", "dt", "da", "ti", "v", "g")


def valid_ty(t):
    """a well-formed python type (c13typed.perturb_ty can return a struct variant whose field list is a leaf's tail)"""
    if not isinstance(t, tuple) or not t or not isinstance(t[0], str):
        return False
    k = t[0]
    if k == "int":
        return len(t) == 2 and t[1] in c13typed.INT_RANGE
    if k in ("O", "V", "M", "N"):
        return len(t) == 2 and valid_ty(t[1])
    if k == "T":
        return isinstance(t[1], list) and all(valid_ty(x) for x in t[1])

    def fields(fs):
        return isinstance(fs, list) and all(isinstance(f, tuple) and len(f) == 3 and isinstance(f[0], str) and valid_ty(f[1]) for f in fs)
    if k == "S":
        return fields(t[1])
    if k == "E":
        if not isinstance(t[1], list):
            return False
        for v in t[1]:
            if not (isinstance(v, tuple) and len(v) == 2 and isinstance(v[0], str) and isinstance(v[1], tuple)):
                return False
            sh = v[1]
            if sh[0] == "unit":
                continue
            if sh[0] == "N" and valid_ty(sh[1]):
                continue
            if sh[0] == "T" and isinstance(sh[1], list) and all(valid_ty(x) for x in sh[1]):
                continue
            if sh[0] == "S" and fields(sh[1]):
                continue
            return False
        return True
    return len(t) == 1 and k in ("b", "f64", "f32", "s", "c", "u", "dt", "da", "ti", "v", "g")


class LocGen(TypedGen):
    """one change in a TYPE, so that the document generated from the original type fails at a known kind of place"""

    def other_leaf(self, t):
        r = self.r
        for _ in range(20):
            c = r.choice(LEAVES)
            if c[0] != t[0] and not (c[0] in ("f64", "f32") and t[0] in ("int", "f64", "f32")) and not (c[0] == "dt" and t[0] in ("da", "ti")) \
                    and not (c[0] == "s" and t[0] == "c") and not (t[0] in ("v", "g")):
                return c
        return ("u",)

    def children(self, t):
        """[(rebuild, child type)] for the immediate type children of t"""
        k = t[0]
        out = []
        if k in ("O", "V", "M", "N"):
            out.append((lambda c, t=t: (t[0], c), t[1]))
        elif k == "T":
            for i, x in enumerate(t[1]):
                out.append((lambda c, t=t, i=i: ("T", t[1][:i] + [c] + t[1][i + 1:]), x))
        elif k == "S":
            for i, (n, x, d) in enumerate(t[1]):
                out.append((lambda c, t=t, i=i, n=n, d=d: ("S", t[1][:i] + [(n, c, d)] + t[1][i + 1:]), x))
        elif k == "E":
            for i, (n, sh) in enumerate(t[1]):
                if sh[0] == "N":
                    out.append((lambda c, t=t, i=i, n=n: ("E", t[1][:i] + [(n, ("N", c))] + t[1][i + 1:]), sh[1]))
                elif sh[0] == "T":
                    for j, x in enumerate(sh[1]):
                        out.append((lambda c, t=t, i=i, n=n, sh=sh, j=j: ("E", t[1][:i] + [(n, ("T", sh[1][:j] + [c] + sh[1][j + 1:]))] + t[1][i + 1:]), x))
                elif sh[0] == "S":
                    for j, (fn, x, d) in enumerate(sh[1]):
                        out.append((lambda c, t=t, i=i, n=n, sh=sh, j=j, fn=fn, d=d:
                                    ("E", t[1][:i] + [(n, ("S", sh[1][:j] + [(fn, c, d)] + sh[1][j + 1:]))] + t[1][i + 1:]), x))
        return out

    def at_random_node(self, t, pred, change, depth=0):
        """apply `change` at a random node satisfying `pred` (None when there is none)"""
        r = self.r
        cands = []

        def walk(x, rebuild):
            if pred(x):
                cands.append((x, rebuild))
            for rb, c in self.children(x):
                walk(c, lambda nc, rb=rb, rebuild=rebuild: rebuild(rb(nc)))
        walk(t, lambda x: x)
        if not cands:
            return None
        # prefer deep nodes: the last ones found are the deepest of their branch
        x, rebuild = r.choice(cands)
        return rebuild(change(x))

    def change_type(self, t):
        """(kind, changed type) or None"""
        r = self.r
        c = r.randrange(8)
        if c <= 1:
            res = self.at_random_node(t, lambda x: _is_leaf(x) and x[0] not in ("v", "g"), self.other_leaf)
            return ("leaf-changed", res) if res else None
        if c == 2:
            name = r.choice(["need", "zz", "k ey", "é"])
            res = self.at_random_node(t, lambda x: x[0] == "S" and all(n != name for n, _, _ in x[1]),
                                      lambda x: ("S", x[1] + [(name, r.choice([("int", "i64"), ("s",), ("V", ("s",)), ("S", [])]), False)]))
            if res is None:
                return None
            return ("required-field-added", res)
        if c == 3:
            def rename(x):
                i = r.randrange(len(x[1]))
                return ("E", x[1][:i] + [(x[1][i][0] + "2", x[1][i][1])] + x[1][i + 1:])
            res = self.at_random_node(t, lambda x: x[0] == "E", rename)
            return ("variant-renamed", res) if res else None
        if c == 4:
            def relen(x):
                if len(x[1]) > 1 and r.random() < 0.5:
                    return ("T", x[1][:-1])
                return ("T", x[1] + [r.choice([("int", "i64"), ("s",), ("O", ("s",))])])
            res = self.at_random_node(t, lambda x: x[0] == "T", relen)
            return ("tuple-length", res) if res else None
        if c == 5:
            def relen_v(x):
                idx = [i for i, (_, sh) in enumerate(x[1]) if sh[0] == "T"]
                i = r.choice(idx)
                n, sh = x[1][i]
                ts = sh[1][:-1] if len(sh[1]) > 1 and r.random() < 0.5 else sh[1] + [("int", "i64")]
                return ("E", x[1][:i] + [(n, ("T", ts))] + x[1][i + 1:])
            res = self.at_random_node(t, lambda x: x[0] == "E" and any(sh[0] == "T" for _, sh in x[1]), relen_v)
            return ("tuple-variant-length", res) if res else None
        if c == 6:
            def drop_field(x):
                idx = [i for i, (_, sh) in enumerate(x[1]) if sh[0] == "S" and sh[1]]
                i = r.choice(idx)
                n, sh = x[1][i]
                j = r.randrange(len(sh[1]))
                return ("E", x[1][:i] + [(n, ("S", sh[1][:j] + sh[1][j + 1:]))] + x[1][i + 1:])
            res = self.at_random_node(t, lambda x: x[0] == "E" and any(sh[0] == "S" and sh[1] for _, sh in x[1]), drop_field)
            return ("struct-variant-field-removed", res) if res else None
        def reshape(x):
            i = r.randrange(len(x[1]))
            n, sh = x[1][i]
            new = r.choice([s for s in [("unit",), ("N", ("int", "i64")), ("T", [("s",), ("s",)]), ("S", [("q", ("b",), False)])] if s[0] != sh[0]])
            return ("E", x[1][:i] + [(n, new)] + x[1][i + 1:])
        res = self.at_random_node(t, lambda x: x[0] == "E", reshape)
        return ("variant-reshaped", res) if res else None

    # ---- wrapping: the same failure below Option / newtype / Vec / map / tuple / struct / enum variants --------------
    def wrap(self, ty_doc, ty_use, data):
        """one level around (type the data was generated from, type used for decoding, data)"""
        r = self.r
        k = r.randrange(10)
        if k == 0:
            return "O", ("O", ty_doc), ("O", ty_use), data
        if k == 1:
            return "N", ("N", ty_doc), ("N", ty_use), data
        if k == 2:
            pre = [self.instance(ty_doc)[0] for _ in range(r.randrange(3))]
            post = [self.instance(ty_doc)[0] for _ in range(r.randrange(2))]
            return "V", ("V", ty_doc), ("V", ty_use), ("a", pre + [data] + post)
        if k == 3:
            keys = self.names(r.choice([1, 2, 3]), NAMES)
            i = r.randrange(len(keys))
            ents = [(kk, data if j == i else self.instance(ty_doc)[0]) for j, kk in enumerate(keys)]
            return "M", ("M", ty_doc), ("M", ty_use), ("t", ents, False)
        if k == 4:
            other = self.ty(2)
            od = self.instance(other)[0]
            if r.random() < 0.5:
                return "T", ("T", [other, ty_doc]), ("T", [other, ty_use]), ("a", [od, data])
            return "T", ("T", [ty_doc, other]), ("T", [ty_use, other]), ("a", [data, od])
        if k in (5, 6):
            names = self.names(3, NAMES)
            other = self.ty(2)
            fs_doc = [(names[0], other, False), (names[1], ty_doc, False)]
            fs_use = [(names[0], other, False), (names[1], ty_use, False)]
            ents = [(names[0], self.instance(other)[0]), (names[1], data)]
            if r.random() < 0.3:
                ents.append((names[2], self.any_data(1)))
            r.shuffle(ents)
            return "S", ("S", fs_doc), ("S", fs_use), ("t", ents, False)
        vn = self.names(2, VNAMES)
        if k == 7:
            return "E:N", ("E", [(vn[0], ("unit",)), (vn[1], ("N", ty_doc))]), ("E", [(vn[0], ("unit",)), (vn[1], ("N", ty_use))]), ("t", [(vn[1], data)], False)
        if k == 8:
            other = ("int", "i64")
            as_table = r.random() < 0.4
            payload = ("t", [("0", ("i", 7)), ("1", data)], True) if as_table else ("a", [("i", 7), data])
            return "E:T", ("E", [(vn[1], ("T", [other, ty_doc]))]), ("E", [(vn[1], ("T", [other, ty_use]))]), ("t", [(vn[1], payload)], False)
        fn = self.names(2, NAMES)
        fs_doc = [(fn[0], ty_doc, False), (fn[1], ("O", ("s",)), False)]
        fs_use = [(fn[0], ty_use, False), (fn[1], ("O", ("s",)), False)]
        return "E:S", ("E", [(vn[0], ("S", fs_doc))]), ("E", [(vn[0], ("S", fs_use))]), ("t", [(vn[0], ("t", [(fn[0], data)], False))], False)

    def rooted(self, ty_use, data):
        """make the pair a document: the root must be a table"""
        if data[0] == "t" and not (len(data) > 2 and data[2]):
            return ty_use, data
        n = self.r.choice(NAMES)
        return ("S", [(n, ty_use, False)]), ("t", [(n, data)], False)


FIXED = [
    # (type, document, what)
    (f"S({hx('a')}:i32)", 'a = "x"\n', "leaf"),
    (f"S({hx('a')}:i32,{hx('b')}:s)", "a = 1\n", "missing field: the root table's span"),
    (f"S({hx('a')}:S({hx('b')}:i32,{hx('c')}:s))", "a.b = 1\n", "missing field in a dotted table: no span of its own, the key's"),
    (f"S({hx('a')}:S({hx('b')}:i32))", 'a.b = "x"\n', "leaf below a dotted key"),
    (f"S({hx('a')}:S({hx('b')}:i32,{hx('c')}:s))", "[a]\nb = 1\n", "missing field in a header table"),
    (f"S({hx('a')}:S({hx('b')}:S({hx('c')}:i32)))", "[a.b]\nc = true\n", "implicit parent table"),
    (f"S({hx('a')}:E({hx('V')}:S({hx('x')}:i32)))", 'a = { V = { x = "s" } }\n', "below a struct variant: keys omit the variant"),
    (f"S({hx('a')}:E({hx('V')}:N(S({hx('x')}:i32))))", 'a = { V = { x = "s" } }\n', "below a newtype variant: keys omit the variant"),
    (f"S({hx('a')}:V(da))", "a = [1979-05-27, 1979-05-27T07:32:00Z]\n", "Date shape test in a Vec: the element (the array before the repair of ArraySeqAccess)"),
    (f"S({hx('a')}:T(i64,ti))", "a = [1, 1979-05-27]\n", "Time shape test in a tuple"),
    (f"S({hx('a')}:da)", "a = 1979-05-27T07:32:00Z\n", "Date shape test as a field"),
    ("da", f'"{PRIVATE}" = "1979-05-27T07:32:00Z"\n', "Date as the root type: NO SPAN"),
    ("ti", f'"{PRIVATE}" = "1979-05-27"\n', "Time as the root type: NO SPAN"),
    ("O(da)", f'"{PRIVATE}" = "1979-05-27T07:32:00Z"\n', "Option<Date> as the root type"),
    ("dt", f'"{PRIVATE}" = "x"\n', "Datetime from a table: the string"),
    ("dt", f'"{PRIVATE}" = 1\n', "Datetime from a table: not a string"),
    ("dt", "x = 1\n", "Datetime from a table: the key"),
    ("dt", "", "Datetime from an empty table"),
    (f"S({hx('a')}:dt)", "a.x = 1\n", "Datetime from a dotted table: the key"),
    (f"S({hx('a')}:v)", f'a = {{ "{PRIVATE}" = 1 }}\n', "Value: the private key with an integer"),
    (f"S({hx('a')}:v)", f'a = {{ b = [1, {{ "{PRIVATE}" = "x" }}] }}\n', "Value: the private key deep"),
    (f"S({hx('a')}:v)", f'[a]\n"{PRIVATE}".x = 1\n', "Value: the private key with a dotted table"),
    ("v", f'"{PRIVATE}" = "1979-05-27"\nx = 1\n', "Value at the root: becomes a date-time"),
    ("M(v)", f'[t]\n"{PRIVATE}" = "nope"\n', "map of Value"),
    (f"S({hx('a')}:E({hx('P')},{hx('Q')}))", 'a = "R"\n', "unknown variant (string)"),
    (f"S({hx('a')}:E({hx('P')},{hx('Q')}))", "a = { R = 1 }\n", "unknown variant (table): the key"),
    (f"S({hx('a')}:E({hx('P')},{hx('Q')}))", "a.R = 1\n", "unknown variant (dotted)"),
    (f"S({hx('a')}:E({hx('P')},{hx('Q')}))", "a = {}\n", "enum from an empty table"),
    (f"S({hx('a')}:E({hx('P')},{hx('Q')}))", "a = { P = {}, Q = {} }\n", "enum from two entries"),
    (f"S({hx('a')}:E({hx('P')},{hx('Q')}))", "a = 1\n", "enum from an integer"),
    (f"S({hx('a')}:E({hx('P')}))", "a = { P = 1 }\n", "unit variant with a value"),
    (f"S({hx('a')}:E({hx('P')}))", "a = { P = [1] }\n", "unit variant with a non-empty array"),
    (f"S({hx('a')}:E({hx('P')}:T(i32,s)))", "a = { P = [1] }\n", "tuple variant: length"),
    (f"S({hx('a')}:E({hx('P')}:T(i32,s)))", 'a = { P = { 0 = 1, 2 = "x" } }\n', "tuple variant table: the key"),
    (f"S({hx('a')}:E({hx('P')}:T(i32,s)))", "a = { P = { 0 = 1, 1 = 2 } }\n", "tuple variant table: a component"),
    (f"S({hx('a')}:E({hx('P')}:T(i32,s)))", "[a.P]\n0 = 1\n", "tuple variant header table: length"),
    (f"S({hx('a')}:E({hx('P')}:S({hx('x')}:i32)))", "a = { P = { x = 1, y = 2, z = 3 } }\n", "struct variant: the first unexpected key"),
    (f"S({hx('a')}:E({hx('P')}:S({hx('x')}:i32)))", "[a.P]\ny.z = 2\nx = 1\n", "struct variant: unexpected dotted key"),
    (f"S({hx('a')}:E({hx('P')}:S({hx('x')}:i32,{hx('y')}:i32)))", "a = { P = { x = 1 } }\n", "struct variant: missing field"),
    (f"S({hx('a')}:E({hx('P')}:S({hx('x')}:i32)))", "a = { P = [true] }\n", "struct variant from an array"),
    ("E(%s:S(%s:i32))" % (hx("P"), hx("x")), '[P]\nx = "s"\n', "enum at the root"),
    ("M(i32)", 'a = 1\nb = "x"\n', "map"),
    ("M(M(i32))", '[b]\ny = 1\n[a]\nx = "s"\n', "map of maps"),
    (f"S({hx('a')}:T(i32,i32))", "a = [1]\n", "tuple too short"),
    (f"S({hx('a')}:O(N(i8)))", "a = 300\n", "Option<Newtype<i8>> out of range"),
    (f"S({hx('a')}:V(S({hx('x')}:i32)))", '[[a]]\nx = 1\n[[a]]\nx = "s"\n', "array of tables"),
    (f"S({hx('a')}:V(S({hx('x')}:i32,{hx('y')}:i32)))", "[[a]]\nx = 1\ny = 2\n[[a]]\nx = 1\n", "array of tables: missing field in the second"),
    (f"S({hx('a')}:V(i32))", "[[a]]\n[[a]]\n", "array of tables as integers"),
    (f"S({hx('a')}:i32,{hx('b')}:i32)", 'b = "x"\na = "y"\n', "two failing fields: document order"),
    (f"S({hx('a')}:i32,{hx('b')}:i32,{hx('c')}:i32)", 'b = "x"\n', "a failing field and a missing one: the entry first"),
    (f"S({hx('a')}:S({hx('x')}:i32),{hx('b')}:i32)", "[a]\nx = 1\ny = 2\n", "missing field of the root with sub-tables: the root span"),
    (f"S({hx('a')}:i32)", "", "missing field in the empty document"),
    (f"S({hx('a')}:u)", "a = 1\n", "unit"),
    (f"S({hx('é')}:c)", 'é = "ab"\n', "char, non-ASCII key"),
    (f"S({hx('a')}:S({hx(PRIVATE)}:i32))", "a = 1979-05-27\n", "struct from a date-time: the private field"),
    (f"S({hx('a')}:M(i32))", "a = 1979-05-27\n", "map from a date-time"),
    ("i32", "a = 1\n", "a scalar as the root type"),
    ("V(i32)", "a = 1\n", "a sequence as the root type"),
    ("N(N(S(%s:i32)))" % hx("a"), "a = true\n", "newtypes at the root"),
]


def gen_located(rng, n, hist):
    """[(case line, kind, text bytes, changed?)]"""
    g = LocGen(rng, hist)
    out = []
    for ty, doc, what in FIXED:
        out.append((f"loc S {ty} {hx(doc)}", "fixed", doc.encode()))
    tries = 0
    while len(out) < n and tries < n * 20:
        tries += 1
        j = tries
        mode = j % 10
        ty_doc = g.ty(1) if mode != 9 else g.root_ty()
        try:
            data, _dec = g.instance(ty_doc)
        except (ValueError, IndexError):
            continue
        ty_use = ty_doc
        kind = "well-typed"
        if mode <= 5:
            ch = g.change_type(ty_doc)
            if ch is None or ch[1] is None:
                continue
            kind, ty_use = ch
        elif mode == 6:
            data = g.defect(data)
            kind = "defect"
        elif mode == 7:
            try:
                ty_use = g.perturb_ty(ty_doc)
                enc(ty_use)
            except (ValueError, IndexError, TypeError):
                continue
            if not valid_ty(ty_use):
                continue
            kind = "perturbed-type"
        levels = rng.choice([0, 1, 2, 3, 3])
        wraps = []
        for _ in range(levels):
            w, ty_doc, ty_use, data = g.wrap(ty_doc, ty_use, data)
            wraps.append(w)
        ty_root, root = g.rooted(ty_use, data)
        layout = [None, "inline", "header", "dotted"][j % 4]
        try:
            text = g.document(root, layout)
        except (ValueError, IndexError):
            continue
        g.hit("wrap-depth-%d" % levels)
        for w in wraps:
            g.hit("wrap-" + w)
        out.append((f"loc S {enc(ty_root)} {hx(text)}", kind, text.encode()))
    return out


# ---- the comparator ---------------------------------------------------------------------------------------------------

def parse_routes(line):
    """{'td': ('ok', dec) | ('err', span | None, [hexkey…], flags)}"""
    res = {}
    parts = line.split(" ")
    i = 0
    cur = None
    while i < len(parts):
        p = parts[i]
        if p[:3] in ("td=", "ed=", "dm="):
            cur = p[:2]
            v = p[3:]
            if v.startswith("ok:"):
                res[cur] = ("ok", v[3:])
            elif v == "err":
                res[cur] = ["err", None, [], []]
            else:
                return None
        elif cur and isinstance(res.get(cur), list):
            if p.startswith("span="):
                s = p[5:]
                res[cur][1] = None if s == "none" else tuple(int(x) for x in s.split(".."))
            elif p.startswith("keys="):
                res[cur][2] = [] if p[5:] == "-" else ["-" if x == "e" else x for x in p[5:].split(".")]
            else:
                res[cur][3].append(p)
        else:
            return None
        i += 1
    return {k: (tuple(v) if isinstance(v, list) else v) for k, v in res.items()}


def on_boundary(text, i):
    return i == len(text) or (0 <= i < len(text) and (text[i] & 0xC0) != 0x80)


def c14_nodes(line):
    """[(path components, key span | None, value span | None)] of a `tvh c14` answer"""
    if not line.startswith("ok spans="):
        return None
    body = line[len("ok spans="):].split(" ")[0]
    nodes = []
    for item in body.split(","):
        if "=" not in item:
            continue
        path, spans = item.split("=", 1)
        ks, vs = spans.split(":")

        def sp(x):
            return None if x == "-" else tuple(int(y) for y in x.split(".."))
        comps = [] if path == "root" else [c for c in path.split("/") if c != ""]
        nodes.append((comps, sp(ks), sp(vs)))
    return nodes


def is_subsequence(small, big):
    it = iter(big)
    return all(any(x == y for y in it) for x in small)


def root_unlocated(ty):
    """the known exception of span-present: `Date` / `Time` as the root type"""
    return ty in ("da", "ti")


def run_located(ctx, tvh, n=None):
    from vlib import run_pair, run_lines
    big = getattr(ctx, "tier", "quick") != "quick"
    n = n or (40000 if big else 6000)
    hist = ctx.cov.setdefault("c15loc_generator_histogram", {})
    # candidates: about half of the changed pairs still decode (the change hit a part of the type the document does not use);
    # keep every failing candidate and one succeeding one for every three failing
    cands = gen_located(ctx.rng, 2 * n, hist)
    rc, pre, _ = run_lines(tvh, "c15d", [c[0] for c in cands])
    cases, okays = [], 0
    for c, a in zip(cands, pre):
        if a.startswith("td=ok"):
            if okays * 3 < len(cases) or c[1] == "fixed":
                okays += 1
                cases.append(c)
        else:
            cases.append(c)
        if len(cases) >= n:
            break
    lines = [c[0] for c in cases]
    impl, model = run_pair(ctx, tvh, "c15d", lines)
    rc, spans, _ = run_lines(tvh, "c14", [hx(c[2]) for c in cases])
    stats = {"cases": len(cases), "agree": 0, "all-ok": 0, "errors-with-source": 0, "errors-without-source": 0, "parse-err": 0,
             "span-is-key-fallback": 0, "keys-omit-a-table-key": 0, "root-unlocated": 0}
    kinds, kinds_err = {}, {}
    disagreements, broken = [], {}

    def bad(name, case, detail):
        broken.setdefault(name, []).append((case[0], detail))

    for idx, (case, i, m) in enumerate(zip(cases, impl, model)):
        line, kind, text = case
        kinds[kind] = kinds.get(kind, 0) + 1
        if i == m:
            stats["agree"] += 1
        else:
            disagreements.append((line, i, m))
        if i == "parse-err":
            stats["parse-err"] += 1
            continue
        r = parse_routes(i)
        if r is None or set(r) != {"td", "ed", "dm"}:
            bad("well-formed-answer", case, i)
            continue
        if r["td"] != r["ed"]:
            bad("same-routes", case, f"td and ed differ: {i}")
        if r["td"][0] == "ok":
            stats["all-ok"] += 1
            if r["dm"] != r["td"]:
                bad("same-routes", case, f"dm differs on success: {i}")
            continue
        kinds_err[kind] = kinds_err.get(kind, 0) + 1
        _, span, keys, flags = r["td"]
        if r["dm"][0] != "err":
            bad("same-routes", case, f"dm succeeds: {i}")
            continue
        _, dspan, dkeys, dflags = r["dm"]
        stats["errors-with-source"] += 1
        stats["errors-without-source"] += 1
        if flags or dflags:
            bad("keys-two-readings", case, f"the Debug keys and the rendered `in` line differ: {i}")
        if dspan is not None:
            bad("no-source-no-span", case, i)
        if dkeys != keys:
            bad("same-routes", case, f"keys differ without source: {i}")
        ty = line.split(" ")[2]
        if span is None:
            if root_unlocated(ty):
                stats["root-unlocated"] += 1
            else:
                bad("span-present", case, i)
        else:
            a, b = span
            if not (0 <= a <= b <= len(text) and on_boundary(text, a) and on_boundary(text, b)):
                bad("span-in-text", case, i)
            nodes = c14_nodes(spans[idx]) if idx < len(spans) else None
            if nodes is None:
                bad("span-is-node", case, f"no span list: {spans[idx] if idx < len(spans) else ''}")
            else:
                hit = [(comps, ks == span) for comps, ks, vs in nodes if ks == span or vs == span]
                if not hit:
                    bad("span-is-node", case, f"{i} is no key or value span of {spans[idx][:300]}")
                elif not any(is_subsequence(keys, comps[:-1] if iskey and not is_subsequence(keys, comps) else comps) for comps, iskey in hit):
                    bad("span-is-node", case, f"keys {keys} are not along the path of the node with that span: {spans[idx][:300]}")
                else:
                    if all(iskey for _, iskey in hit):
                        stats["span-is-key-fallback"] += 1
                    if not any(keys == [c for c in comps if not c.isdigit() or len(c) % 2] or keys == comps for comps, _ in hit):
                        stats["keys-omit-a-table-key"] += 1
    ctx.cov["c15loc"] = dict(stats, kinds=dict(sorted(kinds.items())), failing_by_kind=dict(sorted(kinds_err.items())))
    ctx.oblige("c15d: the located decoder of the model (Model/DeLocated.lean) and the three deserializer routes give the same verdict, value, "
               "error span and error key path on every case", not disagreements,
               "; ".join(f"{l} impl[{a}] model[{b}]" for l, a, b in disagreements[:3]))
    for name in ["well-formed-answer", "same-routes", "keys-two-readings", "no-source-no-span", "span-present", "span-in-text", "span-is-node"]:
        fails = broken.get(name, [])
        ctx.oblige(f"c15d {name}", not fails, "; ".join(f"{l} :: {d}" for l, d in fails[:3]))
    enough = stats["errors-with-source"] >= (0.5 * len(cases))
    ctx.oblige("c15d: most cases fail (non-trivial)", enough, str(stats))
    return stats, disagreements, broken


if __name__ == "__main__":
    import vlib

    class _Ctx:
        tier = "thorough"

        def __init__(self, seed):
            self.rng = random.Random(seed)
            self.cov = {}
            self.obs = []

        def oblige(self, name, ok, detail=""):
            self.obs.append((name, ok, detail))

    tvh = os.environ.get("C15LOC_TVH", "/tmp/agent_c15loc/cargo_target/release/tvh")
    drv = os.environ.get("C15LOC_DRIVER", "/tmp/agent_c15loc/lean/.lake/build/bin/driver")
    vlib.driver_path = lambda: drv
    n = int(sys.argv[1]) if len(sys.argv) > 1 else 6000
    seed = int(sys.argv[2]) if len(sys.argv) > 2 else 1
    ctx = _Ctx(seed)
    stats, dis, broken = run_located(ctx, tvh, n)
    print(stats)
    print({k: v for k, v in ctx.cov["c15loc"].items() if k in ("kinds", "failing_by_kind")})
    print({k: v for k, v in sorted(ctx.cov["c15loc_generator_histogram"].items()) if k.startswith("wrap")})
    for name, ok, detail in ctx.obs:
        print("OK  " if ok else "FAIL", name, "" if ok else detail[:1500])
    for l, a, b in dis[:10]:
        print("DISAGREE", l, "\n   impl ", a, "\n   model", b)
