"""C17 — serializing is a pure function that reaches a fixed point in one step; values before tables whatever
order the map yields its keys in; with and without `preserve_order`."""
import os
from vlib import *
import docgen
from props.tv_common import *
from props.parse_common import corpus_files, regression_files

TYPES = ["config", "plain", "dates", "ints", "roote", "s", "owner"]
ONE = ["pure", "disp", "rt", "rtp", "trt", "fix", "fixp", "same", "esame", "ord", "ordp", "tord", "twice"]
WHAT = {
    "pure": "two calls of to_string on the same value give different text",
    "disp": "Display of the table differs from to_string of the table",
    "rt": "the plain text does not decode to the value",
    "rtp": "the pretty text does not decode to the value",
    "trt": "to_string of the root as toml::Table does not decode to the value",
    "fix": "to_string(from_str(to_string(v))) differs from to_string(v)",
    "fixp": "to_string_pretty(from_str(to_string_pretty(v))) differs from to_string_pretty(v)",
    "same": "plain and pretty outputs decode to different values",
    "esame": "toml_edit::ser::to_string and to_string_pretty do not both decode to the value",
    "ord": "a table's own key/value lines do not all precede its sub-table headers (plain)",
    "ordp": "a table's own key/value lines do not all precede its sub-table headers (pretty)",
    "tord": "a table's own key/value lines do not all precede its sub-table headers (root as toml::Table)",
    "twice": "printing the parsed table twice gives different text",
}


def gen(ctx):
    rng = ctx.rng
    big = ctx.tier != "quick"
    cases = {"S": [], "P": []}
    meta = {"S": [], "P": []}
    hist = {}

    def add(fl, line, kind, tree=None):
        cases[fl].append(line)
        meta[fl].append((kind, tree))
        hist[f"{fl}:{kind}"] = hist.get(f"{fl}:{kind}", 0) + 1

    # fixed regression trees first (shortest witnesses)
    fixed = [
        ("t", [(b"a", ("t", [(b"x", ("i", 1))])), (b"b", ("i", 2))]),                  # table before scalar
        ("t", [(b"b", ("a", [("t", [(b"x", ("i", 1))])])), (b"a", ("i", 2))]),          # aot before scalar (insertion order)
        ("t", [(b"t", ("t", [])), (b"a", ("a", [("t", [])])), (b"s", ("i", 1))]),
        ("t", []),
        ("i", 1), ("a", [("i", 1)]), ("s", b"x"), ("d", "1979-05-27T07:32:00Z"), ("a", [("t", [])]),
        # the private key of the serde date-time encoding used as an ordinary key
        ("t", [(PRIVATE, ("a", []))]), ("t", [(PRIVATE, ("b", True))]), ("t", [(PRIVATE, ("s", b"1979-05-27"))]), ("t", [(b"a", ("t", [(PRIVATE, ("i", 1))]))]),
    ]
    for t in fixed:
        for fl in "SP":
            add(fl, f"tree {fl} {sx(t)}", "fixed", t)
    # exhaustive small tables: every assignment of entry kinds to keys a..d, every insertion order
    exh = exhaustive_trees(3 if not big else 3, [4] if big else [])
    for label, t, ident in exh:
        add("P", f"tree P {sx(t)}", label, t)
        if ident:
            add("S", f"tree S {sx(t)}", label, t)
    if not big:
        # 4 keys, sampled
        import itertools
        allk = list(ENTRY_KINDS)
        for _ in range(1500):
            kinds = [rng.choice(allk) for _ in range(4)]
            perm = list(range(4))
            rng.shuffle(perm)
            t = ("t", [(KEYS_PLAIN[i], ENTRY_KINDS[kinds[i]]) for i in perm])
            add("P", f"tree P {sx(t)}", "rand4", t)
            add("S", f"tree S {sx(t)}", "rand4", t)
    # the same kinds one level down (inside a table, inside an array of tables)
    for kinds in __import__("itertools").product(list(ENTRY_KINDS), repeat=2):
        for perm in ((0, 1), (1, 0)):
            inner = ("t", [(KEYS_PLAIN[i], ENTRY_KINDS[kinds[i]]) for i in perm])
            for wrap in (("t", [(b"n", inner), (b"m", ("i", 0))]), ("t", [(b"n", ("a", [inner, inner])), (b"m", ("i", 0))])):
                add("P", f"tree P {sx(wrap)}", "nested2", wrap)
                if perm == (0, 1):
                    add("S", f"tree S {sx(wrap)}", "nested2", wrap)
    # random deep trees (floats in about a third of them; those are outside the model's text)
    n = 80000 if big else 2500
    for j in range(n):
        g = TreeGen(rng, floats=(j % 3 == 0))
        t = g.root()
        fl = "SP"[j % 2]
        add(fl, f"tree {fl} {sx(t)}", "random-float" if has_kind(t, "f") else "random", t)
    # documents: parse as toml::Table, print twice, print -> parse -> print
    dg = docgen.Gen(rng, {})
    nd = 20000 if big else 500
    for j in range(nd):
        text, _ = dg.document()
        fl = "SP"[j % 2]
        add(fl, f"doc {fl} {h(text.encode())}", "doc-generated")
    for name, data in corpus_files():
        if name.startswith("valid") or big:
            for fl in "SP":
                add(fl, f"doc {fl} {h(data)}", "doc-corpus-" + name.split(os.sep)[0])
    for name, data in regression_files():
        add("S", f"doc S {h(data)}", "doc-regression")
    # derived values
    ns = 15000 if big else 300
    for ty in TYPES:
        for seed in range(ns if ty in ("config", "plain", "dates") else ns // 4):
            fl = "SP"[seed % 2]
            add(fl, f"val {ty} {seed}", "val-" + ty)
    return cases, meta, hist


def run(ctx):
    translate(ctx)
    mods = ["TomlVerif.Props.C17", "driver"]
    lake_build(ctx, mods, {"TomlVerif.Props.C17": "property theorems"})
    audit(ctx, "TomlVerif.Props.C17", "TomlVerif/Props/C17.lean")
    extra_props(ctx, ["C17RoundTrip", "C17Fix"])
    if ctx.tier == "thorough":
        leanchecker(ctx, "TomlVerif.Props.C17")
    bins = build_both(ctx)
    if bins is None:
        ctx.violation("harness does not build against /repo", {"unchecked": "cargo build"}, concrete=False)
        return
    from props import probe_compare as _pc
    regression_lines(ctx, bins["S"], ["c17"], compare=_pc.fieldwise)
    regression_lines(ctx, bins["P"], ["c17"], compare=_pc.fieldwise, suffix="_P")
    cases, meta, hist = gen(ctx)
    ndis = 0
    first = None
    compared = 0
    model_fields = 0
    nontriv = set()
    classes = {}
    serialized = 0
    orders_differ = 0
    total = 0
    bads = {}
    for fl in "SP":
        impl, model = run_pair(ctx, bins[fl], "c17", cases[fl])
        for c, (kind, tree), i, m in zip(cases[fl], meta[fl], impl, model):
            total += 1
            bad = None
            f = fields(i)
            if i.startswith("PANIC") or i == "CRASH":
                bad = f"panic: {i[:120]}"
            elif i in ("flavour-mismatch", "bad-op", "bad-type"):
                bad = f"harness answered {i}"
            elif c.startswith("tree "):
                root_is_table = tree[0] == "t"
                if "ser" in f or "serpretty" in f:
                    # only a table (and, through the private struct name, a bare date-time) is a document
                    if root_is_table:
                        bad = f"a table does not serialize: {i[:200]}"
                else:
                    serialized += 1
                    for k in ONE:
                        if k in f and f[k] != "1" and not (k in ("disp", "trt", "tord") and not root_is_table):
                            bad = f"{WHAT[k]} ({k}={f[k]})"
                            break
                    if root_is_table:
                        for _, v in tree[1]:
                            cl = entry_class(v)
                            classes[cl] = classes.get(cl, 0) + 1
                        if len({entry_class(v) for _, v in tree[1]}) >= 2:
                            nontriv.add(c)
                        if f.get("tplain") not in ("same", None):
                            orders_differ += 1
            elif c.startswith("doc "):
                if i != "err":
                    serialized += 1
                    if "ser" in f:
                        bad = f"a parsed table does not serialize: {i[:200]}"
                    for k in ("twice", "rt", "rtp", "fix", "ord", "ordp"):
                        if f.get(k) != "1" and not bad:
                            bad = f"{WHAT[k]} ({k}={f.get(k)})"
                    if len(c) > 40:
                        nontriv.add(c)
                elif kind == "doc-generated" or kind == "doc-corpus-valid":
                    bad = "a valid document is rejected by `str::parse::<toml::Table>`"
            elif c.startswith("val "):
                if "ser" in f or "serpretty" in f:
                    bad = f"a value of the derived family does not serialize: {i[:200]}"
                else:
                    serialized += 1
                    for k in ("pure", "rt", "rtp", "fix", "fixp", "same", "esame", "ord", "ordp"):
                        if f.get(k) != "1" and not bad:
                            bad = f"{WHAT[k]} ({k}={f.get(k)})"
                    nontriv.add(c)
            if bad:
                text = ""
                if "plain" in f and f["plain"] not in ("-", "n/a"):
                    try:
                        text = unh(f["plain"]).decode(errors="replace")[:400]
                    except ValueError:
                        pass
                # one violation per (case kind, failed oracle, private key involved); the shortest case is the witness
                pk = PRIVATE.hex() in c or (c.startswith("val ") and PRIVATE.hex() in f.get("plain", ""))
                sig = (c.split(" ")[0], "private-key" if pk else "other", "*" if pk else bad.split(" (")[0][:60])
                bads.setdefault(sig, []).append((len(c), c, bad, {"mode": "c17", "flavour": fl, "case": c, "impl": i[:2000], "model": m[:2000], "text": text, "witness": ("class:private-datetime-key-as-ordinary-key" if pk else c)}))
            mm, nf = model_mismatch(i, m)
            if nf:
                compared += 1
                model_fields += nf
            if mm:
                ndis += 1
                if first is None or len(c) < len(first[0]):
                    first = (c, mm)
    for sig, lst in sorted(bads.items(), key=lambda kv: str(kv[0])):
        lst.sort(key=lambda x: (x[0], x[1]))
        _, c, bad, rep = lst[0]
        rep["same_signature"] = {"count": len(lst), "signature": list(map(str, sig)), "more": [x[1][:300] for x in lst[1:4]]}
        ctx.violation(f"{c[:200]}: {bad}" + (f" [+{len(lst) - 1} more cases with the same signature]" if len(lst) > 1 else ""), rep)
    ctx.oblige("correspondence c17: model driver = implementation on every covered field of every case", ndis == 0, f"{ndis} disagreements; shortest: {first}")
    if ctx.broken and not ctx.violations:
        for n, d in ctx.broken:
            ctx.violation(f"obligation no longer checks: {n}", {"unchecked": n, "detail": d[:1500], "searched": f"{total} cases against purity, fixed point, plain/pretty agreement, values-before-tables and re-read oracles"}, concrete=False)
    ctx.cov.update({
        "evaluations": total, "distinct_nontrivial": len(nontriv),
        "rule": "tree cases: every assignment of 10 entry kinds (scalar, string, array, empty array, array of tables, mixed array, table, empty table, table of tables, date-time) to 1..3 keys in every insertion order (thorough: also 4 keys over 5 kinds), 4 keys sampled, the same kinds one and two levels down, random trees to depth 4 with odd keys and strings; each through the sorted-map build and the preserve_order build. doc cases: generated and corpus documents parsed as toml::Table. val cases: seeded values of 5 derived types. non-trivial = a root table whose entries fall in at least two classes of {scalar, array, mixed array, array of tables, table}, a document of more than 16 bytes, or a derived value",
        "samples": [cases["P"][18][:200], cases["S"][-1], cases["P"][len(cases["P"]) // 2][:200]],
        "input_histogram": dict(sorted(hist.items())),
        "root_entry_classes": classes,
        "serialized_ok": serialized,
        "root_table_text_differs_from_value_text": orders_differ,
        "traces_validated_against_impl": compared, "model_fields_compared": model_fields, "disagreements": ndis,
        "model_compared_fields": "tree/doc cases without floats: canon, keys, plain, pretty, tplain (text of the root as toml::Table), rt, rtp, trt, fix, fixp, same and the error kinds; with floats only canon, keys and the constant fields. The model answers pure/disp/twice/ord/ordp/tord with the constant 1 (purity is definitional, the order is theorem T17_order); those fields are checked on the implementation by the oracles. val cases (derived types) are implementation-vs-oracle only",
        "oracles": ["to_string twice = same text", "from_str(to_string(v)) = v (plain, pretty, root as toml::Table)", "to_string(from_str(to_string(v))) = to_string(v) (plain and pretty)",
                    "plain and pretty decode to equal values", "in the text (re-read with toml_edit spans) every table's own key/value lines precede the headers of its sub-tables and arrays of tables",
                    "parse::<toml::Table>, print twice, print -> parse -> print"],
    })
    ctx.assumptions.append("NaN sign and payload are not data (TOML has none); trees use the canonical NaN only")
