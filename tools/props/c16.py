"""C16 — toml_edit's Table / InlineTable / Array / ArrayOfTables and toml::Map behave as ordered maps
and sequences: random histories of API calls against a reference ordered map / vector."""
import os, shutil
from vlib import *

KEYS = "abcd"
MAPLIKE = ("table", "tablelike", "inline", "inlinelike", "docinline")

# ---------------------------------------------------------------------------------------------
# reference (independent of the Lean model): ordered map with reserved positions, python list,
# python dict
# ---------------------------------------------------------------------------------------------


def vt(v):
    return "none" if v is None else f"v{v}"


def jn(l):
    return ",".join(l) if l else "-"


class RefMap:
    """insertion-ordered map; a slot whose value is None is a reserved position: invisible to every
    observer, but a later insert of that key lands there."""

    def __init__(self, container):
        self.c = container
        self.s = [["a", None]] if container == "docinline" else []      # [key, value|None]
        self.like = container in ("tablelike", "inlinelike", "docinline")
        self.table = container in ("table", "tablelike")

    def pos(self, k):
        for i, e in enumerate(self.s):
            if e[0] == k:
                return i
        return None

    def get(self, k):
        i = self.pos(k)
        return None if i is None else self.s[i][1]

    def put(self, k, v):
        i = self.pos(k)
        if i is None:
            self.s.append([k, v])
        else:
            self.s[i][1] = v

    def erase(self, k):
        i = self.pos(k)
        if i is not None:
            del self.s[i]

    def entries(self):
        return [(k, v) for k, v in self.s if v is not None]

    def it(self):
        return jn([f"{k}={vt(v)}" for k, v in self.entries()])

    def op(self, p):
        o = p[0]
        like = self.like
        if o in ("ins", "insf"):
            if o == "insf" and like:
                return "na"
            old = self.get(p[1])
            self.put(p[1], int(p[2]))
            return vt(old)
        if o == "rem":
            old = self.get(p[1])
            self.erase(p[1])
            return vt(old)
        if o == "reme":
            if like:
                return "na"
            old = self.get(p[1])
            self.erase(p[1])
            return "none" if old is None else f"{p[1]}={vt(old)}"
        if o in ("get", "getmut"):
            return vt(self.get(p[1]))
        if o == "gkv":
            v = self.get(p[1])
            return "none" if v is None else f"{p[1]}={vt(v)}"
        if o == "has":
            return "t" if self.get(p[1]) is not None else "f"
        if o == "hasv":
            return ("t" if self.get(p[1]) is not None else "f") if self.c == "table" else "na"
        if o == "hast":
            return "f" if self.c == "table" else "na"
        if o == "len":
            return str(len(self.entries()))
        if o == "empty":
            return "t" if not self.entries() else "f"
        if o == "iter":
            return self.it()
        if o == "keys":
            return jn([k for k, _ in self.entries()])
        if o == "clear":
            self.s = []
            return "ok"
        if o == "entry":
            if self.get(p[1]) is None:
                self.put(p[1], int(p[2]))
            return vt(self.get(p[1]))
        if o == "entocc":
            return "occ" if self.get(p[1]) is not None else "vac"
        # the rest of the Entry API: the entry of a key is occupied iff a lookup finds a value (a
        # reserved position holds nothing: vacant, and a vacant insert lands on it)
        if o == "entwith":
            if self.get(p[1]) is None:
                self.put(p[1], int(p[2]))
            return vt(self.get(p[1]))
        if o == "entrem":
            old = self.get(p[1])
            if old is None:
                return "vac"
            self.erase(p[1])                    # the others keep their order
            return vt(old)
        if o == "entins":
            old = self.get(p[1])
            self.put(p[1], int(p[2]))           # occupied: position kept; vacant: appended
            return f"{'vac' if old is None else vt(old)}>v{int(p[2])}"
        if o == "entget":
            v = self.get(p[1])
            return f"vac:{p[1]}" if v is None else f"{p[1]}={vt(v)}"
        if o == "entmut":
            old = self.get(p[1])
            if old is None:
                return "vac"
            self.put(p[1], int(p[2]))
            return f"{vt(old)}>v{int(p[2])}"
        if o == "entkey":
            return f"{'vac' if self.get(p[1]) is None else 'occ'}:{p[1]}"
        if o == "goi":
            # InlineTable::get_or_insert (no other map-like type has it): the ordered map's or_insert -- a value is
            # returned untouched, an absent key is appended, a reserved position receives the value
            if self.c != "inline":
                return "na"
            if self.get(p[1]) is None:
                self.put(p[1], int(p[2]))
            return vt(self.get(p[1]))
        if o == "idx":
            v = self.get(p[1])
            return "panic" if v is None else vt(v)
        if o == "idxmut":
            if self.pos(p[1]) is None:
                self.s.append([p[1], None])
            v = self.get(p[1])
            return "placeholder" if v is None else vt(v)
        if o == "idxset":
            self.put(p[1], int(p[2]))
            return "ok"
        if o == "retain":
            if like:
                return "na"
            # the closure never sees a reservation; Table keeps reservations, InlineTable drops them
            self.s = [e for e in self.s if (e[1] % 2 == 0 if e[1] is not None else self.table)]
            return "ok"
        if o == "sort":
            self.s.sort(key=lambda e: e[0])
            return "ok"
        if o == "sortby":
            if like:
                return "na"
            # descending by value, stable; reservations last (Table) / first (InlineTable)
            if self.table:
                self.s.sort(key=lambda e: (1, 0) if e[1] is None else (0, -e[1]))
            else:
                self.s.sort(key=lambda e: (0, 0) if e[1] is None else (1, -e[1]))
            return "ok"
        if o == "extend":
            if like:
                return "na"
            for i in range(1, len(p) - 1, 2):
                self.put(p[i], int(p[i + 1]))
            return "ok"
        return "na"

    def final(self):
        e = self.entries()
        if self.table:
            text = "".join(f"{k} = {v}\n" for k, v in e)
        else:
            text = "{" + ",".join(f" {k} = {v}" for k, v in e) + (" }" if e else "}")
        return {"len": str(len(e)), "empty": "t" if not e else "f", "iter": self.it(),
                "get": ",".join(vt(self.get(k)) for k in KEYS),
                "into": "na" if self.like else self.it(), "print": h(text)}


class RefVec:
    """python list of [value, decor]; decor (Array only) is what `push`/`insert` decorate the value with:
    "n" = no prefix (first element of an empty array), "s" = one space, "d" = default (extend);
    `replace` keeps the decor of the slot, a stable sort moves value and decor together."""

    def __init__(self, container):
        self.c = container
        self.l = []

    def vals(self):
        return [x[0] for x in self.l]

    def op(self, p):
        o = p[0]
        l = self.l
        arr = self.c == "array"
        if o == "push":
            l.append([int(p[1]), "s" if l else "n"])
            return "ok"
        if o == "ins" and arr:
            i = int(p[1])
            if i > len(l):
                return "panic"
            l.insert(i, [int(p[2]), "s" if l else "n"])
            return "ok"
        if o == "repl" and arr:
            i = int(p[1])
            if i >= len(l):
                return "panic"
            old = l[i][0]
            l[i] = [int(p[2]), l[i][1]]
            return vt(old)
        if o == "rem":
            i = int(p[1])
            if i >= len(l):
                return "panic"
            old = l.pop(i)[0]
            return vt(old) if arr else "ok"
        if o in ("get", "getmut"):
            i = int(p[1])
            return vt(l[i][0]) if i < len(l) else "none"
        if o == "len":
            return str(len(l))
        if o == "empty":
            return "t" if not l else "f"
        if o == "iter":
            return jn([vt(x) for x in self.vals()])
        if o == "clear":
            l.clear()
            return "ok"
        if o == "retain":
            self.l = [x for x in l if x[0] % 2 == 0]
            return "ok"
        if o == "sortby" and arr:
            l.sort(key=lambda x: x[0])        # stable
            return "ok"
        if o == "extend":
            l.extend([int(x), "d"] for x in p[1:])
            return "ok"
        return "na"

    def final(self):
        it = jn([vt(x) for x in self.vals()])
        if self.c == "array":
            pre = lambda i, d: " " if d == "s" or (d == "d" and i > 0) else ""
            text = "[" + ",".join(pre(i, d) + str(v) for i, (v, d) in enumerate(self.l)) + "]"
        else:
            text = "[" + ", ".join("{ v = %d }" % v for v, _ in self.l) + "]"
        return {"len": str(len(self.l)), "empty": "t" if not self.l else "f", "iter": it, "into": it,
                "print": h(text)}


class RefDict:
    """toml::Map against a python dict (insertion-ordered: re-insertion keeps the position, deletion keeps
    the order of the rest); the sorted configuration observes it through sorted()."""

    def __init__(self, container):
        self.sorted = container == "mapsorted"
        self.d = {}

    def items(self):
        return sorted(self.d.items()) if self.sorted else list(self.d.items())

    def it(self):
        return jn([f"{k}={vt(v)}" for k, v in self.items()])

    def op(self, p):
        o = p[0]
        d = self.d
        if o == "ins":
            old = d.get(p[1])
            d[p[1]] = int(p[2])
            return vt(old)
        if o == "rem":
            return vt(d.pop(p[1], None))
        if o in ("get", "getmut"):
            return vt(d.get(p[1]))
        if o == "gkv":
            return f"{p[1]}={vt(d[p[1]])}" if p[1] in d else "none"
        if o == "has":
            return "t" if p[1] in d else "f"
        if o == "len":
            return str(len(d))
        if o == "empty":
            return "t" if not d else "f"
        if o == "iter":
            return self.it()
        if o == "keys":
            return jn([k for k, _ in self.items()])
        if o == "values":
            return jn([vt(v) for _, v in self.items()])
        if o == "clear":
            d.clear()
            return "ok"
        if o == "entry":
            return vt(d.setdefault(p[1], int(p[2])))
        if o == "entocc":
            return "occ" if p[1] in d else "vac"
        if o == "idx":
            return vt(d[p[1]]) if p[1] in d else "panic"
        if o == "idxset":
            if p[1] not in d:
                return "panic"
            d[p[1]] = int(p[2])
            return "ok"
        if o == "retain":
            for k in [k for k, v in d.items() if v % 2 != 0]:
                del d[k]
            return "ok"
        if o == "extend":
            for i in range(1, len(p) - 1, 2):
                d[p[i]] = int(p[i + 1])
            return "ok"
        return "na"

    def final(self):
        return {"len": str(len(self.d)), "empty": "t" if not self.d else "f", "iter": self.it(),
                "get": ",".join(vt(self.d.get(k)) for k in KEYS), "into": self.it(),
                "print": h("".join(f"{k} = {v}\n" for k, v in self.items()))}


def reference(container):
    if container in MAPLIKE:
        return RefMap(container)
    if container in ("array", "aot"):
        return RefVec(container)
    return RefDict(container)


ENTRY_CLASSIFY = ("entocc", "entrem", "entins", "entget", "entmut", "entkey")      # show Occupied / Vacant
ENTRY_OR_INSERT = ("entry", "entwith")                                             # or_insert / or_insert_with
ENTRY_API = ENTRY_CLASSIFY + ENTRY_OR_INSERT


def split_case(case):
    container, _, rest = case.partition(" ")
    ops = [o for o in rest.split(";") if o and o != "-"]
    return container, ops


def oracle(case, out):
    """first place where the implementation's output differs from the reference's:
    (where, got, want) or None. `where` is the op's name or `final.<field>`."""
    container, ops = split_case(case)
    if out.startswith("PANIC") or out == "CRASH":
        return ("whole", out[:60], "no panic")
    ref = reference(container)
    left, _, right = out.partition(" | ")
    rets = left.split(";") if ops else []
    if len(rets) != len(ops):
        return ("shape", out[:80], f"{len(ops)} results")
    for i, (o, got) in enumerate(zip(ops, rets)):
        p = o.split(" ")
        # an Entry API call on a key whose position is a reservation (`Item::None`) is the corner of the known
        # findings; the same call deviating on any other key is a class of its own (`<op>/plain`)
        plain = (p[0] in ENTRY_API + ("goi",) and isinstance(ref, RefMap)
                 and not (ref.pos(p[1]) is not None and ref.get(p[1]) is None))
        want = ref.op(p)
        if got != want:
            return (p[0] + ("/plain" if plain else ""), f"op {i + 1} `{o}` returned {got}", want)
    fin = dict(f.split("=", 1) for f in right.split(" "))
    want = ref.final()
    for field in ("len", "empty", "iter", "get", "into", "print"):
        if field not in want:
            continue
        got = fin.get(field)
        if got != want[field]:
            show = (lambda x: repr(unh(x).decode(errors="replace"))) if field == "print" else (lambda x: x)
            return ("final." + field, f"final {field} is {show(got)}", show(want[field]))
    return None



def cause_of(container, where):
    """deviation classes that one code change would repair"""
    inl_like = container in ("inlinelike", "docinline")
    if inl_like and where in ("iter", "keys", "get", "getmut", "final.iter", "final.get", "idx"):
        return "impl TableLike for InlineTable: iter/iter_mut/get/get_mut show Item::None placeholders"
    if container in ("table", "tablelike") and where in ("ins", "insf", "rem", "reme"):
        return "Table::insert/insert_formatted/remove/remove_entry return Some(Item::None) for a placeholder"
    if container == "inline" and where == "goi":
        return "InlineTable::get_or_insert panics on (or mishandles) an Item::None placeholder"
    if container == "inline" and where in ENTRY_API:
        return "InlineTable::entry turns a placeholder into the value {}"
    if where in ENTRY_OR_INSERT:
        return "Entry::or_insert keeps an Item::None placeholder instead of storing the default"
    if where in ENTRY_CLASSIFY:
        # what an Occupied entry of a placeholder lets through (remove/insert/get/get_mut/key on `Item::None`) included
        return "entry() is Occupied for an Item::None placeholder"
    if container == "table" and where == "final.into":
        return "Table::into_iter yields Item::None placeholders"
    if where in ("iter", "keys", "values", "final.iter", "final.into", "final.print"):
        return f"{container}: iteration order or content differs from the reference"
    return f"{container}: {where}"

# ---------------------------------------------------------------------------------------------
# generators
# ---------------------------------------------------------------------------------------------

W_TABLE = [("ins", 10), ("insf", 4), ("rem", 7), ("reme", 3), ("get", 4), ("getmut", 2), ("gkv", 2), ("has", 3),
           ("hasv", 1), ("hast", 1), ("len", 3), ("empty", 2), ("iter", 3), ("keys", 2), ("clear", 1), ("entry", 5),
           ("entocc", 3), ("idx", 2), ("idxmut", 7), ("idxset", 4), ("retain", 2), ("sort", 2), ("sortby", 2),
           ("extend", 2), ("entrem", 5), ("entins", 5), ("entget", 2), ("entmut", 3), ("entwith", 2), ("entkey", 2)]
LIKE_OPS = {"ins", "rem", "get", "getmut", "gkv", "has", "len", "empty", "iter", "keys", "clear", "entry", "entocc",
            "idx", "idxmut", "idxset", "sort", "entrem", "entins", "entget", "entmut", "entwith", "entkey"}
W_INLINE = [(o, w) for o, w in W_TABLE if o not in ("hasv", "hast")] + [("goi", 6)]
W_LIKE = [(o, w) for o, w in W_TABLE if o in LIKE_OPS]
W_ARRAY = [("push", 8), ("ins", 6), ("repl", 5), ("rem", 6), ("get", 4), ("getmut", 1), ("len", 3), ("empty", 2),
           ("iter", 3), ("clear", 1), ("retain", 2), ("sortby", 2), ("extend", 3)]
W_AOT = [("push", 8), ("rem", 6), ("get", 4), ("getmut", 1), ("len", 3), ("empty", 2), ("iter", 3), ("clear", 1),
         ("retain", 2), ("extend", 3)]
W_MAP = [("ins", 10), ("rem", 7), ("get", 4), ("getmut", 2), ("gkv", 2), ("has", 3), ("len", 3), ("empty", 2),
         ("iter", 3), ("keys", 2), ("values", 2), ("clear", 1), ("entry", 5), ("entocc", 3), ("idx", 2), ("idxset", 3),
         ("retain", 2), ("extend", 3)]
WEIGHTS = {"table": W_TABLE, "tablelike": W_LIKE, "inline": W_INLINE, "inlinelike": W_LIKE, "docinline": W_LIKE,
           "array": W_ARRAY, "aot": W_AOT, "mapsorted": W_MAP, "mapinsertion": W_MAP}


def gen_history(rng, container, n, placeholders=True):
    ws = WEIGHTS[container]
    if not placeholders:
        ws = [(o, w) for o, w in ws if o != "idxmut"]
    names = [o for o, _ in ws]
    weights = [w for _, w in ws]
    # a small alphabet, skewed, so that collisions are frequent
    nk = rng.choice([2, 3, 4, 4])
    key = lambda: rng.choice(KEYS[:nk] + "a")
    val = lambda: str(rng.randrange(10))
    ops = []
    vec = RefVec(container) if container in ("array", "aot") else None
    for _ in range(n):
        o = rng.choices(names, weights)[0]
        if vec is not None:
            ln = len(vec.l)
            near = lambda hi: str(rng.randrange(hi + 1)) if rng.random() < 0.9 else str(hi + 1 + rng.randrange(3))
            if o == "push":
                s = f"push {val()}"
            elif o == "ins":
                s = f"ins {near(ln)} {val()}"
            elif o == "repl":
                s = f"repl {near(max(ln - 1, 0))} {val()}"
            elif o in ("rem", "get", "getmut"):
                s = f"{o} {near(max(ln - 1, 0))}"
            elif o == "extend":
                s = "extend " + " ".join(val() for _ in range(rng.randrange(1, 4)))
            else:
                s = o
            vec.op(s.split(" "))
        elif o in ("ins", "insf", "entry", "idxset", "entins", "entmut", "entwith", "goi"):
            s = f"{o} {key()} {val()}"
        elif o in ("rem", "reme", "get", "getmut", "gkv", "has", "hasv", "hast", "entocc", "idx", "idxmut", "entrem",
                   "entget", "entkey"):
            s = f"{o} {key()}"
        elif o == "extend":
            s = "extend " + " ".join(f"{key()} {val()}" for _ in range(rng.randrange(1, 4)))
        else:
            s = o
        ops.append(s)
    return f"{container} " + ";".join(ops)


# one minimal history per way the code is known or suspected to leave the reference; always run
REGRESSIONS = [
    "docinline iter",                                 # doc["t"]["a"] on an empty document, through TableLike
    "docinline len;iter;get a",
    "inlinelike idxmut a;iter",
    "inlinelike idxmut a;get a",
    "inlinelike idxmut a;getmut a",
    "inlinelike idxmut a;keys",
    "inlinelike idxmut a",
    "table idxmut a;ins a 1",
    "table idxmut a;insf a 1",
    "table idxmut a;rem a",
    "table idxmut a;reme a",
    "tablelike idxmut a;ins a 1",
    "tablelike idxmut a;rem a",
    "table idxmut a;entry a 1",
    "tablelike idxmut a;entry a 1",
    "inlinelike idxmut a;entry a 1",
    "inline idxmut a;entry a 1",
    "table idxmut a;entocc a",
    "tablelike idxmut a;entocc a",
    "inline idxmut a;entocc a",
    "inlinelike idxmut a;entocc a",
    "table idxmut a",
    # order keeping
    "table ins a 1;ins b 2;ins c 3;rem b;ins a 4;ins b 5;iter",
    "inline ins a 1;ins b 2;ins c 3;rem b;ins a 4;ins b 5;iter",
    "table idxmut a;ins b 2;ins a 4;iter",
    "inline idxmut a;ins b 2;retain;ins a 4",
    "table idxmut a;ins b 2;retain;ins a 4",
    "mapinsertion ins a 1;ins b 2;ins c 3;rem a;iter",
    "mapsorted ins c 1;ins a 2;ins b 3;rem a;iter",
    "array push 1;push 2;ins 0 5;repl 1 7;rem 0;ins 9 1;repl 9 1;rem 9",
    "aot push 1;push 2;rem 0;rem 5",
    # the Entry API beyond or_insert: removal through an occupied entry keeps the order of the others, insert over an
    # occupied entry keeps the position, a vacant insert appends (kept after the histories above: the first failing
    # regression history of a cause is its witness)
    "table ins a 0;ins b 1;ins c 2;ins d 3;entrem a;iter",
    "tablelike ins a 0;ins b 1;ins c 2;ins d 3;entrem a;iter",
    "inline ins a 0;ins b 1;ins c 2;ins d 3;entrem a;iter",
    "inlinelike ins a 0;ins b 1;ins c 2;ins d 3;entrem a;iter",
    "table ins a 0;ins b 1;ins c 2;entrem b;entrem b;entins a 5;entins b 6;entins d 7;iter",
    "inline ins a 0;ins b 1;ins c 2;entrem b;entrem b;entins a 5;entins b 6;entins d 7;iter",
    "tablelike ins a 0;ins b 1;entget a;entget c;entmut a 4;entmut c 5;entwith b 6;entwith c 7;entkey a;entkey d;iter",
    "inline ins a 0;ins b 1;entget a;entget c;entmut a 4;entmut c 5;entwith b 6;entwith c 7;entkey a;entkey d;iter",
    "inlinelike ins a 0;ins b 1;entget a;entget c;entmut a 4;entmut c 5;entwith b 6;entwith c 7;entkey a;entkey d;iter",
    # the same calls on a placeholder: the corner of the known findings (entry() is Occupied for an Item::None;
    # InlineTable::entry writes {} over it)
    "table idxmut a;entrem a", "table idxmut a;entins a 1", "table idxmut a;entget a", "table idxmut a;entmut a 1",
    "table idxmut a;entwith a 1", "table idxmut a;entkey a",
    "tablelike idxmut a;entrem a", "inlinelike idxmut a;entmut a 1", "docinline entget a", "docinline entrem a;ins a 1",
    "inline idxmut a;entrem a", "inline idxmut a;entins a 1", "inline idxmut a;entget a", "inline idxmut a;entmut a 1",
    "inline idxmut a;entwith a 1", "inline idxmut a;entkey a",
    # InlineTable::get_or_insert: on a placeholder left by `item["a"]` it used to panic ("non-value type in inline
    # table"); now the value lands on the reserved position.  A present value is returned untouched, an absent key is
    # appended.  Every other container answers `na` (no such method).
    "inline idxmut a;goi a 1",
    "inline idxmut a;goi a 1;get a;len;iter",
    "inline ins b 0;idxmut a;ins c 2;goi a 5;iter;keys",
    "inline ins a 0;ins b 1;goi a 5;goi c 7;goi b 6;iter",
    "inline idxmut a;goi a 1;goi a 2;rem a;goi a 3;idxmut b;rem b;goi b 4",
    "inline goi a 1;goi a 2;entrem a;goi a 3;retain;goi a 4",
    "table goi a 1", "tablelike goi a 1", "inlinelike idxmut a;goi a 1", "docinline goi a 1;iter",
    "array goi 0 1", "aot goi 0 1", "mapsorted goi a 1", "mapinsertion goi a 1",
]


def entry_systematic():
    """every Entry API call (and every ordered pair of them) on every key of a 3- and a 4-entry map, each dialect;
    single calls also next to a placeholder"""
    calls = lambda k: [f"entrem {k}", f"entins {k} 7", f"entget {k}", f"entmut {k} 8", f"entwith {k} 9", f"entkey {k}",
                       f"entry {k} 6", f"entocc {k}"]
    out = []
    for c in ("table", "tablelike", "inline", "inlinelike"):
        fills = ["ins a 0;ins b 1;ins c 2", "ins a 0;ins b 1;ins c 2;ins d 3", "ins d 3;ins a 0;idxmut c;ins b 1",
                 "idxmut b;ins a 0;ins c 2;ins d 3"]
        for fill in fills:
            for k in KEYS:
                for o in calls(k):
                    out.append(f"{c} {fill};{o};iter;keys;len")
        fill = fills[1]
        for k1 in KEYS:
            for o1 in calls(k1)[:6]:
                for k2 in KEYS:
                    for o2 in calls(k2)[:6]:
                        out.append(f"{c} {fill};{o1};{o2};iter")
    return out


def goi_systematic():
    """InlineTable::get_or_insert: every history of 1-3 calls over two keys that contains a get_or_insert (the alphabet
    has mutable indexing, insert, remove, or_insert, lookup and indexed assignment, so every state of a key -- absent,
    reserved, present -- meets it), then iter/len; the call on every key of the filled maps of entry_systematic
    (next to and on a placeholder); and in both orders with every Entry API call on a 4-entry map"""
    alpha = []
    for k in "ab":
        alpha += [f"idxmut {k}", f"ins {k} 0", f"rem {k}", f"goi {k} 1", f"goi {k} 2", f"entry {k} 3", f"get {k}",
                  f"idxset {k} 4"]
    out = []
    for n in (1, 2, 3):
        idx = [0] * n
        while True:
            h = [alpha[i] for i in idx]
            if any(o.startswith("goi") for o in h):
                out.append("inline " + ";".join(h) + ";iter;len")
            j = n - 1
            while j >= 0 and idx[j] == len(alpha) - 1:
                idx[j] = 0
                j -= 1
            if j < 0:
                break
            idx[j] += 1
    fills = ["ins a 0;ins b 1;ins c 2", "ins a 0;ins b 1;ins c 2;ins d 3", "ins d 3;ins a 0;idxmut c;ins b 1",
             "idxmut b;ins a 0;ins c 2;ins d 3"]
    for fill in fills:
        for k in KEYS:
            out.append(f"inline {fill};goi {k} 5;iter;keys;len")
            for c in ("table", "tablelike", "inlinelike"):
                out.append(f"{c} {fill};goi {k} 5;iter")
    ent = lambda k: [f"entrem {k}", f"entins {k} 7", f"entget {k}", f"entmut {k} 8", f"entwith {k} 9", f"entkey {k}"]
    for fill in (fills[1], fills[2]):
        for k1 in KEYS:
            for k2 in KEYS:
                for o in ent(k2):
                    out.append(f"inline {fill};goi {k1} 5;{o};iter")
                    out.append(f"inline {fill};{o};goi {k1} 5;iter")
    return out


WIDE_KEYS = list(KEYS) + [f"k{i:02}" for i in range(40)]      # string order = model key index order


def gen_wide(rng, container):
    """a container of 21-40 entries with few distinct values (ties), then every ordering-sensitive call:
    sort by value (ties must keep their order), sort by key, retain, removal in the middle, re-insertion of
    an existing key, and the final iteration / into_iter / printed text"""
    ref = reference(container)
    ops = []

    def do(o):
        ops.append(o)
        ref.op(o.split(" "))

    nvals = rng.choice([2, 3, 3, 4])
    val = lambda: str(rng.randrange(nvals))
    n = rng.randrange(21, 41)
    if container in ("array", "aot"):
        while len(ref.l) < n:
            r = rng.random()
            ln = len(ref.l)
            if r < 0.45 or container == "aot" and r < 0.7:
                do(f"push {val()}")
            elif r < 0.7:
                do(f"ins {rng.randrange(ln + 1)} {val()}")
            else:
                do("extend " + " ".join(val() for _ in range(rng.randrange(1, 5))))
        tail = (["sortby"] * 4 + ["retain", "iter", "len"] if container == "array" else ["retain", "iter", "len"])
        for _ in range(rng.randrange(3, 12)):
            ln = len(ref.l)
            o = rng.choice(tail + ["rem", "rem", "repl", "ins", "push", "get"])
            if o == "rem" and ln:
                do(f"rem {rng.randrange(ln)}")
            elif o == "repl" and ln and container == "array":
                do(f"repl {rng.randrange(ln)} {val()}")
            elif o == "ins" and container == "array":
                do(f"ins {rng.randrange(ln + 1)} {val()}")
            elif o == "push":
                do(f"push {val()}")
            elif o == "get" and ln:
                do(f"get {rng.randrange(ln)}")
            elif o in ("sortby", "retain", "iter", "len"):
                do(o)
        return f"{container} " + ";".join(ops)
    keys = WIDE_KEYS[:]
    rng.shuffle(keys)
    keys = keys[:n]
    maplike = container in MAPLIKE
    like = container in ("tablelike", "inlinelike", "docinline")
    ismap = container.startswith("map")
    i = 0
    while i < len(keys):
        r = rng.random()
        if r < 0.2 and not like:
            m = rng.randrange(1, 6)
            do("extend " + " ".join(f"{k} {val()}" for k in keys[i:i + m]))
            i += m
            continue
        k = keys[i]
        i += 1
        if r < 0.75:
            do(f"ins {k} {val()}")
        elif r < 0.82 and maplike and not like:
            do(f"insf {k} {val()}")
        elif r < 0.86:
            do(f"entry {k} {val()}")
        elif r < 0.93 and maplike:
            # vacant insert appends (on an InlineTable also through get_or_insert)
            do(f"{rng.choice(['entins', 'entins', 'entwith'] + ['goi', 'goi'] * (container == 'inline'))} {k} {val()}")
        elif maplike:
            do(f"idxset {k} {val()}")
        else:
            do(f"ins {k} {val()}")
    if ismap:
        pool = ["retain", "rem", "rem", "rem", "ins", "iter", "keys", "values", "entry", "extend"]
    elif like:
        pool = ["sort", "rem", "rem", "ins", "iter", "keys", "entry", "idxmut", "len", "entrem", "entrem", "entrem",
                "entins", "entmut", "entget", "entwith", "entkey"]
    else:
        pool = ["sortby"] * 4 + ["sort", "retain", "rem", "rem", "reme", "ins", "insf", "iter", "keys", "entry",
                                 "idxmut", "extend", "len", "entrem", "entrem", "entrem", "entins", "entmut", "entget",
                                 "entwith", "entkey"] + ["goi", "goi"] * (container == "inline")
    present = lambda: [k for k in WIDE_KEYS if ref.get(k) is not None] if maplike else list(ref.d.keys())
    for _ in range(rng.randrange(3, 12)):
        o = rng.choice(pool)
        have = present()
        anyk = rng.choice(have) if have and rng.random() < 0.8 else rng.choice(WIDE_KEYS)
        if o in ("rem", "reme", "idxmut", "entrem", "entget", "entkey"):
            do(f"{o} {anyk}")
        elif o in ("ins", "insf", "entry", "entins", "entmut", "entwith", "goi"):
            do(f"{o} {anyk} {val()}")
        elif o == "extend":
            do("extend " + " ".join(f"{rng.choice(have) if have and rng.random() < 0.5 else rng.choice(WIDE_KEYS)} {val()}" for _ in range(rng.randrange(1, 4))))
        else:
            do(o)
    return f"{container} " + ";".join(ops)


def wide_regressions():
    """24 keys k00..k23 with value (i*7)%3 (resp. 24 elements), then the value-only sort: ties keep their order"""
    kv = [(f"k{i:02}", (i * 7) % 3) for i in range(24)]
    ins = ";".join(f"ins {k} {v}" for k, v in kv)
    out = [f"table {ins};sortby;iter", f"inline {ins};sortby;iter",
           f"table {ins};entrem k03;entins k07 5;entins a 1;entrem k00;iter", f"inline {ins};entrem k03;entins k07 5;entins a 1;entrem k00;iter",
           f"tablelike {ins};entrem k03;entmut k07 5;entwith a 1;entrem k00;iter", f"inlinelike {ins};entrem k03;entmut k07 5;entwith a 1;entrem k00;iter",
           f"table {ins};sort;retain;rem k12;reme k00;iter", f"inline {ins};sort;retain;rem k12;reme k00;iter",
           # the one undecorated element (first push) sits in the middle of its tie group after the inserts at 0
           "array push 1;" + ";".join(f"ins 0 {(i * 7) % 3}" for i in range(23)) + ";sortby;iter",
           "aot " + ";".join(f"push {(i * 7) % 3}" for i in range(24)) + ";retain;rem 3;iter",
           f"mapsorted {ins};retain;rem k12;iter", f"mapinsertion {ins};retain;rem k12;iter"]
    return out


def gen(ctx):
    rng = ctx.rng
    quick = ctx.tier == "quick"
    total = 24000 if quick else 160000
    maxlen = 30 if quick else 200
    share = {"table": 5, "tablelike": 2, "inline": 4, "inlinelike": 2, "docinline": 1, "array": 3, "aot": 1,
             "mapsorted": 2, "mapinsertion": 2}
    tot = sum(share.values())
    cases = list(REGRESSIONS) + wide_regressions() + entry_systematic() + goi_systematic()
    for c, s in share.items():
        for i in range(total * s // tot):
            n = rng.randrange(1, 31) if (quick or rng.random() < 0.8) else rng.randrange(31, maxlen + 1)
            # a third of the map-like histories never index mutably: no placeholder can exist
            cases.append(gen_history(rng, c, n, placeholders=not (c in MAPLIKE and i % 3 == 0)))
    # wide stream: 21-40 entries over a-d + k00..k39 with many equal values
    wide_total = 3000 if quick else 20000
    wshare = {"table": 6, "tablelike": 1, "inline": 5, "inlinelike": 1, "array": 4, "aot": 1, "mapsorted": 2,
              "mapinsertion": 2}
    wtot = sum(wshare.values())
    for c, s in wshare.items():
        for i in range(wide_total * s // wtot):
            cases.append(gen_wide(rng, c))
    return list(dict.fromkeys(cases))


# ---------------------------------------------------------------------------------------------


def run(ctx):
    translate(ctx)
    mods = ["TomlVerif.Props.C16", "driver"]
    lake_build(ctx, mods, {"TomlVerif.Props.C16": "refinement theorems: containers vs reference ordered map / vector"})
    audit(ctx, "TomlVerif.Props.C16", "TomlVerif/Props/C16.lean")
    if ctx.tier == "thorough":
        leanchecker(ctx, "TomlVerif.Props.C16")
    cases = gen(ctx)
    c_ins = [c for c in cases if c.startswith("mapinsertion ")]
    c_def = [c for c in cases if not c.startswith("mapinsertion ")]
    # toml::Map in its insertion-ordered configuration needs its own build; keep a copy of that binary
    impl = {}
    model = {}
    tvh_po = cargo_build(ctx, features=("preserve_order",))
    if tvh_po is None:
        ctx.violation("harness does not build against /repo with feature preserve_order", {"unchecked": "cargo build --features preserve_order"}, concrete=False)
    else:
        keep = os.path.join(WORK, "tvh_preserve_order")
        shutil.copyfile(tvh_po, keep)
        os.chmod(keep, 0o755)
        tvh_po = keep
        i2, m2 = run_pair(ctx, tvh_po, "c16", c_ins)
        impl.update(zip(c_ins, i2))
        model.update(zip(c_ins, m2))
    tvh = cargo_build(ctx)
    if tvh is None:
        ctx.violation("harness does not build against /repo", {"unchecked": "cargo build"}, concrete=False)
        return
    regression_lines(ctx, tvh, ["c16"])
    i1, m1 = run_pair(ctx, tvh, "c16", c_def)
    impl.update(zip(c_def, i1))
    model.update(zip(c_def, m1))
    cases = [c for c in cases if c in impl]

    def binary_for(case):
        return tvh_po if case.startswith("mapinsertion ") else tvh

    # direct oracle: every history against the reference ordered map / vector
    classes = {}        # (container, where) -> list of (case, verdict)
    ndis = 0
    first = None
    hist_ops = {}
    hist_cont = {}
    lens = {}
    nontriv = set()
    with_placeholder = 0
    for c in cases:
        i, m = impl[c], model[c]
        container, ops = split_case(c)
        hist_cont[container] = hist_cont.get(container, 0) + 1
        lens[min(len(ops) // 10 * 10, 200)] = lens.get(min(len(ops) // 10 * 10, 200), 0) + 1
        for o in ops:
            nm = o.split(" ")[0]
            hist_ops[nm] = hist_ops.get(nm, 0) + 1
        if len(ops) >= 3 and len({o.split(" ")[1] for o in ops if " " in o}) >= 1:
            nontriv.add(c)
        if "idxmut" in c or container == "docinline":
            with_placeholder += 1
        v = oracle(c, i)
        if v is not None:
            classes.setdefault((container, v[0]), []).append((c, v))
        if i != m:
            ndis += 1
            if first is None or len(c) < len(first[0]):
                first = (c, i, m)
    nviol = sum(len(v) for v in classes.values())
    all_regs = REGRESSIONS + wide_regressions()
    # the wide stream: how often an ordering-sensitive call met 21 or more entries
    wide = {}
    big_calls = {}
    for c in cases:
        container, ops = split_case(c)
        if not any(k in c for k in (" k0", " k1", " k2", " k3")) and not (container in ("array", "aot") and len(ops) >= 15):
            continue
        ref = reference(container)
        hit = False
        for o in ops:
            p = o.split(" ")
            size = len(ref.l) if container in ("array", "aot") else (len(ref.entries()) if container in MAPLIKE else len(ref.d))
            if size >= 21 and p[0] in ("sortby", "sort", "retain", "rem", "reme", "entrem"):
                big_calls[f"{container}:{p[0]}"] = big_calls.get(f"{container}:{p[0]}", 0) + 1
                hit = True
            ref.op(p)
        if hit:
            wide[container] = wide.get(container, 0) + 1
    # InlineTable::get_or_insert: in which state of its key the call was made
    goi_on_ph = 0
    goi_states = {"absent": 0, "reserved (placeholder)": 0, "present": 0}
    for c in cases:
        container, ops = split_case(c)
        if container != "inline" or "goi " not in c:
            continue
        ref = reference(container)
        for o in ops:
            p = o.split(" ")
            if p[0] == "goi":
                st = "absent" if ref.pos(p[1]) is None else ("present" if ref.get(p[1]) is not None else "reserved (placeholder)")
                goi_states[st] += 1
            ref.op(p)
    goi_on_ph = goi_states["reserved (placeholder)"]
    # one violation per root cause: classes that one code change would repair are reported together,
    # with a fixed regression history as witness when one of them fails (stable across seeds)
    causes = {}
    for (container, where), lst in sorted(classes.items()):
        causes.setdefault(cause_of(container, where), []).extend((c, v, container, where) for c, v in lst)
    for cause, lst in sorted(causes.items()):
        reg = [x for x in lst if x[0] in all_regs]
        if reg:
            case, verdict, container, where = min(reg, key=lambda x: all_regs.index(x[0]))
        else:
            case, verdict, container, where = min(lst, key=lambda x: (len(split_case(x[0])[1]), len(x[0]), x[0]))
        _, ops = split_case(case)

        def fails(cand, container=container, cause=cause):
            cc = f"{container} " + ";".join(cand)
            rc, out, _ = run_lines(binary_for(cc), "c16", [cc])
            if len(out) != 1:
                return False
            vv = oracle(cc, out[0])
            return vv is not None and cause_of(container, vv[0]) == cause

        # shrink by dropping calls (deterministic, so the witness of a fixed regression history stays fixed)
        if len(ops) > 1:
            ops = ddmin(ops, fails, max_steps=1500)
        wit = f"{container} " + ";".join(ops)
        rc, out, _ = run_lines(binary_for(wit), "c16", [wit])
        got = out[0] if len(out) == 1 else "?"
        vv = oracle(wit, got) or verdict
        rc, mo, _ = run_lines(driver_path(), "c16", [wit])
        per = {}
        for x in lst:
            per[f"{x[2]}:{x[3]}"] = per.get(f"{x[2]}:{x[3]}", 0) + 1
        ctx.violation(
            f"{cause}: {container} after `{';'.join(ops)}`: {vv[1]}, the reference ordered {'vector' if container in ('array', 'aot') else 'map'} gives {vv[2]} ({len(lst)} histories deviate first this way: {per})",
            {"mode": "c16", "case": wit, "impl": got, "model": mo[0] if len(mo) == 1 else "?", "expected": vv[2],
             "cause": cause, "histories_per_class": per, "witness": wit})
    ctx.oblige("correspondence c16: model driver = implementation on every history", ndis == 0,
               f"{ndis} disagreements; shortest: {first}")
    if ctx.broken and not ctx.violations:
        for n, d in ctx.broken:
            ctx.violation(f"obligation no longer checks: {n}", {"unchecked": n, "detail": d[:1500], "searched": f"{len(cases)} histories against the reference ordered map / vector"}, concrete=False)
    ctx.cov.update({
        "evaluations": len(cases), "distinct_nontrivial": len(nontriv),
        "rule": "random histories of API calls (length 1-30, thorough up to 200) over keys a-d (2-4 of them in use, `a` twice as likely) and values 0-9, per container: Table, Table through dyn TableLike, InlineTable, InlineTable through dyn TableLike, the inline table doc[\"t\"][\"a\"] creates, Array, ArrayOfTables, toml::Map sorted (default build) and insertion-ordered (preserve_order build); a third of the map-like histories never index mutably; vector indexes 90% in range; plus fixed regression histories; plus the systematic Entry API family (every one of entrem/entins/entget/entmut/entwith/entkey/entry/entocc on every key of a 3- and a 4-entry map and next to a placeholder, and every ordered pair of the six new calls on a 4-entry map, then iter, for Table, InlineTable and both through dyn TableLike); plus the systematic InlineTable::get_or_insert family (op `goi`: every history of 1-3 calls over keys a, b from idxmut/ins/rem/goi/entry/get/idxset that contains a goi, then iter;len; goi on every key of the filled maps incl. on and next to a placeholder; goi before and after every Entry API call on a 4-entry map; `na` on every container without the method); plus the wide stream (see wide_rule). non-trivial = at least 3 calls with at least one key/index argument",
        "samples": [cases[0], cases[len(all_regs) + 1], cases[len(all_regs) + len(entry_systematic()) + 1],
                    cases[len(all_regs) + len(entry_systematic()) + len(goi_systematic()) + 1],
                    cases[len(cases) // 2], cases[-1]],
        "entry_api_systematic_histories": len(entry_systematic()),
        "get_or_insert_systematic_histories": len(goi_systematic()),
        "get_or_insert_calls_on_a_placeholder": goi_on_ph,
        "get_or_insert_calls_per_key_state": goi_states,
        "histories_per_container": hist_cont, "calls_per_operation": dict(sorted(hist_ops.items())),
        "history_length_histogram": {str(k): v for k, v in sorted(lens.items())},
        "histories_with_placeholders": with_placeholder,
        "wide_histories_per_container": wide,
        "wide_rule": "wide stream: 21-40 entries over keys a-d + k00..k39 (vectors: 21-40 elements) with 2-4 distinct values, then 3-11 of sortby (value-only comparator: ties) / sort / retain / rem / remove_entry / re-insert / idxmut / extend / Entry API (entry(k) then remove, insert, get, get_mut, or_insert_with, key); counted when such a call met >= 21 entries",
        "ordering_calls_on_21_or_more_entries": dict(sorted(big_calls.items())),
        "histories_deviating_from_reference": nviol,
        "deviation_classes": {f"{k[0]}:{k[1]}": len(v) for k, v in sorted(classes.items())},
        "traces_validated_against_impl": len(cases), "disagreements": ndis,
        "oracles": ["every call's return value and the final observation (len, is_empty, iteration, get of every key, into_iter, printed text) = reference ordered map with reserved positions (python list), python list for vectors (with the element decoration, so the printed array is compared exactly), python dict for toml::Map",
                    "model driver = implementation on every history"],
    })
