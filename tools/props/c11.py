"""C11 — numbers are lossless or rejected, never wrapped, saturated or rounded away."""
import struct
from vlib import *

KINDS = ["u8", "i8", "u16", "i16", "u32", "i32", "u64", "i64", "i128", "u128"]
RANGE = {"u8": (0, 255), "i8": (-128, 127), "u16": (0, 65535), "i16": (-32768, 32767), "u32": (0, 2**32 - 1),
         "i32": (-2**31, 2**31 - 1), "u64": (0, 2**64 - 1), "i64": (-2**63, 2**63 - 1), "i128": (-2**127, 2**127 - 1), "u128": (0, 2**128 - 1)}


def gen(ctx):
    rng = ctx.rng
    big = ctx.tier != "quick"
    ints = set()
    for k in range(0, 64):
        for d in (-1, 0, 1):
            for s in (1, -1):
                v = s * (2 ** k) + d
                if -2**63 <= v < 2**63:
                    ints.add(v)
    for k in range(0, 19):
        for d in (-1, 0, 1):
            for s in (1, -1):
                ints.add(s * 10 ** k + d)
    ints |= {0, -2**63, 2**63 - 1}
    for _ in range(100000 if big else 1500):
        ints.add(rng.getrandbits(64) - 2**63)
    icases = [f"i {v}" for v in sorted(ints)]
    # literals around the range edges in four bases with signs, underscores, leading zeros
    lits = []
    edge = [2**63 - 2, 2**63 - 1, 2**63, 2**63 + 1, 2**64 - 1, 2**64, 2**64 + 5, 2**127, 10**30, 0, 1, 7, 8, 255]
    for v in edge:
        for base, pre, fmt in ((10, "", "{:d}"), (16, "0x", "{:x}"), (16, "0x", "{:X}"), (8, "0o", "{:o}"), (2, "0b", "{:b}")):
            t = fmt.format(v)
            lits.append(pre + t)
            if len(t) > 3:
                lits.append(pre + t[:2] + "_" + t[2:])
                lits.append(pre + t[:1] + "_" + t[1:-1] + "_" + t[-1:])
            lits.append(pre + "0" + t)
            lits.append(pre + "00" + t)
            if base == 10:
                lits += ["+" + t, "-" + t, "-0" + t, "+0" + t]
                lits.append("-" + str(v + 1))
            else:
                lits += ["+" + pre + t, "-" + pre + t, pre.upper() + t]
    lits += ["_1", "1_", "1__2", "0x_1", "0x1_", "0x", "0o8", "0b2", "0b", "0o", "+", "-", "+_1", "0_0", "00", "-00", "0e0", "0.0", "-0", "+0",
             "1.", ".1", "1.e1", "1e", "1e+", "1E5", "1e-5", "1_0e1_0", "1e1_", "1._0", "1_.0", "1e_1", "0.0e0", "00.0", "01.5", "1.5.5", "1e5e5",
             "inf", "+inf", "-inf", "nan", "+nan", "-nan", "Inf", "NaN", "infinity", "nane", "i", "n", "in", "na", "+i", "-n",
             "1979-05-27", "07:32:00", "1979-05-27T07:32:00Z", "1979-05-2", "12:00", "1979-05-27 07:32:00"]
    # float overflow edges, both signs
    for sgn in ("", "+", "-"):
        for t in ["1e308", "1.7976931348623157e308", "1.7976931348623158e308", "1.797693134862315807e308", "1.7976931348623159e308",
                  "1.8e308", "2e308", "1e309", "1e999", "1e99999999999999999999", "179769313486231570000000000000" + "0" * 279 + ".0",
                  "1" + "0" * 309, "1" + "0" * 309 + ".0", "1" + "0" * 400 + "e-100", "0." + "0" * 400 + "1e400", "0." + "0" * 400 + "1e710",
                  "4.9e-324", "2.4703282292062327e-324", "2.4703282292062328e-324", "2.47e-324", "1e-400", "1e-99999999999", "0e999999", "0.0e999",
                  "2.2250738585072014e-308", "2.2250738585072011e-308", "9007199254740993.0", "9007199254740993e0", "9007199254740992.5",
                  "0.1", "0.30000000000000004", "123456789012345678901234567890.0", "1.0000000000000002220446049250313080847263336181640625",
                  "1.00000000000000011102230246251565404236316680908203125", "1.00000000000000011102230246251565404236316680908203124",
                  "1.00000000000000011102230246251565404236316680908203126", "5e-324", "3e-324", "1e23", "8.5e22", "6_0.0_1e+0_2"]:
            lits.append(sgn + t)
    for _ in range(100000 if big else 2500):
        mant = str(rng.getrandbits(rng.choice([8, 30, 53, 64, 80])))
        k = rng.randrange(len(mant) + 1)
        e = rng.choice([0, 1, -1, 22, -22, 300, -300, 308, -308, 309, -324, -330, rng.randrange(-340, 320)])
        t = mant[:k] + ("." + mant[k:] if k < len(mant) else "")
        if not t or t[0] == ".":
            t = "0" + t
        if len(t) > 1 and t[0] == "0" and t[1] != ".":
            t = t.lstrip("0") or "0"
            if t[0] == ".":
                t = "0" + t
        lits.append(rng.choice(["", "-", "+"]) + t + rng.choice(["e", "E"]) + str(e))
    lits = list(dict.fromkeys(lits))
    lcases = [f"l {h(x)}" for x in lits]
    # f64 / f32 bit patterns
    fb = set()
    for e in list(range(0, 8)) + list(range(1020, 1030)) + list(range(2040, 2048)) + [1075, 1076, 1074, 1023 + 52, 1023 + 53, 1023 + 63, 1023 + 64]:
        for m in (0, 1, 2**51, 2**52 - 1, 2**52 - 2, 0x8000000000001 & (2**52 - 1)):
            for sg in (0, 1):
                fb.add((sg << 63) | (e << 52) | m)
    for v in [0.0, -0.0, 1.0, -1.0, 0.1, 1e15, 1e16, 1e17, 1e21, 1e22, 1e23, 1e100, 1e300, 1.7976931348623157e308, 5e-324, 2.2250738585072014e-308, 123456789.125, 0.5, 1e-7, 1e-5, 3.0e-10]:
        fb.add(struct.unpack("<Q", struct.pack("<d", v))[0])
        fb.add(struct.unpack("<Q", struct.pack("<d", -v))[0])
    for _ in range(150000 if big else 2500):
        fb.add(rng.getrandbits(64))
    for _ in range(25000 if big else 500):
        ex = rng.randrange(-320, 309)
        fb.add(struct.unpack("<Q", struct.pack("<d", float(f"{rng.randrange(1, 10**17)}e{ex - 16}")))[0])
    gb = set()
    for e in list(range(0, 4)) + list(range(125, 131)) + [150, 151, 254, 255]:
        for m in (0, 1, 2**22, 2**23 - 1):
            for sg in (0, 1):
                gb.add((sg << 31) | (e << 23) | m)
    for _ in range(50000 if big else 1200):
        gb.add(rng.getrandbits(32))
    # serde widths
    sd = []
    for k in KINDS:
        lo, hi = RANGE[k]
        for v in {lo, hi, 0 if lo <= 0 else lo, min(hi, 2**63 - 1), min(hi, 2**63), max(lo, -2**63), max(lo, -2**63 - 1), min(hi, 2**64 - 1), 1, min(hi, 127)}:
            if lo <= v <= hi:
                sd.append(f"so {k} {v}")
                sd.append(f"vv {k} {v}")
        for _ in range(40):
            v = rng.randint(lo, hi) if rng.random() < 0.5 else max(lo, min(hi, rng.choice([2**63, 2**63 - 1, 2**64 - 1, -2**63, 0]) + rng.randint(-3, 3)))
            sd.append(f"vv {k} {v}")
        for v in [0, 1, -1, 127, 128, -128, -129, 255, 256, 32767, 32768, -32768, -32769, 65535, 65536, 2**31 - 1, 2**31, -2**31, -2**31 - 1,
                  2**32 - 1, 2**32, 2**63 - 1, -2**63, 2**63, -2**63 - 1]:
            sd.append(f"de {k} {v}")
    return icases, lcases, sorted(fb), sorted(gb), sd


def run(ctx):
    translate(ctx)
    mods = ["TomlVerif.Gen.CheckLex", "TomlVerif.Gen.CheckNumbers", "TomlVerif.Props.C11", "driver"]
    lake_build(ctx, mods, {"TomlVerif.Gen.CheckLex": "table theorems: digit classes, prefixes, keywords",
                           "TomlVerif.Gen.CheckNumbers": "table theorems: float overflow predicate, radix arms, f64/f32 writer arms",
                           "TomlVerif.Props.C11": "property theorems"})
    audit(ctx, "TomlVerif.Props.C11", "TomlVerif/Props/C11.lean")
    if ctx.tier == "thorough":
        leanchecker(ctx, "TomlVerif.Props.C11")
    extra_props(ctx, ["C11Serde"])
    tvh = cargo_build(ctx)
    if tvh is None:
        ctx.violation("harness does not build against /repo", {"unchecked": "cargo build"}, concrete=False)
        return
    regression_lines(ctx, tvh, ["c11"])
    icases, lcases, fb, gb, sd = gen(ctx)
    # std's Display text for every float (an input of the model, validated by `dispok`)
    rc, fdisp, _ = run_lines(tvh, "c11", [f"fd {b:016x}" for b in fb] + [f"gd {b:08x}" for b in gb])
    fcases = [f"f {b:016x} {d}" for b, d in zip(fb, fdisp[:len(fb)])]
    gcases = [f"g {b:08x} {d}" for b, d in zip(gb, fdisp[len(fb):])]
    cases = icases + lcases + fcases + gcases + sd
    impl, model = run_pair(ctx, tvh, "c11", cases)
    ndis, first = 0, None
    hist = {}
    for c, i, m in zip(cases, impl, model):
        p = c.split(" ")
        bad = None
        if i.startswith("PANIC") or i == "CRASH":
            bad = f"panic: {i[:100]}"
        elif p[0] == "i":
            if i.split(" ")[-1] != f"int:{p[1]}":
                bad = f"i64 {p[1]} prints as {unh(i.split(' ')[0])!r} and reads back as {i.split(' ')[-1]}"
        elif p[0] == "l":
            txt = unh(p[1]).decode()
            k = i.split(":")[0]
            hist[k] = hist.get(k, 0) + 1
            bad = lit_oracle(txt, i)
        elif p[0] == "f":
            f = i.split(" ")
            bits = int(p[1], 16)
            if f[-1] != "dispok:true":
                bad = f"std Display text {unh(p[2])!r} does not parse back to the bit pattern"
            elif not f[1].startswith("float:"):
                bad = f"f64 {p[1]} prints as {unh(f[0])!r} which reads back as {f[1]} (not a float)"
            else:
                got = int(f[1][6:], 16)
                isnan = (bits >> 52) & 0x7ff == 0x7ff and bits & (2**52 - 1)
                want = ((bits >> 63) << 63) | 0x7ff8000000000000 if isnan else bits
                if got != want:
                    bad = f"f64 {p[1]} prints as {unh(f[0])!r} and reads back as {got:016x}"
        elif p[0] == "g":
            f = i.split(" ")
            bits = int(p[1], 16)
            if not f[1].startswith("float:"):
                bad = f"f32 {p[1]} prints as {unh(f[0])!r} which reads back as {f[1]} (not a float)"
            else:
                got64 = struct.unpack("<d", struct.pack("<Q", int(f[1][6:], 16)))[0]
                isnan = (bits >> 23) & 0xff == 0xff and bits & (2**23 - 1)
                try:
                    back = struct.unpack("<I", struct.pack("<f", got64))[0]
                except OverflowError:
                    back = None
                if isnan:
                    ok = got64 != got64 and (int(f[1][6:], 16) >> 63) == (bits >> 31)
                else:
                    ok = back == bits
                if not ok:
                    bad = f"f32 {p[1]} prints as {unh(f[0])!r} and reads back as {f[1]}"
        elif p[0] == "so":
            v = int(p[2])
            want = f"ok:{v}" if -2**63 <= v < 2**63 else "err"
            if p[1] in ("i128", "u128") and i == "err":
                want = "err"   # 128-bit widths are refused outright (allowed: an error, never a wrong value)
            if i != want:
                bad = f"serializing {p[1]} {v}: {i}, expected {want}"
        elif p[0] == "de":
            v = int(p[2])
            lo, hi = RANGE[p[1]]
            want = f"ok:{v}" if (-2**63 <= v < 2**63 and lo <= v <= hi) else "err"
            if p[1] in ("i128", "u128") and i == "err":
                want = "err"
            if i != want:
                bad = f"deserializing {v} into {p[1]}: {i}, expected {want}"
        elif p[0] == "vv":
            v = int(p[2])
            want = f"ok:{v}" if -2**63 <= v < 2**63 else "err"
            if p[1] in ("i128", "u128") and i == "err":
                want = "err"
            if i != want:
                bad = f"a {p[1]} {v} handed to toml::Value / toml::Table by a foreign serde deserializer: {i}, expected {want} (exact or an error, never wrapped)"
        if bad:
            ctx.violation(f"{c[:120]}: {bad}", {"mode": "c11", "case": c, "impl": i, "model": m, "witness": c})
        if i != m:
            ndis += 1
            if first is None or len(c) < len(first[0]):
                first = (c, i, m)
    ctx.oblige("correspondence c11: model driver = implementation on every case", ndis == 0, f"{ndis} disagreements; shortest: {first}")
    if ctx.broken and not ctx.violations:
        for n, d in ctx.broken:
            ctx.violation(f"obligation no longer checks: {n}", {"unchecked": n, "detail": d[:1500], "searched": f"{len(cases)} cases"}, concrete=False)
    ctx.cov.update({
        "evaluations": len(cases), "distinct_nontrivial": len(set(cases)) - 10,
        "rule": "i64: all +-2^k+-1, +-10^k+-1, extremes, random bit patterns; literals: range-edge values in bases 2/8/10/16 with signs, underscores, leading zeros, malformed shapes, float overflow/underflow edges with both signs, halfway cases, random mantissa/exponent; f64/f32: exponent-field and mantissa edges, specials, random bit patterns, random decimal exponents; serde: every width at its edges, serializing, reading, and handed to toml::Value / toml::Table by serde's own primitive deserializers (a foreign deserializer: visit_u64 etc.). non-trivial = all but the ten single-digit cases",
        "samples": [icases[3], unh(lcases[40][2:]).decode(), fcases[10], gcases[5], sd[7]],
        "literal_outcomes": hist, "counts": {"i64": len(icases), "literals": len(lcases), "f64": len(fcases), "f32": len(gcases), "serde": len(sd)},
        "traces_validated_against_impl": len(cases), "disagreements": ndis,
    })


def lit_oracle(txt, out):
    """independent reference for integer literals (exact, python ints) and for float overflow"""
    import re
    t = txt
    m = re.fullmatch(r"([+-]?)(0|[1-9](?:_?[0-9])*)", t)
    v = None
    if m:
        v = int(m.group(2).replace("_", ""))
        if m.group(1) == "-":
            v = -v
    else:
        for pre, base, cls in (("0x", 16, "[0-9A-Fa-f]"), ("0o", 8, "[0-7]"), ("0b", 2, "[01]")):
            m = re.fullmatch(pre + f"({cls}(?:_?{cls})*)", t)
            if m:
                v = int(m.group(1).replace("_", ""), base)
    if v is not None:
        want = f"int:{v}" if -2**63 <= v < 2**63 else "err"
        return None if out == want else f"integer literal {txt!r}: got {out}, expected {want}"
    m = re.fullmatch(r"[+-]?(0|[1-9](?:_?[0-9])*)(?:\.[0-9](?:_?[0-9])*)?(?:[eE][+-]?[0-9](?:_?[0-9])*)?", t)
    if m and ("." in t or "e" in t or "E" in t):
        try:
            f = float(t.replace("_", ""))
        except (OverflowError, ValueError):
            f = float("inf")
        if f in (float("inf"), float("-inf")):
            return None if out == "err" else f"float literal {txt[:40]!r} overflows a double but was read as {out}"
        want = "float:%016x" % struct.unpack("<Q", struct.pack("<d", f))[0]
        return None if out == want else f"float literal {txt[:60]!r}: got {out}, expected {want}"
    return None
