"""C14 — spans point at exactly the source text of each item."""
import re
from vlib import *
import docgen
from props.parse_common import corpus_files


def run(ctx):
    translate(ctx)
    mods = ["TomlVerif.Props.C14", "driver"]
    lake_build(ctx, mods, {"TomlVerif.Props.C14": "property theorems"})
    audit(ctx, "TomlVerif.Props.C14", "TomlVerif/Props/C14.lean")
    extra_props(ctx, ['C14Doc'])
    if ctx.tier == "thorough":
        leanchecker(ctx, "TomlVerif.Props.C14")
    tvh = cargo_build(ctx)
    if tvh is None:
        ctx.violation("harness does not build against /repo", {"unchecked": "cargo build"}, concrete=False)
        return
    from props import probe_compare as _pc
    regression_lines(ctx, tvh, ["c14"], cut=_pc.cut_c14)
    rng = ctx.rng
    big = ctx.tier != "quick"
    g = docgen.Gen(rng)
    docs = []
    for _ in range(160000 if big else 4000):
        t, _ = g.document()
        docs.append(t.encode())
    for n, d in corpus_files():
        if n.startswith("valid"):
            try:
                d.decode()
                docs.append(d)
            except UnicodeDecodeError:
                pass
    for t in ["﻿é = 'é'\r\n", "\"é\".'ü' = [ 'x' , {a.b = \"😀\"} ] # é\n", "[é.\"ü\"]\r\nk = 1\r\n[[a.b]]\n[[a.b]]\nz = {}\n", "a.b.c = 1\na.b.d = 2\n[x]\n[x.y.z]\n",
              # tables without a span of their own whose entries interleave (the synthesized Spanned span must cover all of them)
              "a.b.x = 1\na.c = 2\na.b.y = 3\n", "a.b.x = 1 # é\r\na.c = 'ü'\r\n\r\na.b.y = 3\r\n", "t = { a.b.x = 1, a.c = 2, a.b.y = 3 }\n",
              "[a.b.x]\nk = 1\n[a.c]\nk = 2\n[a.b.y]\nk = 3\n", "[[a.b]]\nk = 1\n[a.c]\nk = 2\n[[a.b]]\nk = 3\n", "[r]\na.b.x = 1\na.c.z = 2\na.b.y = 3\na.c.w = 4\n",
              "[[r]]\np.q.a = 1\np.s = 2\np.q.b = [1, 2]\n[[r]]\np.q.a = 1\n"]:
        docs.append(t.encode())
    # interleaved definitions of span-less tables: leaves of a small key tree in random order, as dotted keys (root, below a
    # header, inside an inline table) or as headers
    def leaf_paths():
        out = []
        def walk(pre, d):
            for k in rng.sample(["a", "b", "c", "'é'"], rng.choice([2, 2, 3])):
                if d == 0 or (d < 2 and rng.random() < 0.3):
                    out.append(pre + [k])
                else:
                    walk(pre + [k], d - 1)
        walk([], rng.choice([1, 2, 2]))
        rng.shuffle(out)
        return out[: rng.choice([3, 4, 6])]
    for _ in range(20000 if big else 1500):
        ps = leaf_paths()
        eol = rng.choice(["\n", "\n", "\r\n"])
        form = rng.randrange(4)
        if form == 0:
            t = "".join(f"{'.'.join(q)} = {i}{eol}" for i, q in enumerate(ps))
        elif form == 1:
            t = rng.choice(["[r]", "[[r]]", "[r.s]"]) + eol + "".join(f"{'.'.join(q)} = {i} # c{eol}" for i, q in enumerate(ps))
        elif form == 2:
            t = "t = { " + ", ".join(f"{'.'.join(q)} = {i}" for i, q in enumerate(ps)) + " }" + eol
        else:
            t = "".join(f"{rng.choice(['[%s]', '[[%s]]']) % '.'.join(q + ['h'])}{eol}k = {i}{eol}" for i, q in enumerate(ps))
        docs.append(t.encode())
    lines = [h(d) for d in docs]
    impl, model = run_pair(ctx, tvh, "c14", lines)
    ndis, first = 0, None
    nspans = 0
    nontriv = set()
    for d, ln, i, m in zip(docs, lines, impl, model):
        bad = None
        if i.startswith("PANIC") or i == "CRASH":
            bad = f"panic: {i[:120]}"
        elif i.startswith("ok "):
            sp = i.split(" oracle=")[0][len("ok spans="):]
            nspans += sp.count(",") + 1
            orc = re.search(r" oracle=(\S+)", i).group(1)
            serde = re.search(r" serde\[(.*?)\]", i).group(1)
            desp = re.search(r" despan=(\S+)", i).group(1)
            keysr = (re.search(r" keys=(\S+)", i) or [None, "same"])[1]
            if orc != "ok":
                bad = f"span oracle: {orc[:200]} (bounds / character boundaries / child inside parent / re-parsing the slice gives the same key or value)"
            elif serde.startswith("SERDE-ERR"):
                bad = f"decoding into Spanned<...> fails although the plain decode succeeds: {unh(serde.split(':')[1]).decode(errors='replace')[:100]}"
            elif "value=same" not in serde:
                bad = "wrapping in Spanned changes the decoded value"
            elif "spans=same" not in serde:
                bad = f"spans delivered through serde differ from the document's: {serde[:200]}"
            elif desp != "none":
                bad = "a span survives into_mut()"
            elif keysr != "same":
                bad = f"map keys read as Newtype(String) / Spanned<Newtype(String)> / Newtype(Spanned<String>) / Spanned<String> disagree: {keysr[:300]}"
            if any(x >= 0x80 for x in d):
                nontriv.add(ln)
        if bad:
            ctx.violation(f"{d[:60]!r}: {bad}", {"mode": "c14", "case": ln, "text": d.decode("utf-8", "replace")[:3000], "impl": i[:3000], "model": m[:3000], "witness": ln})
        mi = i.split(" oracle=")[0] if i.startswith("ok ") else i
        if mi != m:
            ndis += 1
            if first is None or len(ln) < len(first[0]):
                first = (d[:120], mi[:300], m[:300])
    ctx.oblige("correspondence c14: every key / value / table / array-of-tables span of the model's span-recording parser = the implementation's", ndis == 0, f"{ndis} disagreements; shortest: {first}")
    # ---- Spanned<T> targets through serde: Model/DeSpanned.lean = the three routes (stream c14s), plus direct oracles
    extra_props(ctx, ["C14Spanned", "C14SpannedFull", "C14SpannedUniform"])
    from props import c14sp
    sstats, sdis, sbroken = c14sp.run_spanned(ctx, tvh)
    for name, fails in sbroken.items():
        for l, dd in fails[:5]:
            what = {"transparent": "wrapping the target type in Spanned changes whether decoding succeeds, where the error is located, or the value",
                    "ranges": "a range delivered through Spanned is not the span of a key / value of the document",
                    "no-source": "a range is delivered although the document was made editable (spans must disappear, not go stale)",
                    "same-routes": "toml and toml_edit routes differ"}.get(name, name)
            ctx.violation(f"Spanned target, {what}: {dd[:300]}", {"mode": "c14s", "case": l, "impl": dd[:2000], "witness": l})
    if ctx.broken and not ctx.violations:
        for n, d in ctx.broken:
            ctx.violation(f"obligation no longer checks: {n}", {"unchecked": n, "detail": d[:1500], "searched": f"{len(docs)} documents"}, concrete=False)
    ctx.cov.update({
        "evaluations": len(docs) + sstats.get("cases", 0), "spanned_targets": sstats, "distinct_nontrivial": len(nontriv),
        "rule": "generated valid documents (multi-byte characters in keys, strings and comments, BOM, CRLF, comments and whitespace around every token, nested containers, dotted keys, header / array-of-tables layouts) + toml-test valid files + hand-written multi-byte layouts; oracles on the implementation: bounds, character boundaries, child inside parent, slice re-parses to the same key / value, Spanned<T> route equal value and equal spans (a recursive Spanned tree), the four key kinds Newtype(String) / Spanned<Newtype(String)> / Newtype(Spanned<String>) / Spanned<String> agree on success, keys and ranges; Spanned<T> targets (c14s): well-typed (type, document) pairs of the C13 grammar with Spanned wrappers at random positions (values, map keys, struct fields, enum payloads, elements) on three routes against Model/DeSpanned.lean and against the unwrapped type; no span after into_mut. non-trivial = document contains a non-ASCII byte",
        "samples": [docs[0].decode()[:150], docs[-1].decode()[:150]], "spans_checked": nspans,
        "traces_validated_against_impl": len(docs), "disagreements": ndis,
    })
