"""C20 — the default read-only and mutable visitors reach every node exactly once, in document
order; a visitor overriding one scalar hook rewrites all scalars of that type and nothing else.

case = one document (hex). harness: tracing `Visit` + tracing `VisitMut` (every hook overridden,
records, calls the default function) + a `VisitMut` overriding only `visit_integer_mut` (n -> n+1).
Direct oracles on the implementation's output (none uses the Lean model):
 (a) read-only trace == mutable trace;
 (b) the trace equals the walk *this file* computes from an intended tree: the full hook sequence for
     the shape generator below (which builds the tree first and renders it), the key/scalar sequence
     for docgen's intended tree, the multisets of keys/scalars/containers for the toml-test JSON;
 (c) `after` == `before` with every integer token incremented (when it fits i64) and nothing else;
 (d) the trace equals an independent python walk over the tree read back from `before` (the canonical
     form is produced through the inherent `Table::iter`/`InlineTable::iter`/`Array::iter`, the visitor
     goes through `TableLike::iter` / `iter_mut`), and every `kv` is followed by `item`, every
     table/inline by `tablelike`, every scalar/array/inline preceded by `value`.
"""
import os, re, sys, json, struct
from vlib import *
import docgen
from props.parse_common import corpus_files, regression_files

sys.setrecursionlimit(20000)
I64_MAX = 9223372036854775807


# ------------------------------------------------------------------------------------------
# shape generator: a tree first, then its text; the tree's own walk is the expected trace
# node = ('s', kind, text, event) scalar | ('arr', [value nodes]) | ('inl', [(key, value node)])
#      | ('tbl', mode, [(key, node)])  mode in header/implicit/dotted | ('aot', [tbl nodes])
# ------------------------------------------------------------------------------------------

class Shapes:
    def __init__(self, rng, hist):
        self.r = rng
        self.hist = hist
        self.kc = 0

    def hit(self, k):
        self.hist[k] = self.hist.get(k, 0) + 1

    def key(self):
        """keys are unique within a document (a counter is appended), so no two entries merge by accident"""
        self.kc += 1
        return self.r.choice(["k", "a", "x", "t", "é", "1x", "true", "a b", "n", "-", "_"]) + str(self.kc)

    @staticmethod
    def render_key(k):
        if k and all(c.isascii() and (c.isalnum() or c in "_-") for c in k):
            return k
        return '"' + k + '"'

    def scalar(self):
        r = self.r
        c = r.randrange(6)
        if c == 0:
            n = r.choice([0, 1, -1, 42, I64_MAX, I64_MAX - 1, -I64_MAX - 1, r.randrange(-10**6, 10**6), r.randrange(-2**63, 2**63)])
            txt = str(n)
            if n >= 0 and r.random() < 0.2:
                txt = r.choice([hex(n), oct(n), bin(n)])
            self.hit("int")
            return ("s", "int", txt, f"int:{n}")
        if c == 1:
            s = r.choice(["", "a", "héllo", "x y", "1", "😀"])
            self.hit("str")
            return ("s", "str", r.choice(['"%s"', "'%s'"]) % s, "str:" + h(s))
        if c == 2:
            b = r.random() < 0.5
            self.hit("bool")
            return ("s", "bool", "true" if b else "false", f"bool:{1 if b else 0}")
        if c == 3:
            f = r.choice([0.0, 1.5, -2.25, 1e10, 6.02e23, float("inf"), -float("inf")])
            txt = {float("inf"): "inf", -float("inf"): "-inf"}.get(f, repr(f))
            self.hit("float")
            return ("s", "float", txt, "float:%016x" % struct.unpack(">Q", struct.pack(">d", f))[0])
        if c == 4:
            self.hit("dt")
            return r.choice([("s", "dt", "1979-05-27", "dt:1979-5-27|-|-"), ("s", "dt", "07:32:00", "dt:-|7:32:0:0|-"),
                             ("s", "dt", "1979-05-27T07:32:00Z", "dt:1979-5-27|7:32:0:0|Z"),
                             ("s", "dt", "1979-05-27 07:32:00.5-07:00", "dt:1979-5-27|7:32:0:500000000|-420")])
        self.hit("int")
        n = r.randrange(100)
        return ("s", "int", str(n), f"int:{n}")

    def value(self, depth):
        r = self.r
        c = r.random()
        if depth <= 0 or c < 0.4:
            return self.scalar()
        if c < 0.7:
            self.hit("array")
            return ("arr", [self.value(depth - 1) for _ in range(r.choice([0, 1, 2, 3]))])
        self.hit("inline")
        return ("inl", self.inline_entries(depth - 1))

    def inline_entries(self, depth):
        """entries of an inline table; a dotted key makes a nested dotted inline table"""
        r = self.r
        ents = []
        for _ in range(r.choice([0, 1, 2, 3])):
            k = self.key()
            if depth > 0 and r.random() < 0.3:
                self.hit("inline-dotted")
                ents.append((k, ("dinl", self.inline_entries(depth - 1) or [(self.key(), self.scalar())])))
            else:
                ents.append((k, self.value(depth)))
        return ents

    def dotted_entries(self, depth, vdepth):
        r = self.r
        ents = []
        for _ in range(r.choice([1, 1, 2])):
            k = self.key()
            if depth > 0 and r.random() < 0.4:
                ents.append((k, ("tbl", "dotted", self.dotted_entries(depth - 1, vdepth))))
            else:
                ents.append((k, self.value(vdepth)))
        return ents

    def table(self, depth, vdepth, mode="header"):
        """values and dotted tables first, then sub-sections (so that text order = tree order)"""
        r = self.r
        ents = []
        bare = depth > 0 and mode == "header" and r.random() < 0.3      # no values of its own: may stay implicit
        for _ in range(0 if bare else r.choice([0, 1, 2, 3])):
            k = self.key()
            if r.random() < 0.25:
                self.hit("dotted-table")
                ents.append((k, ("tbl", "dotted", self.dotted_entries(2, vdepth))))
            else:
                ents.append((k, self.value(vdepth)))
        nvals = len(ents)
        if depth > 0:
            for _ in range(r.choice([1, 2]) if bare else r.choice([0, 0, 1, 2])):
                k = self.key()
                if r.random() < 0.4:
                    self.hit("aot")
                    ents.append((k, ("aot", [self.table(depth - 1, vdepth) for _ in range(r.choice([1, 2, 3]))])))
                else:
                    ents.append((k, self.table(depth - 1, vdepth)))
        if mode == "header" and nvals == 0 and len(ents) > 0 and r.random() < 0.6:
            mode = "implicit"
            self.hit("implicit-table")
        elif mode == "header":
            self.hit("header-table")
        return ("tbl", mode, ents)

    # ---- text
    def rv(self, n):
        t = n[0]
        if t == "s":
            return n[2]
        if t == "arr":
            return "[" + ", ".join(self.rv(x) for x in n[1]) + "]"
        if t == "inl":
            return "{" + ", ".join(t for k, v in n[1] for t in self.rkvs(k, v)) + "}"
        raise ValueError(t)

    def flat(self, k, v):
        """(key path, value) leaves of an entry: dotted tables expand to dotted keys"""
        if v[0] == "dinl" or (v[0] == "tbl" and v[1] == "dotted"):
            ents = v[1] if v[0] == "dinl" else v[2]
            return [([k] + p, x) for k2, v2 in ents for p, x in self.flat(k2, v2)]
        return [([k], v)]

    def rkvs(self, k, v):
        return [".".join(self.render_key(x) for x in p) + " = " + self.rv(x) for p, x in self.flat(k, v)]

    def rsections(self, path, tbl, out):
        for k, v in tbl[2]:
            if v[0] == "tbl" and v[1] != "dotted":
                p = path + [self.render_key(k)]
                if v[1] == "header":
                    out.append("[" + ".".join(p) + "]")
                self.rbody(p, v, out)
            elif v[0] == "aot":
                p = path + [self.render_key(k)]
                for el in v[1]:
                    out.append("[[" + ".".join(p) + "]]")
                    self.rbody(p, el, out)

    def rbody(self, path, tbl, out):
        for k, v in tbl[2]:
            if v[0] in ("s", "arr", "inl") or (v[0] == "tbl" and v[1] == "dotted"):
                out.extend(self.rkvs(k, v))
        self.rsections(path, tbl, out)

    def document(self):
        self.kc = 0
        r = self.r
        root = self.table(r.choice([1, 2, 3]), r.choice([1, 2, 3, 4]), mode="root")
        out = []
        self.rbody([], root, out)
        return "\n".join(out) + "\n", root


def walk_shape(n):
    """expected hook sequence for a value-level / item-level node of the shape generator"""
    t = n[0]
    if t == "s":
        return ["value", n[3]]
    if t == "arr":
        ev = ["value", "array"]
        for x in n[1]:
            ev += walk_shape(x)
        return ev
    if t in ("inl", "dinl"):
        ev = ["value", "inline", "tablelike"]
        for k, v in n[1]:
            ev += ["kv:" + h(k), "item"] + walk_shape(v)
        return ev
    if t == "tbl":
        ev = ["table", "tablelike"]
        for k, v in n[2]:
            ev += ["kv:" + h(k), "item"] + walk_shape(v)
        return ev
    if t == "aot":
        ev = ["aot"]
        for el in n[1]:
            ev += walk_shape(el)
        return ev
    raise ValueError(t)


# ------------------------------------------------------------------------------------------
# docgen's intended tree -> keys and scalars in document order
# ------------------------------------------------------------------------------------------

def leaves_docgen(v, out):
    if isinstance(v, dict):
        for k, x in v.items():
            out.append("kv:" + h(k))
            leaves_docgen(x, out)
    elif isinstance(v, list):
        for x in v:
            leaves_docgen(x, out)
    else:
        t, x = v
        if t == "s":
            out.append("str:" + h(x))
        elif t == "i":
            out.append(f"int:{x}")
        elif t == "f":
            out.append("float:%016x" % x)
        elif t == "b":
            out.append(f"bool:{1 if x else 0}")
        elif t == "d":
            out.append("dt:" + x)
        else:
            raise ValueError(v)
    return out


LEAF = ("kv:", "str:", "int:", "float:", "bool:", "dt:")


# ------------------------------------------------------------------------------------------
# toml-test JSON -> multisets
# ------------------------------------------------------------------------------------------

def json_counts(j, c):
    if isinstance(j, dict) and set(j.keys()) == {"type", "value"} and isinstance(j["value"], str):
        ty = j["type"]
        kind = {"string": "str", "integer": "int", "float": "float", "bool": "bool"}.get(ty, "dt")
        c[kind] = c.get(kind, 0) + 1
        if kind == "int":
            c.setdefault("ints", []).append(int(j["value"]))
        if kind == "str":
            c.setdefault("strs", []).append(j["value"].encode().hex() or "-")
    elif isinstance(j, dict):
        c["objects"] = c.get("objects", 0) + 1
        for k, v in j.items():
            c.setdefault("keys", []).append(k.encode().hex() or "-")
            json_counts(v, c)
    elif isinstance(j, list):
        c["lists"] = c.get("lists", 0) + 1
        for v in j:
            json_counts(v, c)
    return c


def trace_counts(ev):
    c = {}
    for e in ev:
        tag = e.split(":", 1)[0]
        if tag == "kv":
            c.setdefault("keys", []).append(e[3:])
        elif tag in ("str", "int", "float", "bool", "dt"):
            c[tag] = c.get(tag, 0) + 1
            if tag == "int":
                c.setdefault("ints", []).append(int(e[4:]))
            if tag == "str":
                c.setdefault("strs", []).append(e[4:])
        elif tag in ("table", "inline"):
            c["objects"] = c.get("objects", 0) + 1
        elif tag in ("array", "aot"):
            c["lists"] = c.get("lists", 0) + 1
    return c


def norm_counts(c):
    return {k: (sorted(v) if isinstance(v, list) else v) for k, v in c.items() if v not in (0, [])}


# ------------------------------------------------------------------------------------------
# canonical tree string (harness/src/canon.rs) -> python tree -> independent walk
# ------------------------------------------------------------------------------------------

class CanonParser:
    def __init__(self, s):
        self.s = s
        self.i = 0

    def peek(self):
        return self.s[self.i] if self.i < len(self.s) else ""

    def take(self, c):
        if not self.s.startswith(c, self.i):
            raise ValueError(f"expected {c!r} at {self.i}: {self.s[self.i:self.i + 30]!r}")
        self.i += len(c)

    def until(self, stops):
        j = self.i
        while j < len(self.s) and self.s[j] not in stops:
            j += 1
        r = self.s[self.i:j]
        self.i = j
        return r

    def entries(self, item):
        """`{k=v;k=v}`"""
        self.take("{")
        ents = []
        if self.peek() == "}":
            self.take("}")
            return ents
        while True:
            k = self.until("=")
            self.take("=")
            ents.append((k, item()))
            if self.peek() == ";":
                self.take(";")
                continue
            self.take("}")
            return ents

    def seq(self, elem):
        self.take("[")
        xs = []
        if self.peek() == "]":
            self.take("]")
            return xs
        while True:
            xs.append(elem())
            if self.peek() == ";":
                self.take(";")
                continue
            self.take("]")
            return xs

    def tbl(self):
        self.take("T")
        self.i += 2
        self.take("p")
        self.until("{")
        return ("tbl", self.entries(self.item))

    def item(self):
        c = self.peek()
        if c == "T":
            return self.tbl()
        if c == "A":
            self.take("A")
            return ("aot", self.seq(self.tbl))
        return self.val()

    def val(self):
        c = self.peek()
        if c == "[":
            return ("arr", self.seq(self.val))
        if c == "I":
            self.i += 3
            return ("inl", self.entries(self.val))
        self.i += 1
        body = self.until(";}]")
        tag = {"s": "str", "i": "int", "f": "float", "b": "bool", "d": "dt"}[c]
        return ("s", f"{tag}:{body}")


def walk_canon(n):
    t = n[0]
    if t == "s":
        return ["value", n[1]]
    if t == "arr":
        ev = ["value", "array"]
        for x in n[1]:
            ev += walk_canon(x)
        return ev
    if t == "inl":
        ev = ["value", "inline", "tablelike"]
        for k, v in n[1]:
            ev += ["kv:" + k, "item"] + walk_canon(v)
        return ev
    if t == "tbl":
        ev = ["table", "tablelike"]
        for k, v in n[1]:
            ev += ["kv:" + k, "item"] + walk_canon(v)
        return ev
    if t == "aot":
        ev = ["aot"]
        for el in n[1]:
            ev += walk_canon(el)
        return ev
    raise ValueError(t)


def bump(m):
    n = int(m.group(1))
    return f"i{n + 1 if n < I64_MAX else n}"


def first_diff(a, b):
    for i, (x, y) in enumerate(zip(a, b)):
        if x != y:
            return f"position {i}: got {x}, expected {y}"
    return f"length {len(a)} vs expected {len(b)}: extra {a[len(b):len(b) + 3]} missing {b[len(a):len(a) + 3]}"


# ------------------------------------------------------------------------------------------
# fixed shapes named by the quantifier
# ------------------------------------------------------------------------------------------

FIXED = [
    "",
    "a = 1\n",
    "[[t]]\nk = {x = [1, {y = [2, {z = 3}]}]}\n[[t]]\nk = {x = [[4], {y.w = [5]}]}\n",                # arrays inside inline tables inside arrays of tables
    "a.b.c = 1\na.b.d = 2\na.e = 3\n",                                                             # dotted-key tables
    "[a.b.c]\nx = 1\n[a]\ny = 2\n[d.e]\n",                                                         # implicit tables, super-table after sub-table
    "[[a.b]]\n[a.b.c]\nx = 1\n[[a.b]]\n[[a.b.d]]\ny = 2\n[[a.b.d]]\n",                             # nested arrays of tables below an implicit table
    "t = {a.b = 1, a.c = 2, d = {}}\n",                                                            # dotted keys merging inside an inline table
    "a = [[], [[]], {}, [{}]]\n",
    "[t]\na.b = {c.d = [1, 2]}\n[t.a.e]\nf = 3\n",                                                 # header below a dotted table
    "x = [9223372036854775807, -9223372036854775808, 9223372036854775806, 0x7fffffffffffffff]\n",  # increment at the i64 edge
    "a = 0x10\nb = 1_000\nc = +5 # c\nd = 0o7\ne = 0b1\n",
    "s = \"i1\"\n\"i2\" = \"i3\"\nf = 1.0\ng = inf\nd = 1979-05-27T07:32:00Z\n",                       # texts that look like integer tokens
    "[a]\n[a.b]\n[[a.c]]\n[a.d]\nx.y.z = 1\n",
]


def nested_arrays(rng, depth):
    """arrays of every length 0..3 nested in each other and in inline tables, with scalar leaves"""
    r = rng.random()
    if depth >= 4 or r < 0.25:
        return rng.choice(["1", "'s'", "true", "1.5", "1979-05-27"])
    if r < 0.4:
        return "{ " + ", ".join(f"k{i} = {nested_arrays(rng, depth + 1)}" for i in range(rng.randint(1, 2))) + " }"
    n = rng.choice([0, 1, 1, 1, 2, 3])
    return "[" + ", ".join(nested_arrays(rng, depth + 1) for _ in range(n)) + "]"


def run(ctx):
    translate(ctx)
    mods = ["TomlVerif.Props.C20", "driver"]
    lake_build(ctx, mods, {"TomlVerif.Props.C20": "property theorems"})
    audit(ctx, "TomlVerif.Props.C20", "TomlVerif/Props/C20.lean")
    if ctx.tier == "thorough":
        leanchecker(ctx, "TomlVerif.Props.C20")
    tvh = cargo_build(ctx)
    if tvh is None:
        ctx.violation("harness does not build against /repo", {"unchecked": "cargo build"}, concrete=False)
        return
    regression_lines(ctx, tvh, ["c20"])
    rng = ctx.rng
    big = ctx.tier != "quick"
    hist, shist = {}, {}
    cases = []   # (kind, label, bytes, expectation)
    if getattr(ctx, "replay", None):
        w = ctx.replay.get("headline", {}).get("replay", {}).get("witness")
        if w:
            cases.append(("replay", "", unh(w), None))
    for t in FIXED:
        cases.append(("fixed", "", t.encode(), None))
    for name, data in regression_files():
        cases.append(("regression", name, data, None))
    base = os.path.join(ROOT, "corpus", "toml-test")
    ncorp = 0
    for name, data in corpus_files():
        if not name.startswith("valid"):
            continue
        jp = os.path.join(base, name[:-5] + ".json")
        exp = None
        if os.path.exists(jp):
            try:
                exp = ("json", norm_counts(json_counts(json.load(open(jp, encoding="utf-8")), {})))
            except (ValueError, UnicodeDecodeError):
                exp = None
        cases.append(("corpus", name, data, exp))
        ncorp += 1
    sh = Shapes(rng, shist)
    for _ in range(120000 if big else 2500):
        text, root = sh.document()
        cases.append(("shape", "", text.encode(), ("full", ["doc"] + walk_shape(root))))
    g = docgen.Gen(rng, hist)
    docs = []
    for _ in range(120000 if big else 2500):
        moved = hist.get("doc:super-after-sub", 0)
        text, tree = g.document()
        b = text.encode("utf-8")
        docs.append(b)
        # `[a.b]` ... `[a]`: the parser takes the implicit table `a` out of its parent and re-inserts it when the
        # `[a]` section ends (parser/state.rs start_table: `parent_table.remove`), so `a` moves behind its later
        # siblings in the tree; docgen's dict keeps the first position. Then only the multiset is compared.
        if hist.get("doc:super-after-sub", 0) != moved:
            cases.append(("docgen", "", b, ("leafset", sorted(leaves_docgen(tree, [])))))
        else:
            cases.append(("docgen", "", b, ("leaves", leaves_docgen(tree, []))))
    pool = docs[:800] + [c[2] for c in cases if c[0] in ("corpus", "shape")][:1200]
    for _ in range(240000 if big else 4000):
        cases.append(("mutation", "", docgen.mutate(rng, rng.choice(pool)), None))

    lines = [h(c[2]) for c in cases]
    impl, model = run_pair(ctx, tvh, "c20", lines)
    ndis = 0
    first = None
    kinds, acc = {}, {}
    seen = set()
    hooks = {}
    nints = 0
    maxdepth = 0
    oracle_n = {"a": 0, "b-full": 0, "b-leaves": 0, "b-leafset": 0, "b-json": 0, "c": 0, "d": 0}
    for c, ln, i, m in zip(cases, lines, impl, model):
        kind, label, data, exp = c
        kinds[kind] = kinds.get(kind, 0) + 1
        bad = None
        if i.startswith("PANIC") or i == "CRASH":
            bad = f"panic: {bytes.fromhex(i[6:]).decode(errors='replace')[:100] if i.startswith('PANIC ') and i[6:] != '-' else i}"
        elif i.startswith("ok "):
            acc[kind] = acc.get(kind, 0) + 1
            f = dict(kv.split("=", 1) for kv in i[3:].split(" "))
            ro = [] if f["ro"] == "-" else f["ro"].split(",")
            mu = [] if f["mut"] == "-" else f["mut"].split(",")
            oracle_n["a"] += 1
            if ro != mu:
                bad = f"read-only and mutable walks differ at {first_diff(mu, ro)}"
            # (d) independent walk over the tree read back from `before`
            try:
                tree = CanonParser(f["before"]).tbl()
                want = ["doc"] + walk_canon(tree)
            except (ValueError, KeyError, IndexError) as e:
                want = None
                bad = bad or f"canonical tree unreadable: {e}"
            if want is not None:
                oracle_n["d"] += 1
                if ro != want and not bad:
                    bad = f"read-only walk differs from the tree's pre-order at {first_diff(ro, want)}"
                if mu != want and not bad:
                    bad = f"mutable walk differs from the tree's pre-order at {first_diff(mu, want)}"
            # (b) the generator's / corpus' intention
            if exp is not None and not bad:
                if exp[0] == "full":
                    oracle_n["b-full"] += 1
                    if ro != exp[1]:
                        bad = f"walk differs from the generated shape at {first_diff(ro, exp[1])}"
                elif exp[0] == "leaves":
                    oracle_n["b-leaves"] += 1
                    got = [e for e in ro if e.startswith(LEAF)]
                    if got != exp[1]:
                        bad = f"keys and scalars visited differ from the generator's tree at {first_diff(got, exp[1])}"
                elif exp[0] == "leafset":
                    oracle_n["b-leafset"] += 1
                    got = sorted(e for e in ro if e.startswith(LEAF))
                    if got != exp[1]:
                        bad = f"keys and scalars visited differ (as multisets) from the generator's tree at {first_diff(got, exp[1])}"
                elif exp[0] == "json":
                    oracle_n["b-json"] += 1
                    got = norm_counts(trace_counts(ro))
                    if got != exp[1]:
                        ks = [k for k in set(got) | set(exp[1]) if got.get(k) != exp[1].get(k)]
                        bad = f"visited nodes differ from the expected JSON in {ks}: got {[got.get(k) for k in ks]}, expected {[exp[1].get(k) for k in ks]}"
            # (c) rewrite
            oracle_n["c"] += 1
            wanted_after = re.sub(r"i(-?\d+)", bump, f["before"])
            if f["after"] != wanted_after and not bad:
                bad = f"after rewriting integers the tree is {f['after'][:300]}, expected {wanted_after[:300]}"
            k = len(re.findall(r"i-?\d+", f["before"]))
            nints += k
            if len(ro) > 4:
                seen.add(ln)
            for e in ro:
                t = e.split(":", 1)[0]
                hooks[t] = hooks.get(t, 0) + 1
            d = 0
            for ch in f["before"]:
                if ch in "[{":
                    d += 1
                    maxdepth = max(maxdepth, d)
                elif ch in "]}":
                    d -= 1
        elif i == "err":
            if kind in ("fixed", "corpus", "shape", "docgen"):
                bad = f"valid document rejected ({kind} {label})"
        else:
            bad = f"unexpected output {i[:100]}"
        if bad:
            ctx.violation(f"{kind} {label} text={data[:80]!r}: {bad}",
                          {"mode": "c20", "case": ln, "text": data.decode("utf-8", errors="replace")[:2000], "impl": i[:3000], "model": m[:3000], "witness": ln})
        if i != m:
            ndis += 1
            if first is None or len(ln) < len(first[0]):
                first = (ln, i[:300], m[:300])
    ctx.oblige("correspondence c20: model driver = implementation (read-only trace, mutable trace, tree before and after the integer rewrite) on every case",
               ndis == 0, f"{ndis} disagreements; shortest: {first}")
    # the crate's own VisitMut client (DocumentFormatter behind toml::to_string_pretty) reaches every array: direct oracle
    fdocs = [c[2] for c in cases if c[0] in ("docgen", "corpus", "shape", "fixed")][:4000 if ctx.tier != "quick" else 1200]
    for _ in range(3000 if ctx.tier != "quick" else 600):
        fdocs.append(("k = " + nested_arrays(rng, 0) + "\n").encode())
    fdocs += [b"a = [[1, 2, 3]]\n", b"a = [[{ k = [1, 2], s = 'x' }]]\n", b"[[t]]\nv = [[['a', 'b', 'c']]]\n", b"a = [[], [[1, 2]], [3]]\n", b"a = [{ b = [[1, 2]] }]\n"]
    rc, fout, _ = run_lines(tvh, "c20", ["F " + h(d) for d in fdocs])
    fout += ["CRASH"] * (len(fdocs) - len(fout))
    nfmt = 0
    for d, o in zip(fdocs, fout):
        if o == "fmt=ok":
            nfmt += 1
        elif o.startswith("fmt=BAD") or o.startswith("PANIC") or o == "CRASH":
            ctx.violation(f"text={d[:80]!r}: toml::to_string_pretty (the DocumentFormatter visitor) did not reach every array: {o[:200]}",
                          {"mode": "c20", "case": "F " + h(d), "text": d.decode("utf-8", "replace")[:2000], "impl": o[:3000], "witness": "F " + h(d)})
    ctx.cov["formatter_walk_documents"] = nfmt
    if ctx.broken and not ctx.violations:
        for n, d in ctx.broken:
            ctx.violation(f"obligation no longer checks: {n}", {"unchecked": n, "detail": d[:1500], "searched": f"{len(cases)} documents"}, concrete=False)
    shape_sample = next(c[2].decode() for c in cases if c[0] == "shape" and len(c[2]) > 120)
    ctx.cov.update({
        "evaluations": len(cases), "distinct_nontrivial": len(seen),
        "rule": "fixed shapes named by the quantifier (arrays in inline tables in arrays of tables, dotted-key tables, implicit tables, i64 edge); "
                f"{ncorp} toml-test valid files with the multisets of their expected JSON; shape generator (tree first, rendered as root values / dotted keys / "
                "[headers] / implicit parents / [[arrays of tables]] nested to depth 3, values nested to depth 4) with its own full hook sequence as oracle; "
                "docgen documents in every lexical variant with the key/scalar sequence of the generator's tree as oracle; byte/token mutations of all of these "
                "(mostly rejected; the accepted ones go through oracles a, c, d). non-trivial = distinct accepted document whose walk has more than 4 hook calls",
        "samples": [shape_sample[:400], docs[3].decode("utf-8", errors="replace")[:200], FIXED[2]],
        "streams": kinds, "accepted": acc, "hook_calls": hooks, "integers_rewritten": nints, "max_nesting_depth": maxdepth,
        "shape_histogram": shist, "docgen_histogram": hist, "oracle_applications": oracle_n,
        "traces_validated_against_impl": len(cases), "disagreements": ndis,
        "oracles": ["read-only trace = mutable trace", "trace = walk of the generator's intended tree / docgen key+scalar sequence / toml-test JSON multisets",
                    "after = before with every integer incremented, nothing else changed", "trace = python pre-order of the tree read through the inherent iterators"],
    })
