"""C07 — serde serialization: every route either errors (documented shapes only) or yields TOML
that means exactly the value, and reading it back gives the value.

Routes: ts toml::to_string, tp toml::to_string_pretty, es toml_edit::ser::to_string,
ep toml_edit::ser::to_string_pretty, ed/edx toml_edit::ser::to_document (tree / printed),
vt toml::Value::try_from, tt toml::Table::try_from.

A serde value is an `SVal` (one node per Serializer method); here a nested tuple
(kind, ...) and on the wire prefix tokens (see harness/src/c07.rs).
"""
import re, struct, collections
from vlib import *
from props.c12 import ref as datetime_ref

NAME = "$__toml_private_Datetime"
FIELD = "$__toml_private_datetime"
I64MAX = 2 ** 63 - 1
ROUTES = ["ts", "tp", "es", "ep", "ed", "edx", "vt", "tt"]
DOC_ROUTES = ["ts", "tp", "es", "ep", "ed", "edx"]
TYPES = ["Prims", "Nested", "MapS", "MapK", "Seqs", "Tuples", "Opts", "Enums", "EnumSeq", "EnumMap", "EnumNest", "Mixed", "OptTbl",
         "Empties", "Dts", "Floats", "Strs", "RootE", "RootMap", "RootMapE", "Deep", "IntEdge", "Wide", "Units", "SeqNone", "BadKeys",
         "CharKeys", "NtKeys", "RootVec", "RootInt", "RootStr", "RootTuple", "RootOpt", "RootNt", "RootUnit", "RootDt", "RootE2", "TomlValue", "Holder", "MapOpt"]
INT_RANGE = {"i8": (-2 ** 7, 2 ** 7 - 1), "i16": (-2 ** 15, 2 ** 15 - 1), "i32": (-2 ** 31, 2 ** 31 - 1), "i64": (-2 ** 63, 2 ** 63 - 1),
             "u8": (0, 2 ** 8 - 1), "u16": (0, 2 ** 16 - 1), "u32": (0, 2 ** 32 - 1), "u64": (0, 2 ** 64 - 1),
             "i128": (-2 ** 127, 2 ** 127 - 1), "u128": (0, 2 ** 128 - 1)}


# ------------------------------------------------------------------------------------------
# tokens
# ------------------------------------------------------------------------------------------

def hx(s):
    return h(s)


def toks(v, out):
    k = v[0]
    if k == "bool":
        out.append("b1" if v[1] else "b0")
    elif k == "int":
        out.append(f"{v[1]}:{v[2]}")
    elif k == "f32":
        out.append(f"f32:{v[1]:08x}")
    elif k == "f64":
        out.append(f"f64:{v[1]:016x}")
    elif k == "char":
        out.append(f"c:{v[1]}")
    elif k == "str":
        out.append("s:" + hx(v[1]))
    elif k == "bytes":
        out.append("y:" + h(v[1]))
    elif k in ("none", "unit"):
        out.append(k)
    elif k == "us":
        out.append("us:" + hx(v[1]))
    elif k == "some":
        out.append("some")
        toks(v[1], out)
    elif k == "nt":
        out += ["nt", hx(v[1])]
        toks(v[2], out)
    elif k in ("seq", "tup"):
        out += [k, str(len(v[1]))]
        for x in v[1]:
            toks(x, out)
    elif k == "ts":
        out += ["ts", hx(v[1]), str(len(v[2]))]
        for x in v[2]:
            toks(x, out)
    elif k == "map":
        out += ["map", str(len(v[1]))]
        for kk, x in v[1]:
            toks(kk, out)
            toks(x, out)
    elif k == "st":
        out += ["st", hx(v[1]), str(len(v[2]))]
        for n, x in v[2]:
            out.append(hx(n))
            toks(x, out)
    elif k == "uv":
        out += ["uv", hx(v[1]), hx(v[2])]
    elif k == "nv":
        out += ["nv", hx(v[1]), hx(v[2])]
        toks(v[3], out)
    elif k == "tv":
        out += ["tv", hx(v[1]), hx(v[2]), str(len(v[3]))]
        for x in v[3]:
            toks(x, out)
    elif k == "sv":
        out += ["sv", hx(v[1]), hx(v[2]), str(len(v[3]))]
        for n, x in v[3]:
            out.append(hx(n))
            toks(x, out)
    else:
        raise ValueError(k)


def line_of(v, kind="d"):
    out = [kind]
    toks(v, out)
    return " ".join(out)


def parse_tokens(t):
    """inverse of toks; t is a list, consumed from the front via index box"""
    pos = [0]

    def nxt():
        x = t[pos[0]]
        pos[0] += 1
        return x

    def name():
        return unh(nxt()).decode("utf-8")

    def go():
        tok = nxt()
        if ":" in tok:
            tag, rest = tok.split(":", 1)
            if tag in INT_RANGE:
                return ("int", tag, int(rest))
            if tag == "f32":
                return ("f32", int(rest, 16))
            if tag == "f64":
                return ("f64", int(rest, 16))
            if tag == "c":
                return ("char", int(rest))
            if tag == "s":
                return ("str", unh(rest).decode("utf-8"))
            if tag == "y":
                return ("bytes", unh(rest))
            if tag == "us":
                return ("us", unh(rest).decode("utf-8"))
            raise ValueError(tok)
        if tok == "b0":
            return ("bool", False)
        if tok == "b1":
            return ("bool", True)
        if tok in ("none", "unit"):
            return (tok,)
        if tok == "some":
            return ("some", go())
        if tok == "nt":
            n = name()
            return ("nt", n, go())
        if tok in ("seq", "tup"):
            c = int(nxt())
            return (tok, [go() for _ in range(c)])
        if tok == "ts":
            n = name()
            c = int(nxt())
            return ("ts", n, [go() for _ in range(c)])
        if tok == "map":
            c = int(nxt())
            return ("map", [(go(), go()) for _ in range(c)])
        if tok == "st":
            n = name()
            c = int(nxt())
            return ("st", n, [(name(), go()) for _ in range(c)])
        if tok == "uv":
            return ("uv", name(), name())
        if tok == "nv":
            n, v = name(), name()
            return ("nv", n, v, go())
        if tok == "tv":
            n, v = name(), name()
            c = int(nxt())
            return ("tv", n, v, [go() for _ in range(c)])
        if tok == "sv":
            n, v = name(), name()
            c = int(nxt())
            return ("sv", n, v, [(name(), go()) for _ in range(c)])
        raise ValueError(tok)

    v = go()
    assert pos[0] == len(t)
    return v


# ------------------------------------------------------------------------------------------
# the documented mapping, independently of the model
# ------------------------------------------------------------------------------------------

class NoImage(Exception):
    def __init__(self, why, none=False):
        self.why = why
        self.none = none          # the serializers' `UnsupportedNone`


def f32_to_f64_bits(b):
    f = struct.unpack("<f", struct.pack("<I", b))[0]
    return struct.unpack("<Q", struct.pack("<d", f))[0]


def is_nan64(b):
    return (b >> 52) & 0x7FF == 0x7FF and b & ((1 << 52) - 1) != 0


def p_float(b):
    return "fnan" if is_nan64(b) else f"f{b:016x}"


def p_table(items):
    """items: dict bytes->canon string"""
    return "{" + ";".join(f"{h(k)}={items[k]}" for k in sorted(items)) + "}"


def key_image(k, liberal):
    kind = k[0]
    if kind == "str":
        return k[1].encode()
    if kind == "uv":
        return k[2].encode()
    if kind == "nt":
        return key_image(k[2], liberal)
    if liberal:
        # toml::Value's map serializer accepts whatever serializes to a string
        if kind == "char":
            return chr(k[1]).encode()
        if kind == "some":
            return key_image(k[1], liberal)
    raise NoImage("non-string map key")


def image(v, liberal=False, f7=False, f16=False):
    """canonical plain tree (string) of the value; raises NoImage.
    liberal: keys as toml::Value's map serializer accepts them.
    f7 / f16 describe what two known defects of the toml::Value route do (the date-time struct is
    an ordinary struct; an entry whose value fails with UnsupportedNone is skipped); they are used
    only to attribute an already detected failure to its class, never to accept a result"""
    k = v[0]
    if k == "bool":
        return "b1" if v[1] else "b0"
    if k == "int":
        if v[1] in ("i128", "u128"):
            raise NoImage("128-bit integer")
        if v[2] > I64MAX:
            raise NoImage("integer beyond i64")
        return f"i{v[2]}"
    if k == "f32":
        return p_float(f32_to_f64_bits(v[1]))
    if k == "f64":
        return p_float(v[1])
    if k == "char":
        return "s" + h(chr(v[1]))
    if k == "str":
        return "s" + h(v[1])
    if k == "bytes":
        return "[" + ";".join(f"i{b}" for b in v[1]) + "]"
    if k == "none":
        raise NoImage("None outside a struct field / map value", True)
    if k in ("unit", "us"):
        raise NoImage("unit")
    if k == "some":
        return image(v[1], liberal, f7, f16)
    if k == "nt":
        return image(v[2], liberal, f7, f16)
    if k in ("seq", "tup"):
        return "[" + ";".join(image(x, liberal, f7, f16) for x in v[1]) + "]"
    if k == "ts":
        return "[" + ";".join(image(x, liberal, f7, f16) for x in v[2]) + "]"
    if k == "map":
        items = {}
        for kk, x in v[1]:
            key = key_image(kk, liberal)
            if x[0] == "none":
                continue
            try:
                items[key] = image(x, liberal, f7, f16)
            except NoImage as e:
                if not (f16 and e.none):
                    raise
        return p_table(items)
    if k == "st":
        if v[1] == NAME and not f7:
            got = None
            for n, x in v[2]:
                if n == FIELD:
                    if x[0] != "str":
                        raise NoImage("date-time struct without a date-time")
                    r = datetime_ref(x[1])
                    if r == "err":
                        raise NoImage("date-time struct without a date-time")
                    got = r
            if got is None:
                raise NoImage("date-time struct without a date-time")
            return "d" + got
        return p_table(fields_image(v[2], liberal, f7, f16))
    if k == "uv":
        return "s" + h(v[2])
    if k == "nv":
        return p_table({v[2].encode(): image(v[3], liberal, f7, f16)})
    if k == "tv":
        return p_table({v[2].encode(): "[" + ";".join(image(x, liberal, f7, f16) for x in v[3]) + "]"})
    if k == "sv":
        return p_table({v[2].encode(): p_table(fields_image(v[3], liberal, f7, f16))})
    raise ValueError(k)


def fields_image(fs, liberal, f7=False, f16=False):
    items = {}
    for n, x in fs:
        if x[0] == "none":
            continue
        try:
            items[n.encode()] = image(x, liberal, f7, f16)
        except NoImage as e:
            if not (f16 and e.none):
                raise
    return items


def try_image(v, liberal=False, f7=False, f16=False):
    try:
        return image(v, liberal, f7, f16), None
    except NoImage as e:
        return None, e.why


def walk(v):
    """all nodes, preorder"""
    yield v
    k = v[0]
    if k == "some":
        yield from walk(v[1])
    elif k == "nt":
        yield from walk(v[2])
    elif k in ("seq", "tup"):
        for x in v[1]:
            yield from walk(x)
    elif k == "ts":
        for x in v[2]:
            yield from walk(x)
    elif k == "map":
        for kk, x in v[1]:
            yield from walk(kk)
            yield from walk(x)
    elif k == "st":
        for _, x in v[2]:
            yield from walk(x)
    elif k == "nv":
        yield from walk(v[3])
    elif k == "tv":
        for x in v[3]:
            yield from walk(x)
    elif k == "sv":
        for _, x in v[3]:
            yield from walk(x)


def depth(v):
    k = v[0]
    kids = []
    if k == "some":
        kids = [v[1]]
    elif k == "nt":
        kids = [v[2]]
    elif k in ("seq", "tup"):
        kids = v[1]
    elif k == "ts":
        kids = v[2]
    elif k == "map":
        kids = [x for _, x in v[1]]
    elif k == "st":
        kids = [x for _, x in v[2]]
    elif k == "nv":
        kids = [v[3]]
    elif k == "tv":
        kids = v[3]
    elif k == "sv":
        kids = [x for _, x in v[3]]
    return 1 + max([depth(x) for x in kids], default=0)


def has_datetime(v):
    return any(n[0] == "st" and n[1] == NAME for n in walk(v))


def wf_datetimes(v):
    """every date-time struct in the value is one `toml_datetime::Datetime` can produce: exactly the
    field FIELD holding the text of a valid date-time. Anything else under the private struct name
    can only come from a hand-written Serialize impl imitating the private protocol; it is outside
    the property (the model still has to agree with the implementation on it)."""
    for n in walk(v):
        if n[0] == "st" and n[1] == NAME:
            fs = n[2]
            if not (len(fs) == 1 and fs[0][0] == FIELD and fs[0][1][0] == "str" and datetime_ref(fs[0][1][1]) != "err"):
                return False
    return True


def is_table_image(s):
    return s is not None and s.startswith("{")


def root_variant(v, through_wrappers=False):
    """a struct / tuple variant at the root; `Table::try_from` looks through `Some` and newtype structs first"""
    while through_wrappers and v[0] in ("some", "nt"):
        v = v[1] if v[0] == "some" else v[2]
    return v[0] in ("sv", "tv")


# ------------------------------------------------------------------------------------------
# generators
# ------------------------------------------------------------------------------------------

STRS = ["", "a", "key", "a b", "\"", "'", "'''", "\"\"\"", "\\", "\n", "\r\n", "\r", "\t", "\x00", "\x7f", "\x1f", "\x08", "\x0c",
        "é", "日本語", "😀", "a.b", "a=b", "#c", "[x]", "[[x]]", "{y}", "true", "false", "1", "-1", "1979-05-27", "07:32:00", "nan", "inf",
        "+inf", " lead", "trail ", "'\"", "﻿", "\u0085", " ", "", "\U0010ffff", "퟿", "\"" * 7, "'" * 6, "a\\nb",
        "\\u0000", "line1\nline2\n", "tab\there", "a'b\"c", "x = 1", "0x10", "1e5", "_", "-", "a-b_c", "ÀÉ", "́", "\"\"\"'''"]
NAMES = ["a", "b", "c", "k", "v", "x", "name", "", "a b", "a.b", "\"", "'", "é", "日本", "#", "=", "[x]", "\n", "a-b", "_", "1", "true", "😀", "d\"q",
         "\\", "\t"]
TYPENAMES = ["S", "T", "W", "E", "Inner", "é"]
DATETIMES = ["1979-05-27T07:32:00Z", "1979-05-27T00:32:00-07:00", "1979-05-27T00:32:00.999999-07:00", "1979-05-27T07:32:00",
             "1979-05-27T00:32:00.5", "1979-05-27", "07:32:00", "00:32:00.999999", "2000-02-29T23:59:60.123456789+23:59", "0000-01-01",
             "9999-12-31T23:59:59Z", "2024-02-29T00:00:00.000000001Z", "23:59:59.999999999", "1979-05-27T07:32:00+00:00",
             "1979-05-27T07:32:00-00:01"]
BAD_DATETIMES = ["", "x", "1979-05-27T", "1979-13-01", "24:00:00", "1979-05-27 07:32", "1979-05-27T07:32:00+24:01", "١٩٧٩-٠٥-٢٧"]
F64S = [0, 0x8000000000000000, 0x3ff0000000000000, 0xbff0000000000000, 0x3fb999999999999a, 0x7e37e43c8800759c, 0x01a56e1fc2f8f359, 1,
        0x8000000000000001, 0x7fefffffffffffff, 0xffefffffffffffff, 0x0010000000000000, 0x000fffffffffffff, 0x7ff0000000000000,
        0xfff0000000000000, 0x7ff8000000000000, 0xfff8000000000000, 0x7ff8000000000001, 0x7ff0000000000001, 0xfff0000000000001,
        0x430c6bf526340000, 0x4341c37937e08000, 0x444b1ae4d6e2ef50, 0x419d6f34547e6b75, 0x3ff0000000000001, 0x4340000000000000,
        0x4340000000000001, 0x3eb0c6f7a0b5ed8d, 0x3f1a36e2eb1c432d, 0x4024000000000000, 0x40c3880000000000]
F32S = [0, 0x80000000, 0x3f800000, 0xbf800000, 0x3dcccccd, 0x7f7fffff, 0xff7fffff, 0x00800000, 0x007fffff, 1, 0x80000001, 0x7f800000,
        0xff800000, 0x7fc00000, 0xffc00000, 0x7fc00001, 0x7f800001, 0x4b800000, 0x4b800001, 0x3f800001, 0x501502f9, 0x322bcc77, 0x41200000,
        0x00000002, 0x00400000, 0x007ffffe]
CHARS = [0, 0x7f, 0x80, 0x7ff, 0x800, 0xd7ff, 0xe000, 0xffff, 0x10000, 0x10ffff, 0x22, 0x27, 0x5c, 0x0a, 0x0d, 0x09, 0x61, 0xe9, 0x65e5, 0x1f600]


def g_str(rng):
    if rng.random() < 0.7:
        return rng.choice(STRS)
    return "".join(rng.choice("abZ09_- .\"'\\\n\t#=[]{},é日😀\x00\x7f\r") for _ in range(rng.randrange(7)))


def g_int(rng, allow_bad):
    w = rng.choice(["i8", "i16", "i32", "i64", "i64", "u8", "u16", "u32", "u64", "u64"])
    lo, hi = INT_RANGE[w]
    if w == "u64" and not allow_bad:
        hi = I64MAX
    n = rng.choice([lo, hi, 0, 1, rng.randrange(lo, hi + 1), rng.randrange(max(lo, -100), min(hi, 100) + 1)])
    return ("int", w, n)


def g_datetime(rng):
    if rng.random() < 0.5:
        return ("st", NAME, [(FIELD, ("str", rng.choice(DATETIMES)))])
    y = rng.choice([0, 1, 1979, 2000, 2024, 9999])
    mo = rng.randrange(1, 13)
    d = rng.randrange(1, 29)
    hh, mi, ss = rng.randrange(24), rng.randrange(60), rng.choice([0, 59, 60, rng.randrange(61)])
    ns = rng.choice([0, 1, 10, 500000000, 999999999, 120000, rng.randrange(10 ** 9)])
    frac = ("." + f"{ns:09}".rstrip("0")) if ns else ""
    date = f"{y:04}-{mo:02}-{d:02}"
    time = f"{hh:02}:{mi:02}:{ss:02}{frac}"
    off = rng.choice(["Z", "+00:00", "-07:00", "+23:59", "-23:59", f"{rng.choice('+-')}{rng.randrange(24):02}:{rng.randrange(60):02}"])
    txt = rng.choice([date, time, f"{date}T{time}", f"{date}T{time}{off}"])
    return ("st", NAME, [(FIELD, ("str", txt))])


def g_scalar(rng, bad):
    r = rng.random()
    if r < 0.10:
        return ("bool", rng.random() < 0.5)
    if r < 0.32:
        return g_int(rng, bad)
    if r < 0.42:
        return ("f64", rng.choice(F64S) if rng.random() < 0.7 else rng.getrandbits(64))
    if r < 0.50:
        return ("f32", rng.choice(F32S) if rng.random() < 0.7 else rng.getrandbits(32))
    if r < 0.56:
        return ("char", rng.choice(CHARS))
    if r < 0.80:
        return ("str", g_str(rng))
    if r < 0.88:
        return ("uv", rng.choice(TYPENAMES), rng.choice(NAMES))
    if r < 0.97:
        return g_datetime(rng)
    return ("bytes", bytes(rng.randrange(256) for _ in range(rng.randrange(4))))


def g_key(rng, bad):
    r = rng.random()
    if bad and r < 0.5:
        return rng.choice([("int", "i64", 1), ("bool", True), ("char", 97), ("some", ("str", "k")), ("none",), ("unit",), ("seq", []),
                           ("f64", 0x3ff0000000000000), ("nv", "E", "V", ("str", "k")), ("st", "S", []), ("nt", "N", ("int", "u8", 1)),
                           ("nt", "N", ("char", 98))])
    if r < 0.75:
        return ("str", rng.choice(NAMES) if rng.random() < 0.7 else g_str(rng))
    if r < 0.9:
        return ("uv", rng.choice(TYPENAMES), rng.choice(NAMES))
    return ("nt", rng.choice(TYPENAMES), ("str", rng.choice(NAMES)))


def g_names(rng, n, dup):
    out = []
    for _ in range(n):
        x = rng.choice(NAMES)
        if not dup:
            tries = 0
            while x in out and tries < 20:
                x = rng.choice(NAMES) + str(rng.randrange(100))
                tries += 1
        out.append(x)
    return out


def g_len(rng, d):
    if d <= 0:
        return 0
    return rng.choice([0, 1, 1, 2, 2, 3, 4])


def g_value(rng, d, bad):
    """bad: probability knob for the malformed stream (0 = only shapes with an image)"""
    if d <= 0 or rng.random() < 0.30:
        return g_scalar(rng, bad > 0 and rng.random() < bad)
    b = bad > 0 and rng.random() < bad
    r = rng.random()
    sub = lambda: g_value(rng, d - 1, bad)
    if b and r < 0.5:
        return rng.choice([("none",), ("unit",), ("us", "U"), ("some", ("none",)), ("nt", "N", ("none",)), ("seq", [("none",)]),
                           ("tup", [("int", "i64", 1), ("unit",)]), ("int", "i128", 5), ("int", "u128", 7), ("int", "u64", I64MAX + 1),
                           ("int", "u64", 2 ** 64 - 1), ("st", NAME, [(FIELD, ("str", rng.choice(BAD_DATETIMES)))]),
                           ("st", NAME, [(FIELD, ("int", "i64", 1))]), ("st", NAME, []), ("st", NAME, [("other", ("str", "1979-05-27"))]),
                           ("st", NAME, [(FIELD, ("some", ("str", "1979-05-27")))]),
                           ("st", NAME, [(FIELD, ("str", "1979-05-27")), ("x", ("int", "i64", 1)), (FIELD, ("str", "07:32:00"))]),
                           ("nv", "E", "V", ("none",)), ("tv", "E", "V", [("none",)]), ("sv", "E", "V", [("f", ("some", ("none",)))])])
    if r < 0.16:
        return ("seq", [sub() for _ in range(g_len(rng, d))])
    if r < 0.22:
        # homogeneous sequence of tables (array-of-tables candidates)
        n = g_len(rng, d)
        names = g_names(rng, rng.randrange(3), False)
        return ("seq", [("st", "S", [(nm, sub()) for nm in names]) for _ in range(n)])
    if r < 0.28:
        return ("tup", [sub() for _ in range(g_len(rng, d))])
    if r < 0.32:
        return ("ts", rng.choice(TYPENAMES), [sub() for _ in range(g_len(rng, d))])
    if r < 0.46:
        n = g_len(rng, d)
        keys = []
        for _ in range(n):
            keys.append(g_key(rng, b))
        vals = [(("none",) if (b and rng.random() < 0.3) else sub()) for _ in range(n)]
        if not b:
            # distinct key images
            seen, kv = set(), []
            for kk, x in zip(keys, vals):
                try:
                    ki = key_image(kk, False)
                except NoImage:
                    continue
                if ki in seen:
                    continue
                seen.add(ki)
                kv.append((kk, x))
            return ("map", kv)
        return ("map", list(zip(keys, vals)))
    if r < 0.66:
        n = g_len(rng, d)
        names = g_names(rng, n, b)
        return ("st", rng.choice(TYPENAMES), [(nm, (("none",) if rng.random() < 0.15 else sub())) for nm in names])
    if r < 0.71:
        return ("nt", rng.choice(TYPENAMES), sub())
    if r < 0.76:
        x = sub()
        return ("some", x) if x[0] != "none" else x
    if r < 0.84:
        return ("nv", rng.choice(TYPENAMES), rng.choice(NAMES), sub())
    if r < 0.91:
        return ("tv", rng.choice(TYPENAMES), rng.choice(NAMES), [sub() for _ in range(g_len(rng, d))])
    n = g_len(rng, d)
    names = g_names(rng, n, b)
    return ("sv", rng.choice(TYPENAMES), rng.choice(NAMES), [(nm, (("none",) if rng.random() < 0.15 else sub())) for nm in names])


def g_root(rng, d, bad):
    r = rng.random()
    if r < 0.62:
        n = rng.choice([0, 1, 2, 3, 4, 5])
        names = g_names(rng, n, bad > 0 and rng.random() < bad)
        return ("st", rng.choice(TYPENAMES), [(nm, (("none",) if rng.random() < 0.1 else g_value(rng, d - 1, bad))) for nm in names])
    if r < 0.78:
        v = g_value(rng, d, bad)
        tries = 0
        while v[0] != "map" and tries < 20:
            v = g_value(rng, d, bad)
            tries += 1
        return v
    if r < 0.84:
        return ("nv", "E", rng.choice(NAMES), g_value(rng, d - 1, bad))
    if r < 0.88:
        return ("sv", "E", rng.choice(NAMES), [(nm, g_value(rng, d - 1, bad)) for nm in g_names(rng, rng.randrange(3), False)])
    if r < 0.90:
        return ("tv", "E", rng.choice(NAMES), [g_value(rng, d - 1, bad) for _ in range(rng.randrange(3))])
    if r < 0.93:
        return ("some", ("st", "S", [(nm, g_value(rng, d - 1, bad)) for nm in g_names(rng, rng.randrange(3), False)]))
    if r < 0.95:
        return ("nt", "N", ("st", "S", [(nm, g_value(rng, d - 1, bad)) for nm in g_names(rng, rng.randrange(3), False)]))
    return g_value(rng, d, bad)       # any root, mostly not a table


def fixed_cases():
    """regressions and the witnesses of the known defect classes"""
    i1 = ("int", "i64", 1)
    dt = ("st", NAME, [(FIELD, ("str", "1979-05-27"))])
    return [
        # F5 family
        ("st", "W", [("v", ("tup", [i1, ("map", [(("str", "k"), ("map", []))])]))]),
        ("st", "W", [("v", ("seq", [("sv", "E", "S", [("a", i1)]), ("uv", "E", "U")]))]),
        ("st", "W", [("v", ("seq", [("seq", [("st", "T", [("t", ("map", [(("str", "k"), ("int", "i64", 2))]))])])]))]),
        ("st", "W", [("v", ("seq", [i1, ("map", [(("str", "k"), ("seq", [("map", [])]))])]))]),
        ("st", "W", [("v", ("seq", [("seq", [("map", [(("str", "a"), ("seq", [("map", [(("str", "b"), i1)])]))])])]))]),
        # date-times
        ("st", "S", [("w", dt)]),
        dt,
        ("st", "S", [("v", ("seq", [dt, dt]))]),
        # None below a field value
        ("st", "S", [("v", ("seq", [("none",)])), ("a", i1)]),
        ("st", "S", [("v", ("some", ("none",))), ("a", i1)]),
        ("map", [(("str", "k"), ("nt", "N", ("none",)))]),
        # roots
        ("sv", "E", "S", [("a", i1)]),
        ("tv", "E", "T", [i1]),
        ("nv", "E", "N", ("st", "S", [("a", i1)])),
        ("uv", "E", "U"),
        ("seq", [i1]),
        ("none",),
        ("unit",),
        # keys
        ("map", [(("char", 97), i1)]),
        ("map", [(("int", "i64", 1), i1)]),
        ("map", [(("some", ("str", "k")), i1)]),
        ("map", [(("str", "k"), i1), (("str", "k"), ("int", "i64", 2))]),
        ("map", [(("str", "k"), i1), (("str", "k"), ("none",))]),
        ("st", "S", [("a", i1), ("a", ("int", "i64", 2))]),
        # integers
        ("st", "S", [("a", ("int", "i128", 5))]),
        ("st", "S", [("a", ("int", "u64", I64MAX + 1))]),
        ("st", "S", [("a", ("int", "u64", I64MAX))]),
        ("st", "S", [("a", ("int", "i64", -2 ** 63))]),
        # empties
        ("st", "S", []),
        ("map", []),
        ("st", "S", [("a", ("seq", [])), ("b", ("map", [])), ("c", ("seq", [("map", [])])), ("d", ("seq", [("seq", [])]))]),
        ("st", "S", [("a", ("st", "T", [("b", ("st", "U", [("c", ("st", "V", []))]))]))]),
        ("st", "S", [("a", ("st", "T", [("o", ("none",))]))]),
        ("st", "S", [("a", ("seq", [("st", "T", [("o", ("none",))])]))]),
    ]


# ------------------------------------------------------------------------------------------
# oracles
# ------------------------------------------------------------------------------------------

def fields_of(line):
    return dict(kv.split("=", 1) for kv in line.split(" ") if "=" in kv)


def judge(v, f):
    """direct oracles on one case. Returns list of (route, kind, text)."""
    bad = []
    strict, why = try_image(v, False)
    liberal, _ = try_image(v, True)
    for r in ROUTES:
        got = f.get(r)
        if got is None:
            bad.append((r, "missing", "no output"))
            continue
        doc = r in DOC_ROUTES
        want = strict if doc else liberal
        if got.startswith("ok:"):
            plain = got[3:]
            if plain.startswith("REPARSE"):
                bad.append((r, "invalid-text", f"the returned text does not parse consistently ({plain})"))
            elif want is None:
                bad.append((r, "ok-without-image", f"returned {plain} for a value that has no TOML image ({why}): data dropped or altered instead of an error"))
            elif plain != want:
                bad.append((r, "altered", f"yields {plain}, the value means {want}"))
        else:
            # an error must be one of the documented shapes
            ok = strict is None
            if r != "vt" and not is_table_image(strict):
                ok = True               # non-table root
            if (r in ("ts", "tp") and root_variant(v)) or (r == "tt" and root_variant(v, True)):
                ok = True               # struct / tuple variant at the root
            if not ok:
                bad.append((r, "error-on-supported", f"{got} although the value means {strict}"))
        rt = f.get(r + ".rt")
        if rt is not None and set(rt.split(",")) != {"eq"}:
            bad.append((r, "round-trip", f"reading the result back into the same type gives {rt}"))
    return bad


F5 = "class:F5 to_string_pretty drops a table below an array value (ser/pretty.rs make_item without the is_value guard)"
F7 = "class:F7 Value/Table::try_from keep a date-time as the private one-field table ($__toml_private_datetime = string)"
F7B = "class:F7b Table::try_from of a bare Datetime returns the private one-field table instead of refusing the non-table root"
F16 = "class:F16 Value/Table::try_from drop a field whose value fails with UnsupportedNone below it (None inside a sequence / Some / newtype)"
F17 = "class:F17 toml::to_string(_pretty) of a bare Datetime prints the private field name as a key instead of reporting a non-table root"
F33 = "class:F33 a map entry whose value is None is skipped like an absent struct field: the key is lost on reading back"


def has_none_map_value(v):
    return any(n[0] == "map" and any(x[0] == "none" for _, x in n[1]) for n in walk(v))


def classify(v, f, bad):
    """attribute one failure (route, kind, text) to a known defect class, or None"""
    r, k, _ = bad
    plain = f.get(r, "")[3:]
    if k == "round-trip" and has_none_map_value(v):
        return F33
    if v[0] == "st" and v[1] == NAME and r in ("ts", "tp") and f.get("es", "").startswith("err:"):
        return F17
    if r == "ep" and k in ("altered", "round-trip") and not any(x[0] == "es" for x in judge(v, f)):
        return F5
    if r == "tt" and k == "altered":
        w = v
        while w[0] in ("some", "nt"):
            w = w[1] if w[0] == "some" else w[2]
        if w[0] == "st" and w[1] == NAME and try_image(v, True, True, False)[0] == plain:
            return F7B
    if r in ("vt", "tt") and plain and not plain.startswith("REPARSE"):
        strict, _ = try_image(v, True)
        if strict is None or plain != strict:
            if try_image(v, True, True, False)[0] == plain:
                return F7
            if try_image(v, True, False, True)[0] == plain:
                return F16
            if try_image(v, True, True, True)[0] == plain:
                return F7
        elif k == "round-trip" and has_datetime(v):
            return F7
    return None


def replace_at(v, path, new):
    if not path:
        return new
    i = path[0]
    k = v[0]
    rest = path[1:]
    if k == "some":
        return ("some", replace_at(v[1], rest, new))
    if k == "nt":
        return ("nt", v[1], replace_at(v[2], rest, new))
    if k in ("seq", "tup"):
        xs = list(v[1])
        xs[i] = replace_at(xs[i], rest, new)
        return (k, xs)
    if k == "ts":
        xs = list(v[2])
        xs[i] = replace_at(xs[i], rest, new)
        return (k, v[1], xs)
    if k == "map":
        kv = list(v[1])
        kv[i] = (kv[i][0], replace_at(kv[i][1], rest, new))
        return (k, kv)
    if k == "st":
        fs = list(v[2])
        fs[i] = (fs[i][0], replace_at(fs[i][1], rest, new))
        return (k, v[1], fs)
    if k == "nv":
        return (k, v[1], v[2], replace_at(v[3], rest, new))
    if k == "tv":
        xs = list(v[3])
        xs[i] = replace_at(xs[i], rest, new)
        return (k, v[1], v[2], xs)
    if k == "sv":
        fs = list(v[3])
        fs[i] = (fs[i][0], replace_at(fs[i][1], rest, new))
        return (k, v[1], v[2], fs)
    raise ValueError(k)


def children(v):
    k = v[0]
    if k == "some":
        return [v[1]]
    if k == "nt":
        return [v[2]]
    if k in ("seq", "tup"):
        return list(v[1])
    if k == "ts":
        return list(v[2])
    if k == "map":
        return [x for _, x in v[1]]
    if k == "st":
        return [x for _, x in v[2]]
    if k == "nv":
        return [v[3]]
    if k in ("tv",):
        return list(v[3])
    if k == "sv":
        return [x for _, x in v[3]]
    return []


def without(v, i):
    k = v[0]
    if k in ("seq", "tup"):
        return (k, v[1][:i] + v[1][i + 1:])
    if k == "ts":
        return (k, v[1], v[2][:i] + v[2][i + 1:])
    if k == "map":
        return (k, v[1][:i] + v[1][i + 1:])
    if k == "st":
        return (k, v[1], v[2][:i] + v[2][i + 1:])
    if k == "tv":
        return (k, v[1], v[2], v[3][:i] + v[3][i + 1:])
    if k == "sv":
        return (k, v[1], v[2], v[3][:i] + v[3][i + 1:])
    return None


def paths(v, pre=()):
    yield pre
    for i, c in enumerate(children(v)):
        yield from paths(c, pre + (i,))


def at(v, path):
    for i in path:
        v = children(v)[i]
    return v


def simpler(v):
    """candidate reductions of a node"""
    out = []
    for c in children(v):
        out.append(c)
    for i in range(len(children(v))):
        w = without(v, i)
        if w is not None:
            out.append(w)
    k = v[0]
    if k in ("str", "char", "f32", "f64", "bool", "bytes", "uv") or (k == "int" and v != ("int", "i64", 1)):
        out.append(("int", "i64", 1))
    if k == "st" and v[1] != NAME:
        # one-letter names
        fs = [(("abcdefgh"[i] if i < 8 else n), x) for i, (n, x) in enumerate(v[2])]
        if fs != v[2] or v[1] != "S":
            out.append(("st", "S", fs))
    if k == "map":
        kv = [(("str", "abcdefgh"[i]) if i < 8 else kk, x) for i, (kk, x) in enumerate(v[1])]
        if kv != v[1]:
            out.append(("map", kv))
    if k == "nv" and (v[1], v[2]) != ("E", "V"):
        out.append(("nv", "E", "V", v[3]))
    if k == "tv" and (v[1], v[2]) != ("E", "V"):
        out.append(("tv", "E", "V", v[3]))
    if k == "sv" and (v[1], v[2]) != ("E", "V"):
        out.append(("sv", "E", "V", v[3]))
    if k == "uv" and (v[1], v[2]) != ("E", "U"):
        out.append(("uv", "E", "U"))
    if k == "nt" and v[1] != "N":
        out.append(("nt", "N", v[2]))
    if k == "tup":
        out.append(("seq", v[1]))
    if k == "ts":
        out.append(("seq", v[2]))
    if k == "sv":
        out.append(("st", "S", v[3]))
    return out


def reduce_case(tvh, v, still_fails, budget=400):
    steps = 0
    progress = True
    while progress and steps < budget:
        progress = False
        for p in sorted(paths(v), key=len):
            node = at(v, p)
            for cand in simpler(node):
                w = replace_at(v, list(p), cand)
                if (len(line_of(w)), line_of(w)) >= (len(line_of(v)), line_of(v)):
                    continue
                steps += 1
                if still_fails(w):
                    v = w
                    progress = True
                    break
                if steps >= budget:
                    break
            if progress or steps >= budget:
                break
    return v


def readable(v):
    """Rust-ish rendering for reports"""
    k = v[0]
    if k == "bool":
        return "true" if v[1] else "false"
    if k == "int":
        return f"{v[2]}{v[1]}"
    if k == "f32":
        return f"f32::from_bits(0x{v[1]:08x})"
    if k == "f64":
        return f"f64::from_bits(0x{v[1]:016x})"
    if k == "char":
        return repr(chr(v[1]))
    if k == "str":
        return '"' + v[1].encode("unicode_escape").decode().replace('"', '\\"') + '"'
    if k == "bytes":
        return f"bytes{list(v[1])}"
    if k == "none":
        return "None"
    if k == "unit":
        return "()"
    if k == "us":
        return v[1]
    if k == "some":
        return f"Some({readable(v[1])})"
    if k == "nt":
        return f"{v[1]}({readable(v[2])})"
    if k == "seq":
        return "vec![" + ", ".join(readable(x) for x in v[1]) + "]"
    if k == "tup":
        return "(" + ", ".join(readable(x) for x in v[1]) + ")"
    if k == "ts":
        return v[1] + "(" + ", ".join(readable(x) for x in v[2]) + ")"
    if k == "map":
        return "map{" + ", ".join(f"{readable(a)}: {readable(b)}" for a, b in v[1]) + "}"
    if k == "st":
        if v[1] == NAME and len(v[2]) == 1 and v[2][0][0] == FIELD and v[2][0][1][0] == "str":
            return f"Datetime({v[2][0][1][1]})"
        return v[1] + " { " + ", ".join(f"{n!r}: {readable(x)}" for n, x in v[2]) + " }"
    if k == "uv":
        return f"{v[1]}::{v[2]}"
    if k == "nv":
        return f"{v[1]}::{v[2]}({readable(v[3])})"
    if k == "tv":
        return f"{v[1]}::{v[2]}(" + ", ".join(readable(x) for x in v[3]) + ")"
    if k == "sv":
        return f"{v[1]}::{v[2]} {{ " + ", ".join(f"{n!r}: {readable(x)}" for n, x in v[3]) + " }"
    return str(v)


def text_of(f, r):
    x = f.get(r + ".x")
    return unh(x).decode("utf-8", "replace") if x else None


# ------------------------------------------------------------------------------------------

def probe_flags(tvh):
    """which repaired behaviours the implementation shows on the witness of each known defect
    class; the model follows the same switches (`d<flags>` case lines), so the correspondence
    obligation stays meaningful before and after a repair. The oracles never look at these."""
    i1 = ("int", "i64", 1)
    dt = ("st", NAME, [(FIELD, ("str", "1979-05-27"))])
    probes = [
        ("g", ("st", "W", [("v", ("tup", [i1, ("map", [(("str", "k"), ("map", []))])]))]), lambda f, v: f.get("ep") == "ok:" + image(v)),
        ("n", ("st", "S", [("v", ("seq", [("none",)])), ("a", i1)]), lambda f, v: f.get("vt", "").startswith("err:")),
        ("r", dt, lambda f, v: f.get("ts", "").startswith("err:")),
        ("t", ("st", "S", [("w", dt)]), lambda f, v: f.get("vt") == "ok:" + image(v)),
        ("b", dt, lambda f, v: f.get("tt", "").startswith("err:")),
    ]
    rc, out, _ = run_lines(tvh, "c07", [line_of(v) for _, v, _ in probes])
    flags = ""
    if len(out) == len(probes):
        for (fl, v, test), o in zip(probes, out):
            if not o.startswith("PANIC") and test(fields_of(o), v):
                flags += fl
    return flags


# ------------------------------------------------------------------------------------------
# typed values over the type grammar: serde calls of derive, every route, every route read back
# ------------------------------------------------------------------------------------------

def typed_value_stream(ctx, tvh, flags):
    """random (type, value) pairs of the grammar of Model/DeTyped.lean: `DynVal` in the harness makes the serde calls a
    derived / std `Serialize` impl makes (validated against real derived types by the `dvc` cases), `serOf` in the model.
    Oracles on the implementation: the serde calls are the ones an independent description here gives (`ser_of`); the
    image / error-shape oracles of the dynamic stream; every route that succeeds reads back, through each matching
    deserializer, to the value up to the benign identifications of `normDec`."""
    import props.c07typed as ct
    from props.c13typed import enc
    rng = ctx.rng
    quick = ctx.tier == "quick"
    kind = "rtt" + flags
    hist = {}

    # ---- DynVal against serde_derive's actual output (permanent) -----------------------------
    nseeds = 40 if quick else 500
    dv = [(tg, ty, f"dvc {tg} {enc(ty)} {rng.getrandbits(62)}") for tg, ty in ct.DERIVED.items() for _ in range(nseeds)]
    rc, dv_out, dv_err = run_lines(tvh, "c07", [x[2] for x in dv])
    dv_bad = []
    derived_cases = []
    private_key = 0
    if len(dv_out) != len(dv):
        dv_bad.append((f"rc={rc} lines={len(dv_out)}/{len(dv)}", dv_err[-300:]))
    for (tg, ty, line), o in zip(dv, dv_out):
        f = fields_of(o)
        if f.get("same") != "1" or f.get("wt") != "1" or "dec" not in f:
            dv_bad.append((line, o[:600]))
            continue
        dd = ct.parse_dec(f["dec"])
        if any(tt[0] == "M" and any(kk == FIELD for kk, _ in x[1]) for tt, x in ct.walk_dec(ty, dd)):
            # the key pool of harness/src/c13.rs holds the private date-time key (C13's known finding F24: such a table
            # reads as a date-time): checked against derive above, not a value the C07 oracles are stated for
            private_key += 1
            continue
        derived_cases.append((ty, dd, "derived " + tg, f["sval"]))
    ctx.oblige("DynVal = serde_derive / std: the recorded serde calls (names, order, length hints, variant indices) of a real "
               "derived value and of DynVal{ty, to_dec(value)} are equal", not dv_bad, f"{len(dv_bad)} differ; first: {dv_bad[:1]}")

    # ---- cases -------------------------------------------------------------------------------
    cases = [(t, d, "fixed", None) for t, d in ct.FIXED] + derived_cases
    ntypes = 1500 if quick else 20000
    for j, t in enumerate(ct.gen_types(rng, hist, ntypes)):
        g = ct.ValueGen(rng, hist, hostile=[0.0, 0.02, 0.05, 0.2][j % 4])
        for _ in range(2 if quick else 3):
            cases.append((t, g.value(t), "random", None))
    lines = [f"{kind} {enc(t)} {ct.show_dec(d)}" for t, d, _, _ in cases]
    seen = set()
    uniq = []
    for c, ln in zip(cases, lines):
        if ln not in seen:
            seen.add(ln)
            uniq.append((c, ln))
    cases, lines = [c for c, _ in uniq], [ln for _, ln in uniq]
    impl, model = run_pair(ctx, tvh, "c07", lines)

    # ---- oracles + correspondence ------------------------------------------------------------
    classes = {}
    unclassified = 0
    ndis = 0
    first = None
    nsval = 0
    sval_bad = []
    nback = 0
    nroutes_ok = collections.Counter()
    root_kinds = collections.Counter()
    ident = collections.Counter()
    nontriv = set()

    def report(t, d, ln, origin, f, route, text, cls):
        nonlocal unclassified
        if cls is not None:
            classes.setdefault(cls, []).append((ln, t, d, route, text, origin))
            return
        unclassified += 1
        if unclassified <= 25:
            ctx.violation(f"typed value ({origin}) {ct.readable(t, d)}: route {route}: {text}",
                          {"mode": "c07", "case": ln, "type": enc(t), "value": ct.show_dec(d), "route": route, "text": text_of(f, route[:2]),
                           "impl": {x: f.get(x) for x in ROUTES + ct.READBACK}, "witness": ln})

    for (t, d, origin, derived_sval), ln, i, m in zip(cases, lines, impl, model):
        root_kinds[t[0]] += 1
        if i.startswith("PANIC") or i in ("CRASH", "ill-typed", "bad-op"):
            ctx.violation(f"typed value ({origin}) {ct.readable(t, d)}: {i[:120]}", {"mode": "c07", "case": ln, "impl": i, "model": m, "witness": ln})
            continue
        f = fields_of(i)
        fm = fields_of(m)
        sv = ct.ser_of(t, d)
        want_toks = []
        toks(sv, want_toks)
        # (a) the serde calls: independent description, and (derived cases) the derive output itself
        nsval += 1
        if f.get("sval") != ",".join(want_toks) or (derived_sval is not None and derived_sval != f.get("sval")):
            sval_bad.append((ln, f.get("sval"), ",".join(want_toks)))
        # (b) image and error-shape oracles of the dynamic stream
        route_cls = {}
        for bad in judge(sv, f):
            cls = classify(sv, f, bad)
            route_cls[bad[0]] = cls
            report(t, d, ln, origin, f, bad[0], bad[2], cls)
        # (c) every successful route reads back
        none_map = ct.has_none_map_value(t, d)
        for key in ct.READBACK:
            r = key[:2]
            if not f.get(r, "").startswith("ok:"):
                continue
            nroutes_ok[r] += 1
            cf = ct.canon_float if r in ("ts", "tp", "es", "ep") else (lambda b: b)
            benign = ct.show_dec(ct.norm_dec(cf, t, d, drop=False))
            got = f.get(key)
            nback += 1
            if got == benign:
                if benign != ct.show_dec(d):
                    ident["identified (NaN / f32 NaN / default field)"] += 1
                continue
            full = ct.show_dec(ct.norm_dec(cf, t, d, drop=True))
            if none_map and got == full:
                report(t, d, ln, origin, f, key, "a map entry whose value is None does not come back", F33)
            elif r in ("vt", "tt") and route_cls.get(r) == F16:
                report(t, d, ln, origin, f, key, f"reads back as {got}", F16)
            else:
                report(t, d, ln, origin, f, key, f"reading the result back into the same type gives {got}, the value is {benign}", None)
        # correspondence model = implementation, every field
        keys = ROUTES + ct.READBACK + ["sval"]
        diff = [k for k in keys if f.get(k) != fm.get(k)]
        for r in ("ts", "tp", "es", "ep"):
            mt = fm.get(r + ".x")
            if mt not in (None, "n/a", "-") and f.get(r + ".x", "-") != mt:
                diff.append(r + ".x")
        if diff:
            ndis += 1
            if first is None or len(ln) < len(first[0]):
                first = (ln, diff[0], f.get(diff[0]), fm.get(diff[0]))
        if sum(1 for _ in ct.walk_dec(t, d)) >= 3:
            nontriv.add(ln)

    for cls, items in classes.items():
        items.sort(key=lambda it: len(it[0]))
        ln, t, d, route, text, origin = items[0]
        ctx.violation(f"{cls[6:]} — typed value {ct.readable(t, d)}: route {route}: {text}; {len({it[0] for it in items})} cases of this class among the typed values",
                      {"mode": "c07", "case": ln, "type": enc(t), "value": ct.show_dec(d), "route": route, "instances": len({it[0] for it in items}),
                       "other_instances": [it[0] for it in items[1:4]], "witness": cls})
    ctx.oblige("serde calls of DynVal = the independent description of derive / std Serialize (tools/props/c07typed.py ser_of)", not sval_bad,
               f"{len(sval_bad)} differ; first: {sval_bad[:1]}")
    ctx.oblige("correspondence c07 typed values: serOf tokens, every route's verdict and tree, every decoded Dec — model driver = implementation",
               ndis == 0, f"{ndis} disagreements; shortest: {first}")
    return {
        "typed_value_cases": len(lines), "typed_value_distinct_nontrivial": len(nontriv),
        "typed_value_rule": f"{len(ct.FIXED)} fixed witnesses (every identification of normDec, the refused shapes, F30, F33) + {len(derived_cases)} values of the derived types of the harness "
                            f"({', '.join(ct.DERIVED)}; {nseeds} seeds each, first checked against the derive output itself) + {ntypes} random types of the grammar x {2 if quick else 3} random well-typed values "
                            "(options inside structs / maps / sequences, Some(None), units, u64 beyond i64::MAX, NaNs with sign and payload, empty containers, enums in every shape and position, toml::Value leaves); "
                            "non-trivial = a value of >= 3 nodes, distinct by case line",
        "typed_value_samples": [lines[0], lines[len(ct.FIXED)][:300], lines[-1][:300]],
        "typed_value_root_kinds": dict(root_kinds), "typed_value_shapes": dict(sorted(hist.items())),
        "typed_value_routes_ok": dict(nroutes_ok), "typed_value_readbacks_compared": nback, "typed_value_identifications": dict(ident),
        "typed_value_serde_call_traces_compared": nsval, "typed_value_dynval_vs_derive": len(dv), "typed_value_dynval_vs_derive_differ": len(dv_bad),
        "typed_value_derived_with_private_key_as_map_key_not_replayed": private_key,
        "typed_value_defect_classes": {k: len({it[0] for it in v}) for k, v in classes.items()}, "typed_value_unclassified_failures": unclassified,
        "typed_value_disagreements": ndis,
    }


def run(ctx):
    translate(ctx)
    mods = ["TomlVerif.Props.C07", "driver"]
    lake_build(ctx, mods, {"TomlVerif.Props.C07": "property theorems"})
    audit(ctx, "TomlVerif.Props.C07", "TomlVerif/Props/C07.lean")
    extra_props(ctx, ["C07Text", "C07RoundTrip", "C07RoundTripMore"])
    if ctx.tier == "thorough":
        leanchecker(ctx, "TomlVerif.Props.C07")
    tvh = cargo_build(ctx)
    if tvh is None:
        ctx.violation("harness does not build against /repo", {"unchecked": "cargo build"}, concrete=False)
        return
    from props import probe_compare as _pc
    regression_lines(ctx, tvh, ["c07"], compare=_pc.c07)
    rng = ctx.rng
    flags = probe_flags(tvh)
    kind = "d" + flags
    ctx.notes.append(f"repaired behaviours observed on the class witnesses (g=F5 guard, n=F16, r=F17, t=F7, b=F7b): '{flags}'; the model follows the same switches")

    # ---- typed family ------------------------------------------------------------------------
    per_type = 140 if ctx.tier == "quick" else 1500
    tcases = [f"t {ty} {rng.getrandbits(63)}" for ty in TYPES for _ in range(per_type)]
    tcases += [f"t {ty} {s}" for ty in TYPES for s in range(8)]
    rc, timpl, terr = run_lines(tvh, "c07", tcases)
    if len(timpl) != len(tcases):
        ctx.oblige("harness c07: every typed case returns", False, f"rc={rc} {terr[-300:]} lines={len(timpl)}/{len(tcases)}")
        timpl += ["CRASH"] * (len(tcases) - len(timpl))

    # ---- dynamic values ----------------------------------------------------------------------
    n_good = 9000 if ctx.tier == "quick" else 120000
    n_bad = 3000 if ctx.tier == "quick" else 40000
    dyn = list(fixed_cases())
    for i in range(n_good):
        dyn.append(g_root(rng, rng.choice([2, 3, 3, 4, 5]), 0.0))
    for i in range(n_bad):
        dyn.append(g_root(rng, rng.choice([2, 3, 4]), rng.choice([0.05, 0.15, 0.4])))
    # deep nesting
    for dpt in (8, 16, 32, 48):
        v = ("int", "i64", 1)
        for j in range(dpt):
            v = [("seq", [v]), ("st", "S", [("a", v)]), ("map", [(("str", "k"), v)]), ("nv", "E", "V", v), ("seq", [v, ("int", "i64", 2)])][j % 5]
        dyn.append(("st", "R", [("deep", v)]))
    dlines = list(dict.fromkeys(line_of(v, kind) for v in dyn))
    dvals = {line_of(v, kind): v for v in dyn}
    # the typed values as dynamic cases as well (model + image oracles need the SVal)
    typed_sval = []
    for c, o in zip(tcases, timpl):
        f = fields_of(o)
        if "sval" in f:
            ln = kind + " " + f["sval"].replace(",", " ")
            typed_sval.append(ln)
            if ln not in dvals:
                dvals[ln] = parse_tokens(f["sval"].split(","))
        else:
            typed_sval.append(None)
    all_lines = list(dict.fromkeys(dlines + [x for x in typed_sval if x]))
    impl, model = run_pair(ctx, tvh, "c07", all_lines)
    by_line = {ln: (i, m) for ln, i, m in zip(all_lines, impl, model)}

    # ---- oracles + correspondence ------------------------------------------------------------
    classes = {}          # class -> list of (line, v, f, bads, origin)
    ndis = 0
    ntexts = 0
    first = None
    hist_route = collections.Counter()
    hist_kind = collections.Counter()
    hist_depth = collections.Counter()
    hist_type = collections.Counter()
    none_map_values = 0
    nontriv = set()
    unclassified = 0
    malformed_dt = 0

    def handle(line, v, f, origin):
        nonlocal unclassified, malformed_dt
        if not wf_datetimes(v):
            malformed_dt += 1
            return
        bads = judge(v, f)
        seen = set()
        for bad in bads:
            cls = classify(v, f, bad)
            if cls is None:
                unclassified += 1
                if unclassified <= 25:
                    r, k, t = bad
                    ctx.violation(f"{origin}: {readable(v)}: route {r}: {t}",
                                  {"mode": "c07", "case": line, "value": readable(v), "route": r, "text": text_of(f, r),
                                   "impl": {x: f.get(x) for x in ROUTES}, "witness": line})
            elif cls not in seen:
                seen.add(cls)
                classes.setdefault(cls, []).append((line, v, f, bad, origin))

    for ln in all_lines:
        i, m = by_line[ln]
        v = dvals[ln]
        if i.startswith("PANIC") or i == "CRASH":
            ctx.violation(f"{readable(v)}: {i[:120]}", {"mode": "c07", "case": ln, "impl": i, "model": m, "witness": ln})
            continue
        f = fields_of(i)
        fm = fields_of(m)
        for r in ROUTES:
            hist_route[r + ":" + (f.get(r, "?")[:2] if f.get(r, "").startswith("ok") else f.get(r, "?"))] += 1
            if f.get(r) != fm.get(r):
                # a text route whose text does not re-parse has no tree to compare
                ndis += 1
                if first is None or len(ln) < len(first[0]):
                    first = (ln, r, f.get(r), fm.get(r))
                break
        else:
            # the texts themselves (the definitions Props/C07Text.lean is about), where the model has one
            for r in ("ts", "tp", "es", "ep"):
                mt = fm.get(r + ".x")
                if mt not in (None, "n/a", "-"):
                    ntexts += 1
                    if f.get(r + ".x", "-") != mt:
                        ndis += 1
                        if first is None or len(ln) < len(first[0]):
                            first = (ln, r + ".x", f.get(r + ".x"), mt)
                        break
        for n in walk(v):
            hist_kind[n[0]] += 1
            if n[0] == "map":
                none_map_values += sum(1 for _, x in n[1] if x[0] == "none")
        hist_depth[min(depth(v), 12)] += 1
        if sum(1 for _ in walk(v)) >= 3:
            nontriv.add(ln)
        if ln in dlines:
            handle(ln, v, f, "dynamic")
    for c, o, ln in zip(tcases, timpl, typed_sval):
        ty = c.split(" ")[1]
        hist_type[ty] += 1
        if o.startswith("PANIC") or o == "CRASH" or ln is None:
            ctx.violation(f"{c}: {o[:120]}", {"mode": "c07", "case": c, "impl": o, "witness": c})
            continue
        handle(c, dvals[ln], fields_of(o), f"typed {ty}")

    # one report per defect class, with its smallest witness reduced further
    for cls, items in classes.items():
        # prefer a witness that has an image (a supported value) and a struct at the root
        plain_root = lambda w: w[0] == "st" and (w[1] != NAME or cls in (F17, F7B))
        items.sort(key=lambda it: (try_image(it[1], True)[0] is None, not plain_root(it[1]), len(line_of(it[1]))))
        line, v, f, bad, origin = items[0]
        root_kind = v[0]

        def first_of(w, ff, cls=cls, want=(bad[0], bad[1])):
            hits = [b for b in judge(w, ff) if classify(w, ff, b) == cls]
            same = [b for b in hits if (b[0], b[1]) == want]
            return (same or [None])[0]

        def still(w):
            if w[0] != root_kind or (root_kind == "st" and (w[1] == NAME) != (v[1] == NAME)):
                return False
            rc, out, _ = run_lines(tvh, "c07", [line_of(w, kind)])
            if len(out) != 1 or out[0].startswith("PANIC"):
                return False
            return first_of(w, fields_of(out[0])) is not None
        small = reduce_case(tvh, v, still) if still(v) else v
        sl = line_of(small, kind)
        rc, out, _ = run_lines(tvh, "c07", [sl])
        sf = fields_of(out[0]) if out else f
        r, k, t = first_of(small, sf) or bad
        want, _ = try_image(small, r not in DOC_ROUTES)
        ctx.violation(f"{cls[6:]} — smallest witness {readable(small)}: route {r} {t}; printed: {text_of(sf, r)!r}; {len(items)} cases of this class in this run (first from: {origin})",
                      {"mode": "c07", "case": sl, "value": readable(small), "route": r, "observed": sf.get(r), "expected": want,
                       "text": text_of(sf, r), "impl": {x: sf.get(x) for x in ROUTES}, "instances": len(items),
                       "other_instances": [it[0] for it in items[1:6]], "witness": cls})

    typed_cov = typed_value_stream(ctx, tvh, flags)
    ctx.oblige("correspondence c07: model driver = implementation on every route of every case", ndis == 0,
               f"{ndis} disagreements; shortest: {first}")
    if ctx.broken and not ctx.violations:
        for n, d in ctx.broken:
            ctx.violation(f"obligation no longer checks: {n}", {"unchecked": n, "detail": d[:1500], "searched": f"{len(tcases)} typed + {len(dlines)} dynamic cases against the image, error-shape and round-trip oracles"}, concrete=False)
    ctx.cov.update({
        "evaluations": len(tcases) + len(all_lines) + typed_cov["typed_value_cases"] + typed_cov["typed_value_dynval_vs_derive"], "typed_cases": len(tcases), "dynamic_cases": len(dlines),
        "distinct_nontrivial": len(nontriv),
        "rule": f"{len(TYPES)} declared derive(Serialize, Deserialize) types x {per_type}+8 seeds, values built in the harness from the seed (adversarial string / float / date-time pools); "
                f"{n_good} random serde values with an image + {n_bad} with unsupported shapes injected (None/unit in sequences, bad keys, u64 > i64::MAX, 128-bit, malformed date-time structs, duplicate keys) "
                f"+ {len(fixed_cases())} fixed regressions + 4 deep nestings; every typed value is replayed as a dynamic value too. non-trivial = a value of >= 3 nodes, distinct by its token line",
        "samples": [tcases[0], dlines[0], dlines[len(fixed_cases()) + 5][:300], dlines[-1][:200]],
        "routes": dict(hist_route), "node_kinds": dict(hist_kind), "depth": {str(k): v for k, v in sorted(hist_depth.items())},
        "typed_per_type": dict(hist_type), "none_map_values_omitted": none_map_values, "malformed_datetime_struct_probes_outside_the_oracles": malformed_dt,
        "defect_classes": {k: len(v) for k, v in classes.items()}, "unclassified_failures": unclassified,
        "traces_validated_against_impl": len(all_lines), "disagreements": ndis, "route_texts_compared_byte_for_byte": ntexts,
        **typed_cov,
        "oracles": ["an ok route's text re-parses (toml and toml_edit agree) and means exactly the documented image of the value (computed here from the value, not by the model)",
                    "all ok routes therefore agree", "an error only for: no image (None/unit misplaced, non-string key, beyond i64, bad date-time), non-table root, struct/tuple variant at the root for toml::to_string*/Table::try_from",
                    "typed: from_str (both crates) / from_document / try_into give back the value (NaN = NaN, every other float by bits)",
                    "typed values of the type grammar: the recorded serde calls are the ones derive / std make; every ok route read back through toml::de, toml_edit::de, from_document, Value / Table deserializers gives the value up to normDec's benign identifications (a dropped None map value = F33)"],
    })
