"""C09 — no key or table definition is ever silently overwritten or merged."""
import itertools
from vlib import *
import defrules, docgen


def paths(tier):
    p1 = [("a",), ("b",)]
    p2 = [("a", "a"), ("a", "b"), ("b", "a"), ("b", "b")]
    p3 = [("a", "b", "a"), ("a", "b", "b"), ("a", "a", "a")]
    return p1 + p2 + p3


def statements(ps):
    out = []
    for p in ps:
        out.append(("std", p))
        out.append(("aot", p))
        out.append(("kv", p, ("i", 1)))
        out.append(("kv", p, ("inl", [(("q",), ("i", 1))])))
        out.append(("kv", p, ("inl", [(("q", "r"), ("i", 1))])))
        out.append(("kv", p, []))
    return out


def spell(rng, name):
    c = rng.randrange(4)
    if c == 0:
        return '"' + name + '"'
    if c == 1:
        return "'" + name + "'"
    return name


def render(rng, stmts):
    lines = []
    for st in stmts:
        if st[0] == "std":
            lines.append("[" + ".".join(spell(rng, k) for k in st[1]) + "]")
        elif st[0] == "aot":
            lines.append("[[" + " . ".join(spell(rng, k) for k in st[1]) + "]]")
        else:
            _, p, v = st
            if v == []:
                vt = "[]"
            elif v[0] == "i":
                vt = "1"
            else:
                vt = "{" + ", ".join(".".join(k) + " = 1" for k, _ in v[1]) + "}"
            lines.append(".".join(spell(rng, k) for k in p) + " = " + vt)
    return "\n".join(lines) + "\n"


def to_plain(tree):
    def conv(v):
        if isinstance(v, dict):
            return {k.encode(): conv(x) for k, x in v.items()}
        if isinstance(v, list):
            return [conv(x) for x in v]
        return v
    return docgen.plain(conv(tree))


def inline_reference(entries):
    """independent definition rules for ONE inline table: entries = [(path, value)], value = ('s', n) | ('t', entries).
    A prefix segment may create a new (open, dotted-key) table or pass through one created that way in this same
    inline table; it may not pass through a scalar or a closed inline-table value; the last segment must be new.
    Returns (valid, plain string of the merged tree)."""
    root = {}          # key -> ['open', dict] | ['closed', plain-string]
    for path, val in entries:
        cur = root
        for seg in path[:-1]:
            if seg not in cur:
                cur[seg] = ["open", {}]
            elif cur[seg][0] != "open":
                return False, None
            cur = cur[seg][1]
        if path[-1] in cur:
            return False, None
        if val[0] == "s":
            cur[path[-1]] = ["closed", f"i{val[1]}"]
        else:
            ok, pl = inline_reference(val[1])
            if not ok:
                return False, None
            cur[path[-1]] = ["closed", pl]

    def plain(d):
        return "{" + ";".join(f"{k.encode().hex()}={(plain(v[1]) if v[0] == 'open' else v[1])}" for k, v in sorted(d.items(), key=lambda kv: kv[0].encode())) + "}"
    return True, plain(root)


def inline_render(rng, entries):
    def key(p):
        return ".".join(rng.choice([k, k, f'"{k}"', f"'{k}'"]) for k in p)
    def val(v):
        return str(v[1]) if v[0] == "s" else inline_render(rng, v[1])
    return "{" + ", ".join(f"{key(p)} = {val(v)}" for p, v in entries) + "}" if entries else "{}"


def inline_cases(ctx):
    rng = ctx.rng
    names = ["a", "b", "c"]
    cases = []
    shapes = {}
    n = 6000 if ctx.tier == "quick" else 120000

    def entry(d):
        p = tuple(rng.choice(names[: rng.choice([2, 2, 3])]) for _ in range(rng.choice([1, 2, 2, 3, 3, 4])))
        k = rng.random()
        if k < 0.55 or d == 0:
            v = ("s", rng.randrange(10))
        elif k < 0.7:
            v = ("t", [])
        else:
            v = ("t", [entry(d - 1) for _ in range(rng.choice([1, 1, 2]))])
        return (p, v)
    # systematic: closed table under a dotted prefix, then a key through it (lengths 2..4)
    for pre in range(1, 4):
        for ext in range(1, 3):
            base = tuple(names[i % 2] for i in range(pre))
            for inner in ([], [(("x",), ("s", 1))]):
                es = [(base, ("t", inner)), (base + tuple(names[(pre + i) % 3] for i in range(ext)), ("s", 2))]
                cases.append(es)
                cases.append(list(reversed(es)))
    for _ in range(n):
        cases.append([entry(2) for _ in range(rng.choice([1, 2, 2, 3, 4]))])
    out = []
    for es in cases:
        ok, pl = inline_reference(es)
        wrap = rng.choice(["t = %s\n", "t = %s\n", "t = [%s]\n", "[h]\nt = %s\n", "t = { w = %s }\n"])
        body = inline_render(rng, es)
        text = wrap % body
        if ok:
            want = {"t = %s\n": "{74=%s}", "t = [%s]\n": "{74=[%s]}", "[h]\nt = %s\n": "{68={74=%s}}", "t = { w = %s }\n": "{74={77=%s}}"}[wrap] % pl
        else:
            want = None
        key = ("valid" if ok else "invalid") + f":{max(len(p) for p, _ in es) if es else 0}seg"
        shapes[key] = shapes.get(key, 0) + 1
        out.append((text, ok, want))
    return out, shapes


def run(ctx):
    translate(ctx)
    mods = ["TomlVerif.Props.C09", "driver"]
    lake_build(ctx, mods, {"TomlVerif.Props.C09": "property theorems"})
    audit(ctx, "TomlVerif.Props.C09", "TomlVerif/Props/C09.lean")
    lake_build(ctx, ["TomlVerif.Props.C09Equiv"], {"TomlVerif.Props.C09Equiv": "T09_equiv: state machine accepts iff the definition rules say valid (all statement sequences outside U1)"})
    audit(ctx, "TomlVerif.Props.C09Equiv", "TomlVerif/Props/C09Equiv.lean")
    if ctx.tier == "thorough":
        leanchecker(ctx, "TomlVerif.Props.C09")
    tvh = cargo_build(ctx)
    if tvh is None:
        ctx.violation("harness does not build against /repo", {"unchecked": "cargo build"}, concrete=False)
        return
    rng = ctx.rng
    ps = paths(ctx.tier)
    sts = statements(ps)
    seqs = []
    N = 3
    for n in range(1, N + 1):
        for t in itertools.product(sts, repeat=n):
            seqs.append(t)
    nexh = len(seqs)
    exh_desc = f"all sequences of 1..{N} statements over {len(sts)} statements ({len(ps)} paths x 6 kinds)"
    if ctx.tier == "thorough":
        # all 4-statement sequences over the paths of length <= 2
        sts2 = statements([p for p in ps if len(p) <= 2])
        for t in itertools.product(sts2, repeat=4):
            seqs.append(t)
        nexh = len(seqs)
        exh_desc += f" + all 4-statement sequences over {len(sts2)} statements"
    # random longer sequences, 3-letter alphabet
    big = [("a",), ("b",), ("c",), ("a", "b"), ("a", "c"), ("b", "c"), ("c", "a"), ("a", "b", "c"), ("a", "b", "a"), ("c", "b", "a"), ("a", "a", "a")]
    stb = statements(big)
    for _ in range(20000 if ctx.tier == "quick" else 400000):
        n = rng.choice([4, 5, 6, 8])
        seqs.append(tuple(rng.choice(stb) for _ in range(n)))
    texts = [render(rng, s) for s in seqs]
    lines = [h(t) for t in texts]
    impl, model = run_pair(ctx, tvh, "doc", lines)
    ndis, first = 0, None
    u1 = valid = invalid = 0
    for sq, t, ln, i, m in zip(seqs, texts, lines, impl, model):
        verdict = defrules.run(list(sq))
        bad = None
        iok = i.startswith("ok ")
        if i.startswith("PANIC") or i == "CRASH" or i.startswith("mixed"):
            bad = f"panic or entry points disagree: {i[:200]}"
        elif verdict[0] == "undecided":
            u1 += 1
        elif verdict[0] == "invalid":
            invalid += 1
            if iok:
                bad = f"accepted, but TOML forbids it: {verdict[1]}"
        else:
            valid += 1
            if not iok:
                bad = "rejected, but every statement is a definition TOML permits"
            else:
                got = i.split(" toml=")[1].split(" depth=")[0]
                want = to_plain(verdict[1])
                if got != want:
                    bad = f"accepted but decoded {got}, the merged tree is {want}"
        if bad:
            ctx.violation(f"`{t.strip()}`: {bad}".replace("\n", " | "), {"mode": "doc", "case": ln, "text": t, "impl": i[:1500], "model": m[:1500], "defrules": str(verdict)[:300], "witness": ln})
        if i != m:
            ndis += 1
            if first is None or len(ln) < len(first[0]):
                first = (t, i[:200], m[:200])
    # ---- the same rules INSIDE inline tables: entries with dotted keys of up to four segments; values scalar, `{}` or a
    # closed inline table; an independent reference decides validity and the merged tree
    inl_cases, inl_meta = inline_cases(ctx)
    ilines = [h(t) for t, _, _ in inl_cases]
    iimpl, imodel = run_pair(ctx, tvh, "doc", ilines)
    inl_valid = inl_invalid = 0
    for (t, ok, want), ln, i, m in zip(inl_cases, ilines, iimpl, imodel):
        bad = None
        iok = i.startswith("ok ")
        if i.startswith("PANIC") or i == "CRASH" or i.startswith("mixed"):
            bad = f"panic or entry points disagree: {i[:200]}"
        elif ok:
            inl_valid += 1
            if not iok:
                bad = "rejected, but every entry of the inline table is a definition TOML permits"
            else:
                got = i.split(" toml=")[1].split(" depth=")[0]
                if got != want:
                    bad = f"accepted but decoded {got}, the merged tree is {want}"
        else:
            inl_invalid += 1
            if iok:
                bad = "accepted, but an entry redefines a key or extends a closed inline table / a scalar"
        if bad:
            ctx.violation(f"`{t.strip()}`: {bad}".replace("\n", " | "), {"mode": "doc", "case": ln, "text": t, "impl": i[:1500], "model": m[:1500], "witness": ln})
        if i != m:
            ndis += 1
            if first is None or len(ln) < len(first[0]):
                first = (t, i[:200], m[:200])
    ctx.cov.update({"inline_table_cases": len(inl_cases), "inline_valid": inl_valid, "inline_invalid": inl_invalid, "inline_shapes": inl_meta})
    ctx.oblige("correspondence doc: state-machine model = implementation (verdict, tree, implicit/dotted flags, positions) on every statement sequence",
               ndis == 0, f"{ndis} disagreements; shortest: {first}")
    if ctx.broken and not ctx.violations:
        for n, d in ctx.broken:
            ctx.violation(f"obligation no longer checks: {n}", {"unchecked": n, "detail": d[:1500], "searched": f"{len(seqs)} statement sequences against the definition rules"}, concrete=False)
    ctx.cov.update({
        "evaluations": len(seqs), "distinct_nontrivial": len(set(lines)),
        "rule": exh_desc + " (exhaustive), random spellings bare/basic/literal per key; plus random sequences of 4-8 statements over 11 paths on a 3-letter alphabet. Three-way: implementation vs Lean state-machine model vs an independent formulation of the definition rules (tools/defrules.py, flat path->kind map). non-trivial = distinct text",
        "exhaustive": True, "exhaustive_subspace": exh_desc, "exhaustive_count": nexh,
        "samples": [texts[100], texts[nexh // 2], texts[-1]],
        "defrules_valid": valid, "defrules_invalid": invalid, "u1_skipped": u1,
        "traces_validated_against_impl": len(seqs), "disagreements": ndis,
    })
