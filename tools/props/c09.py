"""C09 — no key or table definition is ever silently overwritten or merged."""
import itertools
from vlib import *
import defrules, docgen


def paths(tier):
    p1 = [("a",), ("b",)]
    p2 = [("a", "a"), ("a", "b"), ("b", "a"), ("b", "b")]
    p3 = [("a", "b", "a"), ("a", "b", "b"), ("a", "a", "a")]
    return p1 + p2 + p3


def statements(ps):
    out = []
    for p in ps:
        out.append(("std", p))
        out.append(("aot", p))
        out.append(("kv", p, ("i", 1)))
        out.append(("kv", p, ("inl", [(("q",), ("i", 1))])))
        out.append(("kv", p, ("inl", [(("q", "r"), ("i", 1))])))
        out.append(("kv", p, []))
    return out


def spell(rng, name):
    c = rng.randrange(4)
    if c == 0:
        return '"' + name + '"'
    if c == 1:
        return "'" + name + "'"
    return name


def render(rng, stmts):
    lines = []
    for st in stmts:
        if st[0] == "std":
            lines.append("[" + ".".join(spell(rng, k) for k in st[1]) + "]")
        elif st[0] == "aot":
            lines.append("[[" + " . ".join(spell(rng, k) for k in st[1]) + "]]")
        else:
            _, p, v = st
            if v == []:
                vt = "[]"
            elif v[0] == "i":
                vt = "1"
            else:
                vt = "{" + ", ".join(".".join(k) + " = 1" for k, _ in v[1]) + "}"
            lines.append(".".join(spell(rng, k) for k in p) + " = " + vt)
    return "\n".join(lines) + "\n"


def to_plain(tree):
    def conv(v):
        if isinstance(v, dict):
            return {k.encode(): conv(x) for k, x in v.items()}
        if isinstance(v, list):
            return [conv(x) for x in v]
        return v
    return docgen.plain(conv(tree))


def run(ctx):
    translate(ctx)
    mods = ["TomlVerif.Props.C09", "driver"]
    lake_build(ctx, mods, {"TomlVerif.Props.C09": "property theorems"})
    audit(ctx, "TomlVerif.Props.C09", "TomlVerif/Props/C09.lean")
    lake_build(ctx, ["TomlVerif.Props.C09Equiv"], {"TomlVerif.Props.C09Equiv": "T09_equiv: state machine accepts iff the definition rules say valid (all statement sequences outside U1)"})
    audit(ctx, "TomlVerif.Props.C09Equiv", "TomlVerif/Props/C09Equiv.lean")
    if ctx.tier == "thorough":
        leanchecker(ctx, "TomlVerif.Props.C09")
    tvh = cargo_build(ctx)
    if tvh is None:
        ctx.violation("harness does not build against /repo", {"unchecked": "cargo build"}, concrete=False)
        return
    rng = ctx.rng
    ps = paths(ctx.tier)
    sts = statements(ps)
    seqs = []
    N = 3
    for n in range(1, N + 1):
        for t in itertools.product(sts, repeat=n):
            seqs.append(t)
    nexh = len(seqs)
    exh_desc = f"all sequences of 1..{N} statements over {len(sts)} statements ({len(ps)} paths x 6 kinds)"
    if ctx.tier == "thorough":
        # all 4-statement sequences over the paths of length <= 2
        sts2 = statements([p for p in ps if len(p) <= 2])
        for t in itertools.product(sts2, repeat=4):
            seqs.append(t)
        nexh = len(seqs)
        exh_desc += f" + all 4-statement sequences over {len(sts2)} statements"
    # random longer sequences, 3-letter alphabet
    big = [("a",), ("b",), ("c",), ("a", "b"), ("a", "c"), ("b", "c"), ("c", "a"), ("a", "b", "c"), ("a", "b", "a"), ("c", "b", "a"), ("a", "a", "a")]
    stb = statements(big)
    for _ in range(20000 if ctx.tier == "quick" else 400000):
        n = rng.choice([4, 5, 6, 8])
        seqs.append(tuple(rng.choice(stb) for _ in range(n)))
    texts = [render(rng, s) for s in seqs]
    lines = [h(t) for t in texts]
    impl, model = run_pair(ctx, tvh, "doc", lines)
    ndis, first = 0, None
    u1 = valid = invalid = 0
    for sq, t, ln, i, m in zip(seqs, texts, lines, impl, model):
        verdict = defrules.run(list(sq))
        bad = None
        iok = i.startswith("ok ")
        if i.startswith("PANIC") or i == "CRASH" or i.startswith("mixed"):
            bad = f"panic or entry points disagree: {i[:200]}"
        elif verdict[0] == "undecided":
            u1 += 1
        elif verdict[0] == "invalid":
            invalid += 1
            if iok:
                bad = f"accepted, but TOML forbids it: {verdict[1]}"
        else:
            valid += 1
            if not iok:
                bad = "rejected, but every statement is a definition TOML permits"
            else:
                got = i.split(" toml=")[1].split(" depth=")[0]
                want = to_plain(verdict[1])
                if got != want:
                    bad = f"accepted but decoded {got}, the merged tree is {want}"
        if bad:
            ctx.violation(f"`{t.strip()}`: {bad}".replace("\n", " | "), {"mode": "doc", "case": ln, "text": t, "impl": i[:1500], "model": m[:1500], "defrules": str(verdict)[:300], "witness": ln})
        if i != m:
            ndis += 1
            if first is None or len(ln) < len(first[0]):
                first = (t, i[:200], m[:200])
    ctx.oblige("correspondence doc: state-machine model = implementation (verdict, tree, implicit/dotted flags, positions) on every statement sequence",
               ndis == 0, f"{ndis} disagreements; shortest: {first}")
    if ctx.broken and not ctx.violations:
        for n, d in ctx.broken:
            ctx.violation(f"obligation no longer checks: {n}", {"unchecked": n, "detail": d[:1500], "searched": f"{len(seqs)} statement sequences against the definition rules"}, concrete=False)
    ctx.cov.update({
        "evaluations": len(seqs), "distinct_nontrivial": len(set(lines)),
        "rule": exh_desc + " (exhaustive), random spellings bare/basic/literal per key; plus random sequences of 4-8 statements over 11 paths on a 3-letter alphabet. Three-way: implementation vs Lean state-machine model vs an independent formulation of the definition rules (tools/defrules.py, flat path->kind map). non-trivial = distinct text",
        "exhaustive": True, "exhaustive_subspace": exh_desc, "exhaustive_count": nexh,
        "samples": [texts[100], texts[nexh // 2], texts[-1]],
        "defrules_valid": valid, "defrules_invalid": invalid, "u1_skipped": u1,
        "traces_validated_against_impl": len(seqs), "disagreements": ndis,
    })
