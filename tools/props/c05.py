"""C05 — nesting is bounded so no document can exhaust the stack."""
from vlib import *

LIMIT = 80


def gen(ctx):
    rng = ctx.rng
    docs = []

    def arrays(n, inner="1"):
        return "[" * n + inner + "]" * n

    def inlines(n, m=1, inner="1"):
        key = ".".join(["a"] * m)
        return ("{" + key + " = ") * n + inner + "}" * n

    def dotted(m):
        return ".".join(["k"] * m)

    def header(m, aot=False):
        p = ".".join(["h"] * m)
        return ("[[" + p + "]]") if aot else ("[" + p + "]")

    around = [1, 2, 39, 40, 41, 77, 78, 79, 80, 81, 160, 500]
    for n in around:
        docs.append(f"x = {arrays(n)}\n")
        docs.append(f"x = {inlines(n)}\n")
        docs.append(f"{dotted(n)} = 1\n")
        docs.append(f"{header(n)}\nx = 1\n")
        docs.append(f"{header(n, True)}\nx = 1\n{header(n, True)}\ny = 2\n")
        docs.append(f"x = {{ {dotted(n)} = 1 }}\n")
    # every multiplicative / additive combination around the limit
    small = [1, 2, 5, 9, 10, 20, 26, 27, 39, 40, 41, 78, 79, 80]
    for n in small:
        for m in small:
            if n * m <= 4000:
                docs.append(f"x = {inlines(n, m)}\n")                       # inline x dotted
                docs.append(f"{dotted(m)} = {arrays(n)}\n")                 # dotted + arrays
                docs.append(f"{dotted(m)} = {inlines(n)}\n")                # dotted + inline
                docs.append(f"{header(m)}\n{dotted(n)} = 1\n")              # header + dotted
                docs.append(f"{header(m)}\nx = {arrays(n)}\n")              # header + arrays
                docs.append(f"{header(m, True)}\n{dotted(n)} = {arrays(3)}\n")
                docs.append(f"x = {arrays(n, inlines(m))}\n")               # arrays of inline
                docs.append(f"x = {inlines(n, 1, arrays(m))}\n")            # inline of arrays
    for n in [10, 26, 39, 78, 79]:
        for m in [10, 26, 39, 78, 79]:
            for k in [1, 10, 39, 78]:
                docs.append(f"{header(m)}\n{dotted(n)} = {arrays(k)}\n")
                docs.append(f"{header(m)}\n{dotted(n)} = {inlines(k, 2)}\n")
    # deep chains of tables by successive headers (each path under the limit)
    for n in [10, 79]:
        lines = []
        for i in range(1, n + 1):
            lines.append("[" + ".".join(["t"] * i) + "]\nv = 1\n")
        docs.append("".join(lines))
    # array of tables nested in array of tables
    for n in [5, 40, 79]:
        lines = []
        for i in range(1, n + 1):
            lines.append("[[" + ".".join(["u"] * i) + "]]\n")
        docs.append("".join(lines))
    for _ in range(300 if ctx.tier == "quick" else 15000):
        parts = []
        hd = rng.choice([0, 1, 5, 40, 78, 79])
        if hd:
            parts.append(header(hd, rng.random() < 0.3) + "\n")
        dk = rng.choice([1, 2, 10, 39, 40, 78, 79])
        v = "1"
        for _ in range(rng.choice([1, 2, 3])):
            c = rng.randrange(2)
            n = rng.choice([1, 2, 5, 13, 26, 39, 77])
            v = arrays(n, v) if c == 0 else inlines(n, rng.choice([1, 1, 2, 3]), v)
        parts.append(f"{dotted(dk)} = {v}\n")
        docs.append("".join(parts))
    return docs


def expected_accept(doc):
    """independent statement of the nesting rule for the generator's restricted syntax: a key path of m segments is refused
    when m >= LIMIT; inside one key/value statement the number of open `[` / `{` plus the tables created by the dotted keys
    of the enclosing key/values must stay below LIMIT."""
    import re
    for line in doc.split("\n"):
        line = line.strip()
        if not line:
            continue
        if line.startswith("[") and "=" not in line:
            segs = line.strip("[]").split(".")
            if len(segs) >= LIMIT:
                return False
            continue
        counter = 0
        pending = []          # charges to release when the value of an inline key ends (per open '{')
        i = 0
        toks = re.findall(r"[A-Za-z0-9_]+(?:\.[A-Za-z0-9_]+)*\s*=|\[|\]|\{|\}|,|[0-9]+", line)
        stack = []
        first_key = True
        for t in toks:
            if t.endswith("="):
                m = len(t[:-1].strip().split("."))
                if m >= LIMIT:
                    return False
                if counter + (m - 1) >= LIMIT and m > 1:
                    return False
                counter += m - 1
                stack.append(("key", m - 1))
            elif t in "[{":
                counter += 1
                if counter >= LIMIT:
                    return False
                stack.append((t, 1))
            elif t in "]}":
                # close: release the container and the key charge of the value that just ended (if any)
                while stack and stack[-1][0] == "key":
                    counter -= stack.pop()[1]
                if stack:
                    counter -= stack.pop()[1]
                # the container itself was the value of an enclosing key: that key's charge ends with it
                while stack and stack[-1][0] == "key":
                    counter -= stack.pop()[1]
            elif t == ",":
                while stack and stack[-1][0] == "key":
                    counter -= stack.pop()[1]
            else:
                while stack and stack[-1][0] == "key":
                    counter -= stack.pop()[1]
    return True


def run(ctx):
    translate(ctx)
    mods = ["TomlVerif.Gen.CheckLex", "TomlVerif.Props.C05", "driver"]
    lake_build(ctx, mods, {"TomlVerif.Gen.CheckLex": "table theorems incl. LIMIT = 80", "TomlVerif.Props.C05": "property theorems"})
    audit(ctx, "TomlVerif.Props.C05", "TomlVerif/Props/C05.lean")
    # document level: every accepted text decodes to a tree nesting at most 3*LIMIT-2 deep
    lake_build(ctx, ["TomlVerif.Props.C05Doc"], {"TomlVerif.Props.C05Doc": "property theorems: document-level depth bound"})
    audit(ctx, "TomlVerif.Props.C05Doc", "TomlVerif/Props/C05Doc.lean")
    if ctx.tier == "thorough":
        leanchecker(ctx, "TomlVerif.Props.C05")
    docs = list(dict.fromkeys(gen(ctx)))
    lines = [h(d) for d in docs]
    maxdepth = 0
    accepted = 0
    K = 3 * LIMIT
    total_dis = 0
    for release in (False, True):
        tvh = cargo_build(ctx, release=release)
        if tvh is None:
            ctx.violation("harness does not build against /repo", {"unchecked": "cargo build"}, concrete=False)
            return
        impl, model = run_pair(ctx, tvh, "stack", lines)
        ndis, first = 0, None
        for d, ln, i, m in zip(docs, lines, impl, model):
            bad = None
            if i == "CRASH" or i.startswith("PANIC"):
                bad = f"stack overflow / abort on a 2 MiB thread ({'release' if release else 'debug'} build)"
            elif i == "mixed":
                bad = "toml_edit and toml::from_str disagree on the verdict"
            elif i.startswith("ok"):
                dep = int(i.split("=")[1])
                accepted += 1
                maxdepth = max(maxdepth, dep)
                if dep > K:
                    bad = f"accepted with nesting depth {dep} > {K}"
                elif not expected_accept(d):
                    bad = f"accepted (decoded depth {dep}) although the nesting of one statement reaches the limit of {LIMIT}"
            elif i.startswith("err") and expected_accept(d):
                bad = f"refused although every statement nests below the limit of {LIMIT}"
            if bad:
                ctx.violation(f"{len(d)}-byte document `{d[:50]}…`: {bad}", {"mode": "stack", "case": ln, "text": d, "impl": i, "model": m, "witness": ln, "build": "release" if release else "debug"})
            if i != m:
                ndis += 1
                if first is None or len(ln) < len(first[0]):
                    first = (d[:100], i, m)
        total_dis += ndis
        ctx.oblige(f"correspondence stack ({'release' if release else 'debug'}): verdict and nesting depth of model = implementation; every accepted document survives parse/print/debug/clone/drop/deserialize on a 2 MiB stack",
                   ndis == 0, f"{ndis} disagreements; shortest: {first}")
    if ctx.broken and not ctx.violations:
        for n, d in ctx.broken:
            ctx.violation(f"obligation no longer checks: {n}", {"unchecked": n, "detail": d[:1500], "searched": f"{len(docs)} nested documents x 2 builds"}, concrete=False)
    ctx.cov.update({
        "evaluations": 2 * len(docs), "distinct_nontrivial": len(docs),
        "rule": "documents built from nested arrays, inline tables, dotted keys (top level and inside inline tables), table and array-of-tables header paths, singly at depths 1..500 and in every pairwise (multiplicative and additive) combination over depths {1,2,5,9,10,20,26,27,39,40,41,78,79,80}, triple combinations, successive-header chains, random mixes; each run in a debug and a release build on a 2 MiB thread: parse, to_string, {:?}, into_mut, clone, drop, from_document, toml::from_str, Value Display/Debug/clone/drop. Every document is non-trivial.",
        "samples": [docs[7][:120], docs[len(docs) // 2][:120], docs[-1][:120]],
        "accepted": accepted, "max_depth_accepted": maxdepth, "depth_bound_checked": K,
        "traces_validated_against_impl": 2 * len(docs), "disagreements": total_dis,
    })
