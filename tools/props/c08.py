"""C08 — structural edits through the public API keep the document valid, change the decoded
content exactly like the same edits on a plain ordered tree, and leave untouched source text alone.

Case line: `<hex document> <op>;<op>;…` (harness/src/c08.rs, lean Driver/C08.lean); after every op both
sides print the document, re-parse the print and show the tree in memory.

Direct oracles (independent of the Lean model), after EVERY step:
 (1) the printed text parses;
 (2) the tree in memory (typed, ordered, with flags) equals the reference tree this file maintains by
     applying the op to a plain typed ordered tree (insert appends or replaces in place, remove deletes,
     sort sorts keys, conversions keep content);
 (2') the plain tree of the re-parsed print equals the plain tree of the reference;
 (3) surviving untouched entries keep their relative order in the re-parsed print;
 (4) key tokens / scalar tokens / comments of the original whose path is disjoint from every edit
     still occur verbatim in the print.
"""
from vlib import *
import docgen
from props.parse_common import corpus_files, regression_files

# ------------------------------------------------------------------------------------------
# canonical tree format of harness/src/canon.rs `canon_tbl` -> python
#   T<imp><dot>p<pos|->{k=item;…}   I<imp><dot>{k=val;…}   A[T…;…]   [val;…]   scalar
# nodes: ["T", entries, imp, dot, pos] ["I", entries, imp, dot] ["A", tables] ["L", values] ["v", text]
# entries: list of [key_hex, node]
# ------------------------------------------------------------------------------------------


class P:
    def __init__(self, s):
        self.s = s
        self.i = 0

    def peek(self):
        return self.s[self.i] if self.i < len(self.s) else ""

    def take(self, n=1):
        r = self.s[self.i:self.i + n]
        self.i += n
        return r

    def until(self, stops):
        j = self.i
        while j < len(self.s) and self.s[j] not in stops:
            j += 1
        r = self.s[self.i:j]
        self.i = j
        return r

    def entries(self, item):
        assert self.take() == "{"
        es = []
        while self.peek() != "}":
            k = self.until("=")
            self.take()
            es.append([k, item()])
            if self.peek() == ";":
                self.take()
        self.take()
        return es

    def seq(self, item):
        assert self.take() == "["
        xs = []
        while self.peek() != "]":
            xs.append(item())
            if self.peek() == ";":
                self.take()
        self.take()
        return xs

    def tbl(self):
        assert self.take() == "T"
        imp, dot = self.take(), self.take()
        assert self.take() == "p"
        pos = self.until("{")
        return ["T", self.entries(self.item), imp, dot, pos]

    def val(self):
        c = self.peek()
        if c == "I":
            self.take()
            imp, dot = self.take(), self.take()
            return ["I", self.entries(self.val), imp, dot]
        if c == "[":
            return ["L", self.seq(self.val)]
        return ["v", self.until(";]}")]

    def item(self):
        c = self.peek()
        if c == "T":
            return self.tbl()
        if c == "A":
            self.take()
            return ["A", self.seq(self.tbl)]
        return self.val()


def parse_canon(s):
    p = P(s)
    t = p.tbl()
    assert p.i == len(s), s
    return t


def canon(n):
    k = n[0]
    if k == "T":
        return f"T{n[2]}{n[3]}p{n[4]}{{" + ";".join(f"{a}={canon(b)}" for a, b in n[1]) + "}"
    if k == "I":
        return f"I{n[2]}{n[3]}{{" + ";".join(f"{a}={canon(b)}" for a, b in n[1]) + "}"
    if k == "A":
        return "A[" + ";".join(canon(x) for x in n[1]) + "]"
    if k == "L":
        return "[" + ";".join(canon(x) for x in n[1]) + "]"
    return n[1]


def kb(khex):
    return b"" if khex == "-" else bytes.fromhex(khex)


def plain(n):
    """the sorted plain form of harness/src/canon.rs `plain_tbl`"""
    k = n[0]
    if k in "TI":
        es = sorted((kb(a), plain(b)) for a, b in n[1])
        return "{" + ";".join(f"{h(a)}={b}" for a, b in es) + "}"
    if k in "AL":
        return "[" + ";".join(plain(x) for x in n[1]) + "]"
    return n[1]


def prune(n):
    """what survives printing: empty arrays of tables, childless implicit tables and childless
    dotted tables are not printed (known behaviour, see the classes reported below)"""
    k = n[0]
    if k == "T":
        es = [[a, q] for a, b in n[1] for q in [prune(b)] if q is not None]
        if not es and (n[2] == "1" or n[3] == "1"):
            return None
        return ["T", es, n[2], n[3], n[4]]
    if k == "I":
        es = [[a, q] for a, b in n[1] for q in [prune(b)] if q is not None]
        if not es and n[3] == "1":
            return None
        return ["I", es, n[2], n[3]]
    if k == "A":
        xs = [prune(x) or ["T", [], "0", "0", "-"] for x in n[1]]
        return ["A", xs] if xs else None
    if k == "L":
        return ["L", [prune(x) or ["I", [], "0", "0"] for x in n[1]]]
    return n


def has_position(n):
    """a standard table with a document position somewhere in the subtree"""
    if n[0] == "T":
        return n[4] != "-" or any(has_position(b) for _, b in n[1])
    if n[0] == "A":
        return any(has_position(x) for x in n[1])
    return False


def dotted_on(root, path):
    """a dotted standard table on the way to `path` (inclusive)"""
    cur = root
    for sgm in [None] + list(path):
        if sgm is not None:
            cur = child(cur, sgm)
            if cur is None:
                return False
        if cur[0] == "T" and cur[3] == "1":
            return True
    return False


def taint_of(before, after, op):
    """known risky situations an applied op creates (each is a reported class of findings)"""
    name, path = op[0], ([] if op[1] == "." else op[1].split("/"))
    res = []
    if name == "mv":
        item = nav(before, path + [op[2]])
        p2 = [] if op[3] == "." else op[3].split("/")
        dest = nav(after, p2)
        if item[0] in "TA" and has_position(item) and dest[0] == "T":
            res.append("class:moved-table-keeps-position")
        if item[0] in "vLI" and dest[0] == "I":
            res.append("class:value-with-comment-decor-into-inline-table")
        if item[0] in "TA" and dest[0] == "T" and dotted_on(after, p2):
            res.append("class:new-table-below-dotted-table-printed-before-its-parent")
    elif name in ("newt", "tbl", "arr2aot") and dotted_on(after, path):
        res.append("class:new-table-below-dotted-table-printed-before-its-parent")
    return res


def clone(n):
    k = n[0]
    if k in "TI":
        return [k, [[a, clone(b)] for a, b in n[1]]] + list(n[2:])
    if k in "AL":
        return [k, [clone(x) for x in n[1]]]
    return list(n)


# ------------------------------------------------------------------------------------------
# reference semantics of the ops on the typed ordered tree
# ------------------------------------------------------------------------------------------

def is_idx(seg):
    return seg.isdigit() and len(seg) <= 9 and seg.isascii()


def is_key(seg):
    if seg == "-":
        return True
    try:
        bytes.fromhex(seg).decode("utf-8")
        return len(seg) > 0 and len(seg) % 2 == 0 and " " not in seg
    except ValueError:
        return False


def child(n, seg):
    if n[0] in "TI":
        if not is_key(seg):
            return None
        for a, b in n[1]:
            if kb(a) == kb(seg):
                return b
        return None
    if n[0] in "AL":
        if not is_idx(seg) or int(seg) >= len(n[1]):
            return None
        return n[1][int(seg)]
    return None


def nav(root, path):
    cur = root
    for s in path:
        cur = child(cur, s)
        if cur is None:
            return None
    return cur


def find(es, khex):
    for i, (a, _) in enumerate(es):
        if kb(a) == kb(khex):
            return i
    return None


def put(es, khex, node):
    i = find(es, khex)
    if i is None:
        es.append([khex, node])
    else:
        es[i][1] = node


def sc_canon(v):
    """op scalar -> canonical scalar text"""
    if v[0] == "i":
        return "i" + str(int(v[1:]))
    return v


def to_inline(n):
    k = n[0]
    if k == "T":
        return ["I", [[a, to_inline(b)] for a, b in n[1]], "0", "0"]
    if k == "A":
        return ["L", [to_inline(x) for x in n[1]]]
    return n


def to_table(n):
    return ["T", n[1], "0", "0", "-"]


def sort_ref(n):
    n[1].sort(key=lambda e: kb(e[0]))
    for _, b in n[1]:
        if b[0] == n[0] and b[3] == "1":
            sort_ref(b)


def apply_ref(root, op):
    """apply `op` (list of tokens) to the reference tree in place; True = applied"""
    name, path = op[0], ([] if op[1] == "." else op[1].split("/"))
    n = nav(root, path)
    if n is None:
        return False
    if name == "mv":
        if n[0] not in "TI" or not is_key(op[2]) or find(n[1], op[2]) is None:
            return False
        i = find(n[1], op[2])
        ent = n[1][i]
        del n[1][i]
        n2 = nav(root, [] if op[3] == "." else op[3].split("/"))
        if n2 is None or n2[0] not in "TI":
            n[1].insert(i, ent)
            return False
        put(n2[1], op[2], to_inline(ent[1]) if n2[0] == "I" else ent[1])
        return True
    if name == "set":
        if n[0] not in "TI" or not is_key(op[2]):
            return False
        put(n[1], op[2], ["v", sc_canon(op[3])])
    elif name == "del":
        if n[0] not in "TI" or not is_key(op[2]) or find(n[1], op[2]) is None:
            return False
        del n[1][find(n[1], op[2])]
    elif name == "newt":
        if n[0] != "T" or not is_key(op[2]):
            return False
        put(n[1], op[2], ["T", [], "0", "0", "-"])
    elif name == "viv":
        if n[0] != "T" or not is_key(op[2]) or not is_key(op[3]):
            return False
        i = find(n[1], op[2])
        if i is None:
            n[1].append([op[2], ["I", [[op[3], ["v", sc_canon(op[4])]]], "0", "0"]])
        elif n[1][i][1][0] in "TI":
            put(n[1][i][1][1], op[3], ["v", sc_canon(op[4])])
        else:
            return False
    elif name == "sort":
        if n[0] not in "TI":
            return False
        sort_ref(n)
    elif name == "fmt":
        if n[0] not in "TIL":
            return False
    elif name == "push":
        if n[0] != "L":
            return False
        n[1].append(["v", sc_canon(op[2])])
    elif name == "ains":
        if n[0] != "L" or not is_idx(op[2]) or int(op[2]) > len(n[1]):
            return False
        n[1].insert(int(op[2]), ["v", sc_canon(op[3])])
    elif name == "arepl":
        if n[0] != "L" or not is_idx(op[2]) or int(op[2]) >= len(n[1]):
            return False
        n[1][int(op[2])] = ["v", sc_canon(op[3])]
    elif name in ("adel", "adelr"):
        if n[0] != "L" or not is_idx(op[2]) or int(op[2]) >= len(n[1]):
            return False
        del n[1][int(op[2])]
    elif name == "tpush":
        if n[0] != "A":
            return False
        n[1].append(["T", [["6e", ["v", f"i{len(n[1])}"]]], "0", "0", "-"])
    elif name == "tdel":
        if n[0] != "A" or not is_idx(op[2]) or int(op[2]) >= len(n[1]):
            return False
        del n[1][int(op[2])]
    elif name in ("inl", "tbl", "aot2arr", "arr2aot"):
        if n[0] != "T" or not is_key(op[2]):
            return False
        i = find(n[1], op[2])
        if i is None:
            return False
        c = n[1][i][1]
        if name == "inl" and c[0] == "T":
            n[1][i][1] = to_inline(c)
        elif name == "aot2arr" and c[0] == "A":
            n[1][i][1] = to_inline(c)
        elif name == "tbl" and c[0] == "I":
            n[1][i][1] = to_table(c)
        elif name == "arr2aot" and c[0] == "L" and c[1] and all(x[0] == "I" for x in c[1]):
            n[1][i][1] = ["A", [to_table(x) for x in c[1]]]
        else:
            return False
    else:
        return False
    return True


def edit_paths(root_before, op):
    """(token paths, comment paths) an applied op touches; evaluated on the tree before the op"""
    name, path = op[0], ([] if op[1] == "." else op[1].split("/"))
    if name in ("set", "del", "newt"):
        return [path + [op[2]]], []
    if name == "mv":
        return [path + [op[2]], ([] if op[3] == "." else op[3].split("/")) + [op[2]]], []
    if name == "viv":
        return [path + [op[2], op[3]]], []
    if name in ("ains", "adel", "adelr", "tdel"):
        return [path], []
    if name == "arepl":
        return [path + [op[2]]], []
    if name == "fmt":
        n = nav(root_before, path)
        if n[0] == "L":
            return [], [path]
        return [], [path + [a] for a, b in n[1] if b[0] in "vLI"]
    if name in ("inl", "tbl", "aot2arr", "arr2aot"):
        return [], [path + [op[2]]]
    return [], []


def norm_path(p):
    """segments compare by decoded key (hex case) / index value"""
    return tuple(s.lower() if not s.isdigit() else s for s in p)


def related(a, b):
    """one path is a prefix of the other"""
    n = min(len(a), len(b))
    return a[:n] == b[:n]


# ------------------------------------------------------------------------------------------
# tokens and comments of the original, from the spans of `tvh c14`
# ------------------------------------------------------------------------------------------

def original_facts(text, spans_line, m0):
    """tokens: [(path, bytes)], comments: [(owner path | None, bytes)]"""
    if not spans_line.startswith("ok spans="):
        return None
    ents = spans_line.split(" ")[1][len("spans="):].split(",")
    tokens, anchors, vspans, mask = [], [], [], []
    for e in ents:
        pth, sp = e.split("=", 1)
        if pth == "root":
            continue
        path = norm_path(pth.split("/")[1:])
        ks, vs = sp.split(":")
        node = nav(m0, list(path))
        if ks != "-":
            a, b = map(int, ks.split(".."))
            tokens.append((path, text[a:b]))
            mask.append((a, b))
            anchors.append((a, path))
        if vs != "-":
            a, b = map(int, vs.split(".."))
            if node is not None and node[0] == "v":
                tokens.append((path, text[a:b]))
                mask.append((a, b))
                vspans.append((a, b, path, True))
            elif node is not None and node[0] in "LI":
                vspans.append((a, b, path, False))
            else:
                anchors.append((a, path))
    masked = bytearray(len(text))
    for a, b in mask:
        for i in range(a, b):
            masked[i] = 1
    # top-level anchors: not inside the value span of another entry
    top = [(a, p) for a, p in anchors if not any(x <= a < y and len(q) < len(p) for x, y, q, _ in vspans)]
    comments = []
    i = 0
    while i < len(text):
        if text[i] == 0x23 and not masked[i]:
            j = text.find(b"\n", i)
            j = len(text) if j < 0 else j
            body = text[i:j].rstrip(b"\r")
            ls = text.rfind(b"\n", 0, i) + 1
            inside = [q for x, y, q, sc in vspans if x <= i < y and not sc]
            if inside:
                owner = max(inside, key=len)
            else:
                same = [p for a, p in top if ls <= a < i] + [q for x, y, q, _ in vspans if ls < y <= i]
                if same:
                    owner = max(same, key=len)
                else:
                    nxt = [a for a, p in top if a > i]
                    if nxt:
                        a0 = min(nxt)
                        le = text.find(b"\n", a0)
                        le = len(text) if le < 0 else le
                        owner = max([p for a, p in top if a0 <= a <= le], key=len)
                    else:
                        owner = None
            comments.append((owner, body))
            i = j
        else:
            i += 1
    return tokens, comments


# ------------------------------------------------------------------------------------------
# op generation
# ------------------------------------------------------------------------------------------

KEYPOOL = ["a", "b", "c", "k", "t", "new", "x1", "z", "", "a b", "é", "q\"r", "x.y", "n", "1", "'", "\\", "#h", "😀"]
STRPOOL = ["", "v", "hello world", "it's", "say \"hi\"", "line1\nline2", "tab\there", "é😀", "a#b", "'''", "\"\"\"", "back\\slash", "\x01", "a'b\"c", "\r\n", "x = 1"]
OPS = ["set", "set", "set", "del", "del", "newt", "viv", "sort", "fmt", "push", "push", "ains", "arepl", "adel", "adelr", "adelr", "tpush", "tdel", "inl", "tbl", "aot2arr", "arr2aot", "mv"]


def all_nodes(n, path, out):
    out.append((path, n))
    if n[0] in "TI":
        for a, b in n[1]:
            all_nodes(b, path + [a], out)
    elif n[0] in "AL":
        for i, x in enumerate(n[1]):
            all_nodes(x, path + [str(i)], out)


def gen_scalar(rng):
    c = rng.random()
    if c < 0.45:
        return "i" + str(rng.choice([0, 1, -1, 7, 42, -300, 2**31, -2**59, 10**17, rng.randrange(-1000, 1000)]))
    if c < 0.85:
        return "s" + h(rng.choice(STRPOOL))
    return rng.choice(["b0", "b1"])


def pstr(path):
    return "/".join(path) if path else "."


def gen_op(rng, ref):
    nodes = []
    all_nodes(ref, [], nodes)
    if rng.random() < 0.1:
        # unresolvable / wrong type
        path, n = rng.choice(nodes)
        bad = rng.choice(["ghost", "wrongtype", "index", "syntax"])
        name = rng.choice(OPS)
        if bad == "ghost":
            path = path + [h("nosuchkey")]
        elif bad == "index":
            path = path + ["99"]
        elif bad == "syntax":
            path = path + ["zz"]
        args = {"set": [h("k"), "i1"], "del": [h("a")], "newt": [h("k")], "viv": [h("a"), h("b"), "i1"], "sort": [], "fmt": [], "push": ["i1"], "ains": ["0", "i1"],
                "arepl": ["0", "i1"], "adel": ["0"], "adelr": ["0"], "tpush": [], "tdel": ["0"], "inl": [h("a")], "tbl": [h("a")], "aot2arr": [h("a")], "arr2aot": [h("a")], "mv": [h("a"), "."]}[name]
        return [name, pstr(path)] + args
    for _ in range(20):
        name = rng.choice(OPS)
        tl = [(p, n) for p, n in nodes if n[0] in "TI"]
        tt = [(p, n) for p, n in nodes if n[0] == "T"]
        ls = [(p, n) for p, n in nodes if n[0] == "L"]
        aa = [(p, n) for p, n in nodes if n[0] == "A"]

        def keyfor(n, want=None):
            ex = [a for a, b in n[1] if want is None or b[0] in want]
            if ex and (want is not None or rng.random() < 0.45):
                return rng.choice(ex)
            if want is not None:
                return None
            return h(rng.choice(KEYPOOL))
        if name == "set":
            p, n = rng.choice(tl)
            return ["set", pstr(p), keyfor(n), gen_scalar(rng)]
        if name == "del":
            p, n = rng.choice(tl)
            if not n[1]:
                continue
            return ["del", pstr(p), rng.choice(n[1])[0]]
        if name == "mv":
            p, n = rng.choice(tl)
            if not n[1]:
                continue
            p2, _ = rng.choice(tl)
            return ["mv", pstr(p), rng.choice(n[1])[0], pstr(p2)]
        if name == "newt":
            p, n = rng.choice(tt)
            return ["newt", pstr(p), keyfor(n)]
        if name == "viv":
            p, n = rng.choice(tt)
            k1 = keyfor(n)
            c = child(n, k1)
            k2 = keyfor(c) if c is not None and c[0] in "TI" else h(rng.choice(KEYPOOL))
            return ["viv", pstr(p), k1, k2, gen_scalar(rng)]
        if name == "sort":
            p, n = rng.choice(tl)
            return ["sort", pstr(p)]
        if name == "fmt":
            p, n = rng.choice(tl + ls)
            return ["fmt", pstr(p)]
        if name in ("push", "ains", "arepl", "adel", "adelr"):
            if not ls:
                continue
            p, n = rng.choice(ls)
            ln = len(n[1])
            if name == "push":
                return ["push", pstr(p), gen_scalar(rng)]
            if name == "ains":
                return ["ains", pstr(p), str(rng.randrange(0, ln + 2)), gen_scalar(rng)]
            if name == "arepl":
                return ["arepl", pstr(p), str(rng.randrange(0, ln + 1)), gen_scalar(rng)]
            return [name, pstr(p), str(rng.randrange(0, ln + 1))]
        if name in ("tpush", "tdel"):
            if not aa:
                continue
            p, n = rng.choice(aa)
            if name == "tpush":
                return ["tpush", pstr(p)]
            return ["tdel", pstr(p), str(rng.randrange(0, len(n[1]) + 1))]
        want = {"inl": "T", "tbl": "I", "aot2arr": "A", "arr2aot": "L"}[name]
        cands = [(p, n) for p, n in tt if any(b[0] == want for a, b in n[1])]
        if not cands:
            continue
        p, n = rng.choice(cands)
        return [name, pstr(p), keyfor(n, want)]
    return ["fmt", "."]


import re
HDR_DECOR = re.compile(rb"^[ \t]*\[\[?[ \t]*(#[^\n]*)?\r?\n", re.M)

HAND = [
    "a = 1\n", "a = 1", "# c\na = 1 # d\n", "[t]\nx = 1\n", "[t] # c\nx = 1 # d\n\n# e\ny = 2\n", "[[t]]\nx = 1\n[[t]]\nx = 2\n", "[[t]]\n[t.s]\nx = 1\n[[t]]\n[t.s]\nx = 2\n",
    "[a.b]\nx = 1\n[a]\ny = 2\n", "[a.b]\nx = 1\n", "a.b = 1\na.c = 2\n", "a.b = 1\nc = 2\na.d = 3\n", "a = { x = 1, y.z = 2 }\n", "a = [ 1 , 2 , ]\n",
    "a = [\n  1, # one\n  2, # two\n]\n", "a = [\n  1 # one\n]\n", "a = [{x = 1}, {y = 2}]\n", "a = []\n", "a = {}\n", "[t]\n", "[[t]]\n", "﻿a = 1\n",
    "a = 1\r\nb = 2\r\n[t]\r\nx = 1\r\n", "# only\n", "", "[b]\nx = 1\n[a]\ny = 2\n", "[x]\n[[x.a]]\nk = 1\n[x.t]\nq = 2\n", "t = { a = [1, {b = 2}] }\n",
    "'quoted key' = 1\n\"esc\\u0041ped\" = 2\n", "[a]\nb.c = 1\n[a.d]\ne = 2\n", "a = [[1, 2], [3]]\n", "[t]\na = [\n # lead\n 1,\n]\n",
    # containers with four and more elements: removals in the front / middle followed by index-addressed edits
    "[[s]]\nn = 'a' # 1\n[[s]]\nn = 'b' # 2\n[[s]]\nn = 'c'\n[[s]]\nn = 'd'\n", "[[s]]\n[[s]]\n[[s]]\n[[s]]\n[[s]]\nk = 1\n",
    "[x]\n[[x.s]]\nn = 1\n[[x.s]]\nn = 2\n[x.s.sub]\nq = 1\n[[x.s]]\nn = 3\n[[x.s]]\nn = 4\n", "a = [1, 2, 3, 4, 5] # five\n",
    "a = [\n  'a', # 1\n  'b', # 2\n  'c', # 3\n  'd', # 4\n]\n", "[t]\na = 1 # A\nb = 2 # B\nc = 3 # C\nd = 4 # D\ne = 5 # E\n",
    "t = { a = 1, b = 2, c = 3, d = 4, e = 5 }\n", "a = [{n = 1}, {n = 2}, {n = 3}, {n = 4}]\n",
]


def run(ctx):
    translate(ctx)
    mods = ["TomlVerif.Props.C08", "driver"]
    lake_build(ctx, mods, {"TomlVerif.Props.C08": "property theorems"})
    audit(ctx, "TomlVerif.Props.C08", "TomlVerif/Props/C08.lean")
    extra_props(ctx, ['C08Full', 'C08Parsed'])
    if ctx.tier == "thorough":
        leanchecker(ctx, "TomlVerif.Props.C08")
    tvh = cargo_build(ctx)
    if tvh is None:
        ctx.violation("harness does not build against /repo", {"unchecked": "cargo build"}, concrete=False)
        return
    regression_lines(ctx, tvh, ["c08"])
    rng = ctx.rng
    big = ctx.tier != "quick"
    hist = {}
    g = docgen.Gen(rng, hist)
    docs = []   # (bytes, kind, expected plain | None)
    for _ in range(12000 if big else 4000):
        t, tree = g.document()
        docs.append((t.encode(), "generated", docgen.plain(tree)))
    for n, d in corpus_files():
        if n.startswith("valid") and len(d) <= 4000:
            try:
                d.decode()
            except UnicodeDecodeError:
                continue
            for _ in range(3 if big else 1):
                docs.append((d, "corpus:" + n, None))
    for n, d in regression_files():
        docs.append((d, "regression:" + n, None))
    for t in HAND:
        for _ in range(20 if big else 6):
            docs.append((t.encode(), "hand", None))

    # wide documents: 32-90 tables whose tree-walk order differs from file order (interleaved parents), one array of
    # tables in the middle; edited by appending elements (position-less tables next to parsed ones): the printer's
    # position sort must keep the tree-walk order among equal positions
    for _ in range(60 if big else 12):
        n = rng.choice([32, 40, 64, 90])
        parents = rng.sample(["dependencies", "dev-dependencies", "build-dependencies", "target"], rng.choice([2, 3]))
        at = rng.randrange(1, n - 1)
        parts = ["[package]\nname = 'p' # n\n"]
        for i in range(n):
            parts.append(f"[{parents[i % len(parents)] if rng.random() < 0.85 else rng.choice(parents)}.d{i:02}]\nv = {i}\n")
            if i == at:
                parts.append("# the main binary\n[[bin]]\nname = 'b0'\n")
        docs.append(("".join(parts).encode(), "wide", None))

    # arrays with a trailing comma / comments / one element per line, emptied element by element through both removal
    # mutators (`remove`, `retain`) and refilled: the printed array must stay valid whatever the leftover decor
    for t in ["a = [\n  'std',\n  'color',\n]\n", "a = [ 1 , 2 , ]\n", "a = [\n  1, # one\n  2, # two\n]\n", "[f]\na = [\n    'x',\n]\nb = 1\n", "a = [1, 2,]\nb = [\n]\n",
              "a = [\n  [1, 2,],\n  [3,],\n]\n"]:
        for _ in range(12 if big else 4):
            docs.append((t.encode(), "drain", None))

    # pass 1: the unedited document — typed tree in memory and the spans of the original
    uniq = sorted({d for d, _, _ in docs})
    out0, _ = run_pair(ctx, tvh, "c08", [h(d) for d in uniq])
    sp0, _ = run_pair(ctx, tvh, "c14", [h(d) for d in uniq])
    first = dict(zip(uniq, zip(out0, sp0)))

    def rec_of(s):
        st, r = s.split(":", 1)
        return st, dict(x.split("=", 1) for x in r.split(","))

    cases = []   # (doc, kind, expected, ops, m0)
    maxops = 60 if big else 12
    ophist = {}
    for d, kind, exp in docs:
        o0, s0 = first[d]
        if not o0.startswith("init:"):
            if kind == "generated" or kind == "hand":
                ctx.violation(f"{kind} document rejected: {d[:80]!r}", {"mode": "c08", "case": h(d), "impl": o0[:300], "witness": h(d)})
            continue
        m0 = parse_canon(rec_of(o0)[1]["m"])
        ref = clone(m0)
        ops = []
        nops = rng.choice([1, 2, 3, 5, 8, maxops]) if big else rng.randrange(1, maxops + 1)
        if kind == "drain":
            apath = h(b"f") + "/" + h(b"a") if d.startswith(b"[f]") else h(b"a")
            node = nav(ref, apath.split("/"))
            for _ in range(len(node[1])):
                op = [rng.choice(["adelr", "adelr", "adel"]), apath, "0"]
                ops.append(op)
                apply_ref(ref, op)
            if rng.random() < 0.5:
                op = ["push", apath, "i7"]
                ops.append(op)
                apply_ref(ref, op)
            nops = rng.choice([0, 1, 2])
        if kind == "wide":
            for _ in range(rng.choice([2, 3, 4])):
                op = ["tpush", h(b"bin")]
                ops.append(op)
                apply_ref(ref, op)
            nops = rng.choice([0, 1, 2])
        for _ in range(nops):
            op = gen_op(rng, ref)
            ops.append(op)
            apply_ref(ref, op)
        cases.append((d, kind, exp, ops, m0))
    lines = [h(d) + " " + ";".join(" ".join(o) for o in ops) for d, _, _, ops, _ in cases]
    impl, model = run_pair(ctx, tvh, "c08", lines)

    classes = {}
    clean_classes = set()
    stats = {"steps": 0, "applied": 0, "skipped": 0, "tokens_checked": 0, "comments_checked": 0, "order_tables_checked": 0}
    nontriv = set()
    ndis, firstdis = 0, None
    nviol = 0

    def check(d, kind, exp, ops, m0, out, count=True):
        """direct oracles on one implementation output; list of (what, step)"""
        bad = []
        if out.startswith("PANIC") or out == "CRASH":
            return [("panic: " + (unh(out[6:]).decode("utf-8", "replace") if out.startswith("PANIC ") else out)[:200], -1)]
        recs = out.split(" ")
        if len(recs) != len(ops) + 1:
            return [(f"{len(recs)} records for {len(ops)} ops", -1)]
        st, r0 = rec_of(recs[0])
        if r0["t"] == "ERR":
            bad.append(("the unedited print does not parse", 0))
        if exp is not None and plain(m0) != exp:
            bad.append(("the parsed tree differs from the generator's tree", 0))
        facts = original_facts(d, first[d][1], m0)
        ref = clone(m0)
        o0 = parse_canon(r0["o"]) if r0["o"] != "ERR" else None
        tok_e, com_e, sorted_paths, taints = [], [], [], []
        mem_only = False     # after a known class was seen on this sequence only the in-memory oracle (2) goes on
        def moved_class(j, got, want):
            cl = taints[0]
            wl = h(d) + " " + ";".join(" ".join(o) for o in ops[:j])
            clean = len(set(taints)) == 1
            if not clean and cl in classes:
                return bad     # ambiguous attribution: not used as the witness of a class
            if cl not in classes or (clean and cl not in clean_classes) or (clean and len(wl) < len(classes[cl][0])):
                classes[cl] = (wl, got, want)
                if clean:
                    clean_classes.add(cl)
            return bad

        for j, (op, rec) in enumerate(zip(ops, recs[1:]), 1):
            st, r = rec_of(rec)
            before = clone(ref)
            applied = apply_ref(ref, op)
            if count:
                stats["steps"] += 1
                stats["applied" if applied else "skipped"] += 1
                ophist[op[0] + (":ok" if applied else ":skip")] = ophist.get(op[0] + (":ok" if applied else ":skip"), 0) + 1
            if st != ("ok" if applied else "skip"):
                bad.append((f"op {' '.join(op)!r}: implementation says {st}, the reference says {'ok' if applied else 'skip'}", j))
                break
            if applied:
                taints.extend(taint_of(before, ref, op))
            if applied:
                te, ce = edit_paths(before, op)
                tok_e += [norm_path(x) for x in te]
                com_e += [norm_path(x) for x in te + ce]
                if op[0] == "sort":
                    sorted_paths.append(norm_path([] if op[1] == "." else op[1].split("/")))
            # (2) memory
            if r["m"] != canon(ref):
                bad.append((f"after {' '.join(op)!r}: the tree in memory differs from the reference tree: {r['m'][:300]} vs {canon(ref)[:300]}", j))
                break
            if mem_only:
                continue
            # (1) valid
            if r["t"] == "ERR":
                ptxt = unh(r["p"])
                if op[0] in ("tbl", "arr2aot") and HDR_DECOR.search(ptxt):
                    cl = "class:header-prints-keyvalue-decor"
                    wl = h(d) + " " + ";".join(" ".join(o) for o in ops[:j])
                    if cl not in classes or len(wl) < len(classes[cl][0]):
                        classes[cl] = (wl, ptxt.decode("utf-8", "replace"), "a document that parses")
                    mem_only = True
                    continue
                if taints:
                    moved_class(j, ptxt.decode("utf-8", "replace"), "a document that parses")
                    mem_only = True
                    continue
                bad.append((f"after {' '.join(op)!r}: the printed document is not valid TOML", j))
                break
            # (2') content of the print
            if r["t"] != plain(ref):
                pr = prune(ref)
                if pr is not None and r["t"] == plain(pr) or pr is None and r["t"] == "{}":
                    cl = "class:empty-container-not-printed"
                    wl = h(d) + " " + ";".join(" ".join(o) for o in ops[:j])
                    if cl not in classes or len(wl) < len(classes[cl][0]):
                        classes[cl] = (wl, r["t"], plain(ref))
                elif taints:
                    moved_class(j, r["t"], plain(ref))
                    mem_only = True
                    continue
                else:
                    bad.append((f"after {' '.join(op)!r}: the printed document decodes to {r['t'][:300]}, the edited content is {plain(ref)[:300]}", j))
                    break
            p = unh(r["p"])
            # (3) order of untouched survivors
            if o0 is not None:
                cur = parse_canon(r["o"])

                def walk(a, b, path):
                    if a[0] in "TI" and b[0] in "TI":
                        ka = [norm_path([k])[0] for k, _ in a[1]]
                        kbs = [norm_path([k])[0] for k, _ in b[1]]
                        if not any(related(path, sp) and len(sp) <= len(path) for sp in sorted_paths):
                            s = [k for k in ka if k in kbs and not any(related(path + (k,), e) for e in com_e)]
                            s2 = [k for k in kbs if k in s]
                            if count:
                                stats["order_tables_checked"] += 1
                            if s != s2:
                                return f"table {'/'.join(path) or '.'}: untouched entries {s} now come in the order {s2}"
                        for k, x in a[1]:
                            y = child(b, k)
                            if y is not None and not any(related(path + (norm_path([k])[0],), e) and len(e) <= len(path) + 1 for e in com_e):
                                w = walk(x, y, path + (norm_path([k])[0],))
                                if w:
                                    return w
                    elif a[0] in "AL" and b[0] in "AL" and len(a[1]) == len(b[1]):
                        for i, (x, y) in enumerate(zip(a[1], b[1])):
                            w = walk(x, y, path + (str(i),))
                            if w:
                                return w
                    return None
                w = walk(o0, cur, ())
                if w and taints:
                    moved_class(j, w, "the original relative order")
                    mem_only = True
                    continue
                if w:
                    bad.append((f"after {' '.join(op)!r}: {w}", j))
                    break
            # (4) untouched text
            if facts is not None:
                tokens, comments = facts
                for path, tok in tokens:
                    if not any(related(path, e) for e in tok_e):
                        if count:
                            stats["tokens_checked"] += 1
                        if tok not in p:
                            bad.append((f"after {' '.join(op)!r}: the spelling {tok!r} of the untouched entry {'/'.join(path)} is gone", j))
                            break
                else:
                    for owner, body in comments:
                        if owner is None or not any(related(owner, e) for e in com_e):
                            if count:
                                stats["comments_checked"] += 1
                            if body not in p:
                                bad.append((f"after {' '.join(op)!r}: the comment {body!r} (attached to {'/'.join(owner) if owner else 'the end of the document'}) is lost", j))
                                break
                if bad:
                    break
        return bad

    for (d, kind, exp, ops, m0), ln, i, m in zip(cases, lines, impl, model):
        bad = check(d, kind, exp, ops, m0, i)
        if any(o != "skip" for o in [x.split(":", 1)[0] for x in i.split(" ")[1:]]):
            nontriv.add(ln)
        if bad and nviol < 40:
            nviol += 1
            what, step = bad[0]
            # reduce the op list
            red = list(ops)
            if step > 0:
                red = red[:step]

            def fails(cand):
                l2 = h(d) + " " + ";".join(" ".join(o) for o in cand)
                rc, o2, _ = run_lines(tvh, "c08", [l2])
                return bool(o2) and bool(check(d, kind, exp, cand, m0, o2[0], count=False))
            if len(red) > 1 and nviol <= 8:
                red = ddmin(red, fails, 200)
                rc, o2, _ = run_lines(tvh, "c08", [h(d) + " " + ";".join(" ".join(o) for o in red)])
                b2 = check(d, kind, exp, red, m0, o2[0], count=False)
                if b2:
                    what = b2[0][0]
            wl = h(d) + " " + ";".join(" ".join(o) for o in red)
            ctx.violation(f"{kind} {d[:60]!r} ops {[' '.join(o) for o in red]}: {what}",
                          {"mode": "c08", "case": wl, "text": d.decode("utf-8", "replace")[:3000], "ops": [" ".join(o) for o in red], "impl": i[:3000], "model": m[:3000], "witness": wl})
        elif bad:
            nviol += 1
        if i != m:
            ndis += 1
            if firstdis is None or len(ln) < len(firstdis[0]):
                firstdis = (ln, i[:300], m[:300])
    CLASS_TEXT = {
        "class:value-with-comment-decor-into-inline-table": "a value taken out of a key/value line keeps its decor (trailing comment); InlineTable::insert prints it inside the braces: the document becomes invalid",
        "class:new-table-below-dotted-table-printed-before-its-parent": "a table without a position inserted below a dotted table takes the position of the table visited before it, which can sort before the header whose body defines the dotted table: the document becomes invalid",
        "class:moved-table-keeps-position": "a table removed and inserted elsewhere keeps its document position: its header is printed where the old position sorts, which can precede the [[array]] header it now belongs to (invalid document) or follow a later array element (the table changes owner)",
        "class:empty-container-not-printed": "containers that become empty are not printed (empty array of tables, childless implicit or dotted table)",
        "class:header-prints-keyvalue-decor": "an inline table / array turned into a table / array of tables in place keeps the key's key-value decor (comments, blank lines before the key), which the header prints inside the brackets: the document becomes invalid",
    }
    for cl, (wl, got, want) in classes.items():
        ctx.violation(f"{CLASS_TEXT[cl]}: the print is {got[:300]!r}, expected {want[:200]}", {"mode": "c08", "case": wl, "witness": cl})
    ctx.oblige("correspondence c08: after every op, printed text / re-parsed tree / tree in memory of the model (Model/Edit.lean on the decorated tree + encode.rs model) = the implementation",
               ndis == 0, f"{ndis} disagreements; shortest: {firstdis}")
    if ctx.broken and not ctx.violations:
        for n, dd in ctx.broken:
            ctx.violation(f"obligation no longer checks: {n}", {"unchecked": n, "detail": dd[:1500], "searched": f"{len(cases)} edit sequences"}, concrete=False)
    ctx.cov.update({
        "evaluations": len(cases), "distinct_nontrivial": len(nontriv),
        "rule": "valid starting documents (grammar-generated with every layout variant, toml-test valid files up to 4000 bytes, regressions, hand-written layouts) x random op sequences (1-12 ops, thorough up to 60) whose paths are drawn from the evolving reference tree (90%) or made unresolvable / ill-typed (10%); every step is checked; non-trivial = at least one op applied",
        "samples": lines[:2] and [lines[0][:300], lines[len(lines) // 2][:300]],
        "op_histogram": dict(sorted(ophist.items())), "doc_constructor_histogram": hist, **stats,
        "violating_sequences": nviol, "known_classes_seen": sorted(classes), "traces_validated_against_impl": len(cases), "disagreements": ndis,
    })
