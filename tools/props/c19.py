"""C19 — the `toml!` macro and the run-time parser build the same table.

The implementation side of this check is a COMPILED PROGRAM per batch: random TOML documents
(restricted to spellings that rustc tokenises the way TOML reads them) are embedded twice in a
generated crate — inside `toml::toml!{ … }` and as a string literal that is parsed at run time —
and the program prints a canonical one-line form of both tables.

oracles
  * direct:       macro tree == parsed tree                      (that IS the property)
  * generator:    both == the tree the generator intended to write (independent Python builder)
  * correspondence: macro tree == tree computed by the Lean model of the tt-muncher
                  (TomlVerif/Model/Macro.lean, driver mode c19) on the same text

domain (what "token shapes the macro supports" means here; every exclusion was probed against rustc):
  keys      bare keys made of identifiers / canonical decimal numbers joined by `-`; quoted "…" keys;
            one-character '…' keys.  NOT: a digit-only segment directly followed by `.` and another
            digit segment (rustc lexes `1.2` as one float), keys starting/ending with `-`, `--`, `_`.
  strings   basic strings whose escapes mean the same in Rust and TOML (\\t \\n \\r \\" \\\\); one-character
            literal strings 'x' (a Rust char literal).  NOT: multi-line / longer literal strings, \\uXXXX.
  integers  i32 range only (an unsuffixed Rust literal is an i32; larger literals do not compile).
  floats    dec.frac, exponent forms, inf/nan with optional sign.
  datetimes the four kinds, `T`/`t`/space, `Z`/`z`/negative offsets.  NOT: positive offsets `+hh:mm`
            (no macro arm; does not compile).
  tables    inline tables without trailing comma / newline (TOML 1.0), arrays with newlines and
            trailing comma, dotted keys, `[table]` and `[[array]]` headers, super-table after
            sub-table (class F8), headers through dotted tables and through arrays of tables.
"""
import os, struct, shutil, re
from vlib import *

IDENTS = ["a", "b", "c", "d", "x", "y", "z", "k", "key", "name", "value", "type", "in", "fn", "let", "self",
          "true", "false", "inf", "nan", "T", "Z", "e3", "_a", "a_b", "A1", "package", "dependencies", "serde",
          "fruit", "variety", "physical", "target", "bin", "x1", "E", "r", "b0", "crate", "Self", "u8"]
DIGITKEYS = ["0", "1", "2", "7", "10", "42", "123", "2024", "4294967296"]
QCHARS = list("abcXYZ019 .-_=[]{}#,:+*/()<>!?@$%^&~|;`") + ["é", "ß", "日", "本", "😀", " ", " ", "'"]
ESCAPES = ["\\n", "\\t", "\\r", "\\\"", "\\\\"]
ESCVAL = {"\\n": "\n", "\\t": "\t", "\\r": "\r", "\\\"": "\"", "\\\\": "\\"}
CHARLITS = list("axZ09 .-_=#\"[]{}") + ["é", "日", "😀"]

I32MAX = 2147483647


def canon_str(s):
    return "s" + h(s)


def f64_bits(text):
    return struct.unpack(">Q", struct.pack(">d", float(text)))[0]


class Gen:
    """writes documents and, independently of any TOML code, the tree they denote"""

    def __init__(self, rng, hist):
        self.rng = rng
        self.hist = hist

    def count(self, k):
        self.hist[k] = self.hist.get(k, 0) + 1

    # ---- lexical pieces ------------------------------------------------------------------
    def quoted(self, maxlen=6):
        rng = self.rng
        n = rng.choice([0, 1, 1, 2, 3, 3, 4, maxlen])
        src, val = "", ""
        for _ in range(n):
            if rng.random() < 0.2:
                e = rng.choice(ESCAPES)
                src += e
                val += ESCVAL[e]
            else:
                c = rng.choice(QCHARS)
                src += c
                val += c
        return '"' + src + '"', val

    def charlit(self):
        c = self.rng.choice(CHARLITS)
        return "'" + c + "'", c

    def bare_key(self):
        """returns (source, key text, starts_with_digit_segment, ends_with_digit_segment)"""
        rng = self.rng
        nparts = rng.choice([1, 1, 1, 1, 2, 2, 3])
        parts = []
        for _ in range(nparts):
            if rng.random() < 0.15:
                parts.append(rng.choice(DIGITKEYS))
            else:
                parts.append(rng.choice(IDENTS))
        sep = "-"          # TOML bare keys cannot contain blanks
        src = sep.join(parts)
        return src, "-".join(parts), parts[0].isdigit(), parts[-1].isdigit()

    def key_segment(self):
        """one segment of a dotted key: (source, text, ends_with_digit_token)"""
        rng = self.rng
        r = rng.random()
        if r < 0.75:
            src, txt, sd, ed = self.bare_key()
            self.count("key:bare-digit" if txt.isdigit() else ("key:hyphen" if "-" in txt else "key:ident"))
            return src, txt, ed
        if r < 0.95:
            src, val = self.quoted()
            self.count("key:quoted")
            return src, val, False
        src, val = self.charlit()
        self.count("key:charlit")
        return src, val, False

    def join_path(self, segs):
        """segs: list of (source, text, ends_with_digit_token). rustc lexes `1.` and `1.2` as float literals, so a
        segment that ends in a number token is followed by ` .` unless an identifier follows the dot directly"""
        rng = self.rng
        out = segs[0][0]
        for prev, nxt in zip(segs, segs[1:]):
            if prev[2]:
                opts = [" . ", " ."]
                if re.match(r"[A-Za-z_]", nxt[0]):
                    opts += ["."]
            else:
                opts = [".", ".", ".", " . ", " .", ". "]
            out += rng.choice(opts) + nxt[0]
        return out

    def dotted_key(self, maxseg=3):
        rng = self.rng
        n = min(rng.choice([1, 1, 1, 2, 2, 3]), maxseg)
        segs = [self.key_segment() for _ in range(n)]
        if n > 1:
            self.count("key:dotted")
        return self.join_path(segs), [t for _, t, _ in segs]

    # ---- scalars -------------------------------------------------------------------------
    def us(self, digits):
        """insert underscores between digits sometimes"""
        if len(digits) > 1 and self.rng.random() < 0.2:
            i = self.rng.randrange(1, len(digits))
            return digits[:i] + "_" + digits[i:]
        return digits

    def integer(self):
        rng = self.rng
        r = rng.random()
        if r < 0.6:
            n = rng.choice([0, 1, 2, 7, 10, 42, 255, 1000, 65535, 123456, I32MAX, I32MAX - 1, rng.randrange(I32MAX)])
            sign = rng.choice(["", "", "", "-", "-", "+"])
            if sign == "-" and rng.random() < 0.1:
                n = I32MAX + 1
            self.count("int:dec" + ("-" if sign == "-" else "+" if sign == "+" else ""))
            return sign + self.us(str(n)), "i" + str(-n if sign == "-" else n)
        base, pre, digs = rng.choice([(16, "0x", "0123456789abcdefABCDEF"), (8, "0o", "01234567"), (2, "0b", "01")])
        while True:
            k = rng.randrange(1, {16: 8, 8: 10, 2: 31}[base] + 1)
            ds = "".join(rng.choice(digs) for _ in range(k))
            if int(ds, base) <= I32MAX:
                break
        self.count("int:" + pre)
        return pre + self.us(ds), "i" + str(int(ds, base))

    def float_(self):
        rng = self.rng
        r = rng.random()
        sign = rng.choice(["", "", "", "-", "-", "+"])
        if r < 0.15:
            w = rng.choice(["inf", "nan"])
            self.count("float:" + sign + w)
            if w == "inf":
                bits = 0xFFF0000000000000 if sign == "-" else 0x7FF0000000000000
            else:
                bits = 0xFFF8000000000000 if sign == "-" else 0x7FF8000000000000
            return sign + w, "f%016x" % bits
        if r < 0.3:
            body = rng.choice(["0.0", "1.0", "0.1", "0.5", "1.5", "3.14159", "6.02e23", "1e3", "1E3", "1e-3", "1E+3", "1e+03", "5e-324",
                               "1e-400", "2.5e-324", "1.7976931348623157e308", "1e308", "2.2250738585072014e-308", "4.9e-324",
                               "0.1000000000000000055511151231257827", "9007199254740993.0", "9007199254740992.5",
                               "0.30000000000000004", "123456789012345678901234567890.0", "1.0e0", "0e0", "0.0e-0",
                               "8.98846567431158e307", "1_000.000_1", "1e1_0", "0.000001", "100000000000000000000000.0",
                               "2.4703282292062327e-324", "2.4703282292062328e-324", "1.00000000000000011102230246251565404236316680908203125",
                               "1.00000000000000011102230246251565404236316680908203124", "1.00000000000000011102230246251565404236316680908203126"])
            self.count("float:edge")
        else:
            ip = self.us(str(rng.choice([0, 1, 3, 10, 123, rng.randrange(10 ** rng.randrange(1, 18))])))
            form = rng.randrange(3)
            fp = self.us("".join(rng.choice("0123456789") for _ in range(rng.randrange(1, rng.choice([3, 8, 20])))))
            ex = rng.choice(["e", "E"]) + rng.choice(["", "+", "-"]) + str(rng.choice([0, 1, 2, 5, 10, 22, 100, 300, rng.randrange(0, 290)]))
            if form == 0:
                body = ip + "." + fp
            elif form == 1:
                body = ip + "." + fp + ex
            else:
                body = ip + ex
            self.count("float:" + ["frac", "frac-exp", "exp"][form])
        try:
            bits = f64_bits((sign + body).replace("_", ""))
        except OverflowError:
            return self.float_()
        if (bits & 0x7FFFFFFFFFFFFFFF) == 0x7FF0000000000000:
            return self.float_()          # rounds to infinity: rejected by both sides (not a document)
        return sign + body, "f%016x" % bits

    def datetime(self):
        rng = self.rng
        y = rng.choice([0, 1, 1979, 2000, 2024, 9999, rng.randrange(10000)])
        mo = rng.randrange(1, 13)
        leap = y % 4 == 0 and (y % 100 != 0 or y % 400 == 0)
        md = [31, 29 if leap else 28, 31, 30, 31, 30, 31, 31, 30, 31, 30, 31][mo - 1]
        d = rng.choice([1, md, rng.randrange(1, md + 1)])
        hh, mi, ss = rng.choice([0, 7, 8, 9, 23, rng.randrange(24)]), rng.choice([0, 32, 59, rng.randrange(60)]), rng.choice([0, 59, 60, rng.randrange(61)])
        frac = ""
        if rng.random() < 0.45:
            frac = "." + rng.choice(["5", "25", "999999", "000000001", "123456789", "1234567891", "999999999999", "0", "000",
                                     "".join(rng.choice("0123456789") for _ in range(rng.randrange(1, 13)))])
        date = f"{y:04}-{mo:02}-{d:02}"
        time = f"{hh:02}:{mi:02}:{ss:02}{frac}"
        ns = int((frac[1:10]).ljust(9, "0")) if frac else 0
        dd = date
        tt = f"{hh:02}:{mi:02}:{ss:02}" + (("." + f"{ns:09}".rstrip("0")) if ns else "")
        kind = rng.choice(["odt", "odt", "ldt", "ld", "lt"])
        sep = rng.choice(["T", "T", "t", " "])
        if kind == "odt":
            if rng.random() < 0.5:
                off, offd = rng.choice([("Z", "Z"), ("z", "Z")])
            else:
                oh, om = rng.choice([0, 7, 23, rng.randrange(24)]), rng.choice([0, 30, 59, rng.randrange(60)])
                off = f"-{oh:02}:{om:02}"
                offd = ("+" if oh == 0 and om == 0 else "-") + f"{oh:02}:{om:02}"
            self.count(f"dt:odt{'-frac' if frac else ''}{'-space' if sep == ' ' else ''}{'-off' if off[0] == '-' else '-z'}")
            return date + sep + time + off, "d" + dd + "T" + tt + offd
        if kind == "ldt":
            self.count(f"dt:ldt{'-frac' if frac else ''}{'-space' if sep == ' ' else ''}")
            return date + sep + time, "d" + dd + "T" + tt
        if kind == "ld":
            self.count("dt:ld")
            return date, "d" + dd
        self.count(f"dt:lt{'-frac' if frac else ''}")
        return time, "d" + tt

    def string(self):
        if self.rng.random() < 0.12:
            src, val = self.charlit()
            self.count("str:charlit")
            return src, canon_str(val)
        src, val = self.quoted(maxlen=12)
        self.count("str:basic")
        return src, canon_str(val)

    def scalar(self):
        r = self.rng.random()
        if r < 0.22:
            return self.integer()
        if r < 0.40:
            return self.float_()
        if r < 0.50:
            b = self.rng.random() < 0.5
            self.count("bool")
            return ("true" if b else "false"), ("b1" if b else "b0")
        if r < 0.75:
            return self.datetime()
        return self.string()

    # ---- values --------------------------------------------------------------------------
    def value(self, depth):
        rng = self.rng
        r = rng.random()
        if depth <= 0 or r < 0.7:
            return self.scalar()
        if r < 0.86:
            return self.array(depth - 1)
        return self.inline_table(depth - 1)

    def array(self, depth):
        rng = self.rng
        n = rng.choice([0, 1, 2, 3, 3, 5])
        items = [self.value(depth) for _ in range(n)]
        nl = rng.random() < 0.3
        sep = ",\n  " if nl else rng.choice([", ", ",", " , "])
        body = sep.join(s for s, _ in items)
        trailing = n > 0 and rng.random() < 0.35
        if trailing:
            body += ","
        self.count("array" + ("-empty" if n == 0 else "") + ("-trailing-comma" if trailing else "") + ("-newlines" if nl else ""))
        pad = "\n" if nl else rng.choice(["", " "])
        return "[" + pad + body + pad + "]", "[" + ";".join(c for _, c in items) + "]"

    def inline_table(self, depth):
        rng = self.rng
        n = rng.choice([0, 1, 2, 2, 3, 4])
        tree = {}
        parts = []
        for _ in range(n):
            for _ in range(10):
                ksrc, segs = self.dotted_key(maxseg=2)
                if can_put(tree, segs):
                    break
            else:
                continue
            vsrc, vcan = self.value(depth)
            put(tree, segs, vcan)
            parts.append(ksrc + rng.choice([" = ", "=", " ="]) + vsrc)
        self.count("inline-table" + ("-empty" if not parts else ""))
        pad = rng.choice(["", " "])
        return "{" + pad + rng.choice([", ", ","]).join(parts) + pad + "}", canon_tree(tree)


# ---- the generator's own tree builder (no TOML library involved) ----------------------------

class Node:
    """a table under construction. kind: 'hdr' (defined by a header), 'imp' (super-table created by a header),
    'dot' (created by a dotted key), each with the section number that created it"""
    __slots__ = ("kind", "items", "section")

    def __init__(self, kind, section):
        self.kind = kind
        self.items = {}
        self.section = section


class Aot:
    __slots__ = ("tables",)

    def __init__(self):
        self.tables = []


def can_put(tree, segs):
    """plain nested dict used inside inline tables: intermediate segments must be dicts created here"""
    cur = tree
    for s in segs[:-1]:
        if s in cur:
            if not isinstance(cur[s], dict):
                return False
            cur = cur[s]
        else:
            return True
    return segs[-1] not in cur


def put(tree, segs, vcan):
    cur = tree
    for s in segs[:-1]:
        cur = cur.setdefault(s, {})
    cur[segs[-1]] = vcan


def canon_tree(t):
    if isinstance(t, str):
        return t
    if isinstance(t, dict):
        items = t
    elif isinstance(t, Node):
        items = t.items
    elif isinstance(t, Aot):
        return "[" + ";".join(canon_tree(x) for x in t.tables) + "]"
    else:
        raise TypeError(t)
    return "{" + ";".join(h(k) + "=" + canon_tree(items[k]) for k in sorted(items, key=lambda k: k.encode("utf-8"))) + "}"


class Doc:
    def __init__(self, g):
        self.g = g
        self.root = Node("hdr", 0)
        self.section = 0
        self.cur = self.root
        self.lines = []
        self.headers = []        # paths of the headers in order
        self.f8 = False          # a header re-opens a table an earlier header created implicitly
        self.feat = set()

    def kv(self, depth):
        g = self.g
        for _ in range(10):
            ksrc, segs = g.dotted_key()
            cur = self.cur
            ok = True
            for s in segs[:-1]:
                nxt = cur.items.get(s)
                if nxt is None:
                    break
                if not (isinstance(nxt, Node) and nxt.kind == "dot" and nxt.section == self.section):
                    ok = False
                    break
                cur = nxt
            else:
                ok = segs[-1] not in cur.items
            if ok:
                break
        else:
            return
        vsrc, vcan = g.value(depth)
        cur = self.cur
        for s in segs[:-1]:
            if s not in cur.items:
                cur.items[s] = Node("dot", self.section)
            cur = cur.items[s]
        cur.items[segs[-1]] = vcan
        ind = g.rng.choice(["", "", "  "])
        self.lines.append(ind + ksrc + g.rng.choice([" = ", "=", " =", "= "]) + vsrc)

    def header(self, prefer_existing):
        """try to add a [table] or [[array]] header; returns True on success"""
        g, rng = self.g, self.g.rng
        aot = rng.random() < 0.4
        # choose a path: extend / truncate / repeat an earlier header path, or a fresh one
        if self.headers and rng.random() < prefer_existing:
            base = list(rng.choice(self.headers))
            r = rng.random()
            if r < 0.35 and len(base) > 1:
                path = base[:rng.randrange(1, len(base))]          # super-table after sub-table
            elif r < 0.7:
                path = base + [g.key_segment()]
            else:
                path = base
        else:
            path = [g.key_segment() for _ in range(rng.choice([1, 1, 2, 2, 3]))]
        # walk the intermediate segments, creating implicit super-tables
        cur = self.root
        created = []
        ok = True
        for (_, seg, _) in path[:-1]:
            n2 = cur.items.get(seg)
            if n2 is None:
                n2 = Node("imp", self.section + 1)
                created.append((cur, seg))
                cur.items[seg] = n2
                cur = n2
            elif isinstance(n2, Aot):
                cur = n2.tables[-1]
            elif isinstance(n2, Node):
                cur = n2
            else:
                ok = False
                break
        f8 = False
        if ok:
            last = path[-1][1]
            ex = cur.items.get(last)
            if aot:
                if ex is None:
                    ex = Aot()
                    cur.items[last] = ex
                if isinstance(ex, Aot):
                    ex.tables.append(Node("hdr", self.section + 1))
                    target = ex.tables[-1]
                else:
                    ok = False
            else:
                if ex is None:
                    target = Node("hdr", self.section + 1)
                    cur.items[last] = target
                elif isinstance(ex, Node) and ex.kind == "imp":
                    ex.kind = "hdr"
                    target = ex
                    f8 = True
                else:
                    ok = False
        if not ok:
            for (c, sg) in reversed(created):
                del c.items[sg]
            return False
        self.section += 1
        self.cur = target
        self.f8 = self.f8 or f8
        if f8:
            self.feat.add("super-after-sub")
        if aot:
            self.feat.add("aot")
        self.headers.append(list(path))
        inner = g.join_path(path)
        pad = rng.choice(["", "", " "])
        self.lines.append(("[[" + pad + inner + pad + "]]") if aot else ("[" + pad + inner + pad + "]"))
        g.count("header:aot" if aot else "header:table")
        if f8:
            g.count("header:super-after-sub")
        return True

    def text(self):
        out = []
        for ln in self.lines:
            if self.g.rng.random() < 0.1:
                out.append("")
            out.append(ln)
        return "\n".join(out) + "\n"


def gen_doc(g, rng):
    d = Doc(g)
    shape = rng.random()
    nroot = rng.choice([0, 1, 2, 3]) if shape > 0.15 else rng.choice([1, 4, 6])
    for _ in range(nroot):
        d.kv(rng.choice([0, 1, 2, 2, 3]))
    nsec = 0 if shape < 0.15 else rng.choice([0, 1, 2, 3, 4, 6])
    pe = rng.choice([0.3, 0.6, 0.9])
    for _ in range(nsec):
        for _ in range(6):
            if d.header(pe):
                break
        else:
            continue
        for _ in range(rng.choice([0, 1, 1, 2, 3])):
            d.kv(rng.choice([0, 1, 2]))
    if not d.lines:
        d.kv(1)
    if not d.lines:
        d.lines.append("a = 1")
        d.root.items["a"] = "i1"
    return d


# ---- fixed documents: regressions and the hand-written shapes of the macro's own tests -------------

FIXED = [
    # (name, text, expected canonical or None = take the parser's)
    ("F8", "[a.b]\nx = 1\n[a]\ny = 2\n", None),
    ("F8-aot", "[[a.b]]\n[a]\ny = 1\n", None),
    ("F8-deep", "[[f]]\n[f.p.q]\nx = 1\n[f.p]\ny = 2\n", None),
    ("K1-leading-zero-key", "007 = 1\n", None),
    ("K1-hex-key", "0x10 = 1\n", None),
    ("K1-float-key", "a.1.2 = 3\n", None),
    ("spec-fruit", "[[fruit]]\nname = \"apple\"\n[fruit.physical]\ncolor = \"red\"\nshape = \"round\"\n[[fruit.variety]]\nname = \"red delicious\"\n[[fruit.variety]]\nname = \"granny smith\"\n[[fruit]]\nname = \"banana\"\n[[fruit.variety]]\nname = \"plantain\"\n", None),
    ("numbers", "positive = 1\nnegative = -1\ntable = { positive = 1, negative = -1 }\narray = [ 1, -1 ]\nneg_zero = -0\npos_zero = +0\nfloat = 1.618\nsf1 = inf\nsf2 = +inf\nsf3 = -inf\nsf4 = nan\nsf5 = +nan\nsf6 = -nan\nsf7 = +0.0\nsf8 = -0.0\nhex = 0xa_b_c\noct = 0o755\nbin = 0b11010110\n", None),
    ("datetimes", "odt1 = 1979-05-27T07:32:00Z\nodt2 = 1979-05-27T00:32:00-07:00\nodt3 = 1979-05-27T00:32:00.999999-07:00\nodt4 = 1979-05-27 07:32:00Z\nldt1 = 1979-05-27T07:32:00\nldt2 = 1979-05-27T00:32:00.999999\nld1 = 1979-05-27\nlt1 = 07:32:00\nlt2 = 00:32:00.999999\ntable = { odt1 = 1979-05-27T07:32:00Z, odt2 = 1979-05-27T00:32:00-07:00, odt3 = 1979-05-27T00:32:00.999999-07:00, odt4 = 1979-05-27 07:32:00Z, ldt1 = 1979-05-27T07:32:00, ldt2 = 1979-05-27T00:32:00.999999, ld1 = 1979-05-27, lt1 = 07:32:00, lt2 = 00:32:00.999999 }\narray = [\n 1979-05-27T07:32:00Z,\n 1979-05-27T00:32:00-07:00,\n 1979-05-27T00:32:00.999999-07:00,\n 1979-05-27 07:32:00Z,\n 1979-05-27T07:32:00,\n 1979-05-27T00:32:00.999999,\n 1979-05-27,\n 07:32:00,\n 00:32:00.999999,\n]\n", None),
    ("quoted", "\"quoted\" = true\ntable = { \"quoted\" = true }\n[target.\"cfg(windows)\".dependencies]\nwinapi = \"0.2.8\"\n", None),
    ("empty", "empty_inline_table = {}\nempty_inline_array = []\n[empty_table]\n[[empty_array]]\n", None),
    ("dotted", "a.b = 123\na.c = 1979-05-27T07:32:00Z\n[table]\na.b.c = 1\na  .  b  .  d = 2\nin = { type.name = \"cat\", type.color = \"blue\" }\n", None),
    ("dotted-then-header", "a.b = 1\n[a.c]\nx = 1\n", None),
    ("aot-reenter", "[[a]]\nx = 1\n[a.b]\ny = 1\n[[a]]\n[a.b]\nz = 2\n", None),
]
# classes of fixed witnesses that are reported under one stable witness string
CLASS_WITNESS = {
    "F8": "toml!{ [a.b] x = 1 [a] y = 2 }",
    "K1": "toml!{ 007 = 1 }",
}


PROGRAM_HEAD = r'''#![recursion_limit = "2048"]
#![allow(unused)]
// GENERATED by tools/props/c19.py — documents embedded in toml!{} and as text
use std::fmt::Write;

fn hex(s: &str, out: &mut String) {
    if s.is_empty() { out.push('-'); }
    for b in s.bytes() { write!(out, "{:02x}", b).unwrap(); }
}

fn canon(v: &toml::Value, out: &mut String) {
    match v {
        toml::Value::String(s) => { out.push('s'); hex(s, out); }
        toml::Value::Integer(i) => { write!(out, "i{}", i).unwrap(); }
        toml::Value::Float(f) => { write!(out, "f{:016x}", f.to_bits()).unwrap(); }
        toml::Value::Boolean(b) => { out.push_str(if *b { "b1" } else { "b0" }); }
        toml::Value::Datetime(d) => { write!(out, "d{}", d).unwrap(); }
        toml::Value::Array(a) => {
            out.push('[');
            for (i, x) in a.iter().enumerate() { if i > 0 { out.push(';'); } canon(x, out); }
            out.push(']');
        }
        toml::Value::Table(t) => canon_table(t, out),
    }
}

fn canon_table(t: &toml::Table, out: &mut String) {
    let mut keys: Vec<&String> = t.keys().collect();
    keys.sort_by(|a, b| a.as_bytes().cmp(b.as_bytes()));
    out.push('{');
    for (i, k) in keys.iter().enumerate() {
        if i > 0 { out.push(';'); }
        hex(k, out);
        out.push('=');
        canon(&t[k.as_str()], out);
    }
    out.push('}');
}
'''

PROGRAM_TAIL = r'''
fn main() {
    std::panic::set_hook(Box::new(|_| {}));
    for (i, (f, src)) in DOCS.iter().enumerate() {
        let m = match std::panic::catch_unwind(|| f()) {
            Ok(t) => { let mut s = String::new(); canon_table(&t, &mut s); s }
            Err(_) => "PANIC".to_string(),
        };
        let p = match src.parse::<toml::Table>() {
            Ok(t) => { let mut s = String::new(); canon_table(&t, &mut s); s }
            Err(_) => "ERR".to_string(),
        };
        println!("{} {} {}", i, m, p);
    }
}
'''


def write_program(dirpath, name, texts, build_dir):
    os.makedirs(os.path.join(dirpath, "src"), exist_ok=True)
    os.makedirs(os.path.join(dirpath, ".cargo"), exist_ok=True)
    with open(os.path.join(dirpath, "Cargo.toml"), "w") as f:
        f.write(f'[package]\nname = "{name}"\nversion = "0.0.0"\nedition = "2021"\n\n[workspace]\n\n[dependencies]\ntoml = {{ path = "{REPO}/crates/toml" }}\n')
    with open(os.path.join(dirpath, ".cargo", "config.toml"), "w") as f:
        f.write(f'[net]\noffline = true\n\n[build]\ntarget-dir = "{build_dir}"\n')
    try:
        shutil.copyfile(os.path.join(REPO, "Cargo.lock"), os.path.join(dirpath, "Cargo.lock"))
    except OSError:
        pass
    src = [PROGRAM_HEAD]
    for i, t in enumerate(texts):
        assert '"####' not in t
        src.append(f"fn doc{i}() -> toml::Table {{ toml::toml! {{\n{t}}} }}\n")
        src.append(f'const SRC{i}: &str = r####"{t}"####;\n')
    src.append(f"static DOCS: [(fn() -> toml::Table, &str); {len(texts)}] = [" + ", ".join(f"(doc{i}, SRC{i})" for i in range(len(texts))) + "];\n")
    src.append(PROGRAM_TAIL)
    with open(os.path.join(dirpath, "src", "main.rs"), "w") as f:
        f.write("".join(src))


def run_program(dirpath, n):
    """returns (ok, lines | error text)"""
    rc, out, err = sh(["cargo", "run", "--offline", "-q"], cwd=dirpath, timeout=3000)
    if rc != 0:
        errs = [l for l in err.split("\n") if l.strip()]
        first = next((i for i, l in enumerate(errs) if l.startswith("error")), 0)
        return False, "\n".join(errs[first:first + 12])
    lines = [l for l in out.split("\n") if l]
    if len(lines) != n:
        return False, f"{len(lines)} output lines for {n} documents; stderr: {err[-300:]}"
    res = []
    for i, l in enumerate(lines):
        p = l.split(" ")
        if len(p) != 3 or p[0] != str(i):
            return False, f"malformed output line {i}: {l[:200]}"
        res.append((p[1], p[2]))
    return True, res


def run(ctx):
    translate(ctx)
    mods = ["TomlVerif.Gen.CheckMacro", "TomlVerif.Props.C19", "driver"]
    lake_build(ctx, mods, {"TomlVerif.Gen.CheckMacro": "tie: the arms of toml_internal! in /repo, in order, are the arms the model implements",
                     "TomlVerif.Props.C19": "property theorems"})
    audit(ctx, "TomlVerif.Props.C19", "TomlVerif/Props/C19.lean")
    extra_props(ctx, ["C19Full", "C19Text"])
    if ctx.tier == "thorough":
        leanchecker(ctx, "TomlVerif.Props.C19")
    rng = ctx.rng
    hist = {}
    g = Gen(rng, hist)
    nprog, ndoc = (4, 150) if ctx.tier == "quick" else (60, 200)
    build_dir = os.path.join(BUILD, "c19")
    progs = []
    for pi in range(nprog):
        docs = []
        if pi == 0:
            for name, text, _ in FIXED:
                docs.append({"name": name, "text": text, "want": None, "f8": name.startswith("F8"), "cls": name.split("-")[0] if name[:2] in ("F8", "K1") else None, "feat": set()})
        while len(docs) < ndoc:
            d = gen_doc(g, rng)
            docs.append({"name": f"p{pi}d{len(docs)}", "text": d.text(), "want": canon_tree(d.root), "f8": d.f8, "cls": "F8" if d.f8 else None, "feat": d.feat})
        progs.append(docs)
    # compile + run
    work = os.path.join(WORK, "c19")
    shutil.rmtree(work, ignore_errors=True)
    results = []
    compile_fail = []
    for pi, docs in enumerate(progs):
        dp = os.path.join(work, f"prog{pi}")
        write_program(dp, f"c19prog{pi}", [d["text"] for d in docs], build_dir)
        ok, res = run_program(dp, len(docs))
        if not ok:
            compile_fail.append((pi, res))
            results.append(None)
        else:
            results.append(res)
    ctx.oblige("every generated program compiles and runs (documents stay inside the token subset the macro accepts)",
               not compile_fail, "; ".join(f"prog{pi}: {e}" for pi, e in compile_fail)[:3000])
    # model
    flat = [(pi, di, d) for pi, docs in enumerate(progs) for di, d in enumerate(docs)]
    variant = os.environ.get("C19_VARIANT", "")          # "" = the macro as pinned; "i"/"k" force a header-arm variant (validation aid)
    rcm, mout, merr = run_lines(driver_path(), "c19", [(variant + " " if variant else "") + h(d["text"]) for _, _, d in flat])
    if rcm != 0 or len(mout) != len(flat):
        ctx.oblige("driver c19: every case returns", False, f"rc={rcm} {merr[-300:]} lines={len(mout)}/{len(flat)}")
        mout = mout + ["DRIVER-CRASH"] * (len(flat) - len(mout))
    ndis = 0
    firstdis = None
    evaluated = 0
    nontriv = 0
    gen_bad = 0
    gen_first = None
    parse_err = 0
    cls_hits = {}
    samples = []
    for (pi, di, d), model in zip(flat, mout):
        if results[pi] is None:
            continue
        mac, par = results[pi][di]
        evaluated += 1
        text = d["text"]
        if len(text) >= 24:
            nontriv += 1
        if len(samples) < 3 and di >= len(FIXED) and len(text) > 40:
            samples.append(text)
        case = h(text)
        if par == "ERR":
            parse_err += 1
            if gen_first is None:
                gen_first = (text, "the run-time parser rejects a document the generator meant to be valid")
        elif mac != par:
            cls = d["cls"]
            if cls:
                cls_hits.setdefault(cls, []).append({"name": d["name"], "text": text, "macro": mac, "parsed": par})
            else:
                ctx.violation(f"toml!{{…}} and parsing the same text differ for {text!r}: macro {mac} parsed {par}",
                              {"mode": "c19", "case": case, "text": text, "impl": mac, "parsed": par, "model": model, "witness": text})
        if d["want"] is not None and par != "ERR" and par != d["want"]:
            gen_bad += 1
            if gen_first is None:
                gen_first = (text, f"parsed {par} but the generator intended {d['want']}")
        if mac != model:
            ndis += 1
            if firstdis is None or len(text) < len(firstdis[0]):
                firstdis = (text, mac, model)
    for cls, hits in cls_hits.items():
        hits.sort(key=lambda x: len(x["text"]))
        w = CLASS_WITNESS[cls]
        what = {"F8": "a [header] that names a table an earlier header created implicitly replaces that table (its sub-tables are lost)",
                "K1": "a bare key written as a number is re-spelled by concat! (007 -> 7, 0x10 -> 16, 1.2 -> one key)"}[cls]
        ctx.violation(f"{w}: {what}; {len(hits)} documents of this class differ, shortest {hits[0]['text']!r}: macro {hits[0]['macro']} parsed {hits[0]['parsed']}",
                      {"mode": "c19", "class": cls, "count": len(hits), "examples": hits[:5], "impl": hits[0]["macro"], "parsed": hits[0]["parsed"], "witness": w})
    ctx.oblige("generator: every document is accepted by the run-time parser and denotes the tree the generator intended",
               gen_bad == 0 and parse_err == 0, f"{parse_err} rejected, {gen_bad} unintended; first: {gen_first}")
    ctx.oblige("correspondence c19: Lean model of toml_internal! = compiled macro on every document", ndis == 0,
               f"{ndis} disagreements; shortest: {firstdis}")
    if ctx.broken and not ctx.violations:
        for n, dd in ctx.broken:
            ctx.violation(f"obligation no longer checks: {n}", {"unchecked": n, "detail": dd[:1500], "searched": f"{evaluated} documents in {nprog} compiled programs"}, concrete=False)
    ctx.cov.update({
        "evaluations": evaluated, "distinct_nontrivial": nontriv,
        "rule": f"{nprog} generated crates x {ndoc} documents, each embedded in toml!{{}} and as text, compiled with rustc and run; {len(FIXED)} fixed documents (macro test-suite shapes, F8/K1 witnesses) in program 0; non-trivial = document of >= 24 bytes",
        "samples": samples, "histogram": dict(sorted(hist.items())),
        "documents_with_super_after_sub_header": sum(1 for _, _, d in flat if d["f8"]),
        "documents_with_aot": sum(1 for _, _, d in flat if "aot" in d["feat"]),
        "class_hits": {k: len(v) for k, v in cls_hits.items()},
        "traces_validated_against_impl": evaluated, "disagreements": ndis,
        "oracles": ["macro tree = parsed tree", "parsed tree = generator's intended tree", "macro tree = Lean model of the tt-muncher"],
    })
    ctx.assumptions.append("rustc's lexer is modelled by Model.Macro.lex for the token subset listed in tools/props/c19.py; literal evaluation (i32 / f64 / string escapes) follows the Rust reference")
