"""C07, typed values over the type grammar (harness/src/c07typed.rs, lean/TomlVerif/Driver/C07Typed.lean).

A case is a Rust TYPE of the grammar of c13typed.py together with a VALUE of that type (`Dec`):
  `rtt<flags> <ty> <dec>`      serde calls of the value, every serializer route, every successful route read back
  `dvc <target> <ty> <seed>`   harness only: a derived Rust value and `DynVal` of the same shape make the same serde calls

python forms
  type    as in c13typed.py
  value   ('b', bool) ('i', int) ('f', bits64) ('g', bits32) ('s', str) ('c', str) ('u',) ('d', shown) ('V', pv) ('N',) ('D',)
          ('O', v) ('seq', [v]) ('tup', [v]) ('map', [(key, v)…] ascending) ('W', v) ('S', [(name, v)…])
          ('E', name, 'unit'|'N'|'T'|'S', payload)
  pv      a toml::Value: ('s', str) ('i', int) ('f', bits) ('b', bool) ('d', shown) ('a', [pv]) ('t', [(key, pv)…] ascending)
  shown   the `show_dt` form `Y-M-D|h:m:s:ns|off` (`-` for an absent part, off = Z or minutes)
"""
import struct
from props.c13typed import TypedGen, enc, hx, INT_RANGE, NAMES, MODE, PT, OWNER, CONFIG, PLAIN, DATES_T, INTS_T, S_T

NAME = "$__toml_private_Datetime"
FIELD = "$__toml_private_datetime"
I64MAX = 2 ** 63 - 1
U64MAX = 2 ** 64 - 1
NM = "S"           # the Rust name of every struct / enum (`DynVal.nm`, `rttName`)
READBACK = ["ts.td", "ts.ed", "tp.td", "tp.ed", "es.td", "es.ed", "ep.td", "ep.ed", "ed.de", "vt.de", "tt.de"]

# ------------------------------------------------------------------------------------------
# floats
# ------------------------------------------------------------------------------------------

NAN64 = 0x7FF8000000000000


def is_nan64(b):
    return (b >> 52) & 0x7FF == 0x7FF and b & ((1 << 52) - 1) != 0


def is_nan32(b):
    return (b >> 23) & 0xFF == 0xFF and b & ((1 << 23) - 1) != 0


def clear_nan_sign(b):
    """Spec.Serde.clearNanSign: `if v.is_nan() { v = v.copysign(1.0) }`"""
    return b % 2 ** 63 if is_nan64(b) else b


def canon_float(b):
    """Spec.Encode06.canonFloat: a text says `nan` / `-nan` only"""
    if is_nan64(b):
        return (2 ** 63 if b >> 63 else 0) + NAN64
    return b


def f32to64(b):
    """Spec.Serde.f32to64: `f32 as f64`, exact; a NaN keeps its payload in the high bits"""
    s, e, m = b >> 31 & 1, b >> 23 & 0xFF, b & (2 ** 23 - 1)
    if e == 255:
        return (s << 63) + (2047 << 52) + (m << 29)
    if e == 0:
        if m == 0:
            return s << 63
        k = m.bit_length()
        return (s << 63) + ((k + 873) << 52) + ((m << (53 - k)) - 2 ** 52)
    return (s << 63) + ((e + 896) << 52) + (m << 29)


def f64to32(b):
    """DeTyped.f64ToF32: `(v as f32).copysign(v)`; a NaN keeps only its sign"""
    sign = 0x80000000 if b >> 63 else 0
    if is_nan64(b):
        return sign + 0x7FC00000
    x = struct.unpack("<d", struct.pack("<Q", b))[0]
    try:
        return struct.unpack("<I", struct.pack("<f", x))[0]
    except OverflowError:
        return sign + 0x7F800000


# ------------------------------------------------------------------------------------------
# date-times
# ------------------------------------------------------------------------------------------

def dt_text(shown):
    """`Display for Datetime` (crates/toml_datetime/src/datetime.rs) on the fields of a `show_dt` form"""
    d, t, o = shown.split("|")
    out = ""
    if d != "-":
        y, m, dd = (int(x) for x in d.split("-"))
        out += f"{y:04}-{m:02}-{dd:02}"
    if t != "-":
        h, mi, s, ns = (int(x) for x in t.split(":"))
        if d != "-":
            out += "T"
        out += f"{h:02}:{mi:02}:{s:02}"
        if ns:
            out += "." + f"{ns:09}".rstrip("0")
    if o == "Z":
        out += "Z"
    elif o != "-":
        m = int(o)
        sign = "-" if m < 0 else "+"
        m = abs(m)
        out += f"{sign}{m // 60:02}:{m % 60:02}"
    return out


def g_date(r):
    y = r.choice([0, 1, 1979, 2000, 2024, 9999])
    m = r.randrange(1, 13)
    leap = y % 4 == 0 and (y % 100 != 0 or y % 400 == 0)
    md = (29 if leap else 28) if m == 2 else 30 if m in (4, 6, 9, 11) else 31
    return f"{y}-{m}-{r.choice([1, md, r.randrange(1, md + 1)])}"


def g_time(r):
    ns = r.choice([0, 0, 1, 10, 500000000, 999999999, 120000, 100, r.randrange(10 ** 9)])
    return f"{r.choice([0, 23, r.randrange(24)])}:{r.choice([0, 59, r.randrange(60)])}:{r.choice([0, 59, 60, r.randrange(61)])}:{ns}"


def g_dt(r, kind="dt"):
    if kind == "da":
        return f"{g_date(r)}|-|-"
    if kind == "ti":
        return f"-|{g_time(r)}|-"
    k = r.randrange(5)
    if k == 0:
        return f"{g_date(r)}|-|-"
    if k == 1:
        return f"-|{g_time(r)}|-"
    if k == 2:
        return f"{g_date(r)}|{g_time(r)}|-"
    off = r.choice(["Z", "0", "-420", "1439", "-1439", "1", "-1", str(r.randrange(-1439, 1440))])
    return f"{g_date(r)}|{g_time(r)}|{off}"


# ------------------------------------------------------------------------------------------
# the encoding
# ------------------------------------------------------------------------------------------

def show_pv(v):
    k = v[0]
    if k == "s":
        return "s" + hx(v[1])
    if k == "i":
        return f"i{v[1]}"
    if k == "f":
        return "f%016x" % v[1]
    if k == "b":
        return "b1" if v[1] else "b0"
    if k == "d":
        return "d" + v[1]
    if k == "a":
        return "[" + ";".join(show_pv(x) for x in v[1]) + "]"
    return "{" + ";".join(f"{hx(kk)}={show_pv(x)}" for kk, x in v[1]) + "}"


def named(l):
    return ";".join(f"{hx(n)}={show_dec(x)}" for n, x in l)


def show_dec(d):
    k = d[0]
    if k == "b":
        return "b1" if d[1] else "b0"
    if k == "i":
        return f"i{d[1]}"
    if k == "f":
        return "f%016x" % d[1]
    if k == "g":
        return "g%08x" % d[1]
    if k == "s":
        return "s" + hx(d[1])
    if k == "c":
        return "c" + hx(d[1])
    if k in ("u", "N", "D"):
        return k
    if k == "d":
        return "d" + d[1]
    if k == "V":
        return "V" + show_pv(d[1])
    if k == "O":
        return f"O({show_dec(d[1])})"
    if k == "W":
        return f"W({show_dec(d[1])})"
    if k == "seq":
        return "[" + ";".join(show_dec(x) for x in d[1]) + "]"
    if k == "tup":
        return "(" + ";".join(show_dec(x) for x in d[1]) + ")"
    if k == "map":
        return "{" + named(d[1]) + "}"
    if k == "S":
        return "S{" + named(d[1]) + "}"
    if k == "E":
        tag = "E" + hx(d[1])
        if d[2] == "unit":
            return tag
        if d[2] == "N":
            return f"{tag}:{show_dec(d[3])}"
        if d[2] == "T":
            return tag + "(" + ";".join(show_dec(x) for x in d[3]) + ")"
        return tag + "{" + named(d[3]) + "}"
    raise ValueError(d)


class _P:
    def __init__(self, s):
        self.s, self.i = s, 0

    def peek(self):
        return self.s[self.i] if self.i < len(self.s) else ""

    def eat(self, c):
        assert self.peek() == c, (self.s, self.i, c)
        self.i += 1

    def hexword(self):
        j = self.i
        while j < len(self.s) and self.s[j] in "0123456789abcdef-":
            j += 1
        w, self.i = self.s[self.i:j], j
        return w

    def upto(self):
        j = self.i
        while j < len(self.s) and self.s[j] not in ";)]}=":
            j += 1
        w, self.i = self.s[self.i:j], j
        return w

    def name(self):
        w = self.hexword()
        return "" if w == "-" else bytes.fromhex(w).decode("utf-8")

    def items(self, close, f):
        out = []
        if self.peek() == close:
            self.i += 1
            return out
        while True:
            out.append(f())
            c = self.peek()
            self.i += 1
            if c == close:
                return out
            assert c == ";", (self.s, self.i)

    def entry(self, f):
        k = self.name()
        self.eat("=")
        return (k, f())

    def pv(self):
        c = self.peek()
        self.i += 1
        if c == "s":
            return ("s", self.name())
        if c == "i":
            return ("i", int(self.upto()))
        if c == "f":
            return ("f", int(self.hexword(), 16))
        if c == "b":
            return ("b", self.upto() == "1")
        if c == "d":
            return ("d", self.upto())
        if c == "[":
            return ("a", self.items("]", self.pv))
        assert c == "{", (self.s, self.i)
        return ("t", self.items("}", lambda: self.entry(self.pv)))

    def dec(self):
        c = self.peek()
        self.i += 1
        if c == "b":
            self.i += 1
            return ("b", self.s[self.i - 1] == "1")
        if c == "i":
            return ("i", int(self.upto()))
        if c == "f":
            return ("f", int(self.hexword(), 16))
        if c == "g":
            return ("g", int(self.hexword(), 16))
        if c == "s":
            return ("s", self.name())
        if c == "c":
            return ("c", self.name())
        if c in "uND":
            return (c,)
        if c == "d":
            return ("d", self.upto())
        if c == "V":
            return ("V", self.pv())
        if c in "OW":
            self.eat("(")
            d = self.dec()
            self.eat(")")
            return (c, d)
        if c == "[":
            return ("seq", self.items("]", self.dec))
        if c == "(":
            return ("tup", self.items(")", self.dec))
        if c == "{":
            return ("map", self.items("}", lambda: self.entry(self.dec)))
        if c == "S":
            self.eat("{")
            return ("S", self.items("}", lambda: self.entry(self.dec)))
        assert c == "E", (self.s, self.i)
        n = self.name()
        nx = self.peek()
        if nx == ":":
            self.i += 1
            return ("E", n, "N", self.dec())
        if nx == "(":
            self.i += 1
            return ("E", n, "T", self.items(")", self.dec))
        if nx == "{":
            self.i += 1
            return ("E", n, "S", self.items("}", lambda: self.entry(self.dec)))
        return ("E", n, "unit", None)


def parse_dec(s):
    p = _P(s)
    d = p.dec()
    assert p.i == len(s), (s, p.i)
    return d


# ------------------------------------------------------------------------------------------
# `serOf` (Model/SerTyped.lean) in the value form of props/c07.py, written from serde's sources independently
# ------------------------------------------------------------------------------------------

def dt_sval(shown):
    return ("st", NAME, [(FIELD, ("str", dt_text(shown)))])


def pv_sval(v):
    """`impl Serialize for toml::Value`: a table in three passes (plain values, arrays holding a table, tables)"""
    k = v[0]
    if k == "s":
        return ("str", v[1])
    if k == "i":
        return ("int", "i64", v[1])
    if k == "f":
        return ("f64", v[1])
    if k == "b":
        return ("bool", v[1])
    if k == "d":
        return dt_sval(v[1])
    if k == "a":
        return ("seq", [pv_sval(x) for x in v[1]])
    aot = lambda x: x[0] == "a" and any(y[0] == "t" for y in x[1])
    first = [(kk, x) for kk, x in v[1] if x[0] != "t" and not aot(x)]
    second = [(kk, x) for kk, x in v[1] if aot(x)]
    third = [(kk, x) for kk, x in v[1] if x[0] == "t"]
    return ("map", [(("str", kk), pv_sval(x)) for kk, x in first + second + third])


def variant(vs, name):
    return next((i, sh) for i, (n, sh) in enumerate(vs) if n == name)


def ser_of(t, d):
    k = t[0]
    if k == "b":
        return ("bool", d[1])
    if k == "int":
        return ("int", t[1], d[1])
    if k == "f64":
        return ("f64", d[1])
    if k == "f32":
        return ("f32", d[1])
    if k == "s":
        return ("str", d[1])
    if k == "c":
        return ("char", ord(d[1]))
    if k == "u":
        return ("unit",)
    if k in ("dt", "da", "ti"):
        return dt_sval(d[1])
    if k == "v":
        return pv_sval(d[1])
    if k == "O":
        return ("none",) if d[0] == "N" else ("some", ser_of(t[1], d[1]))
    if k == "V":
        return ("seq", [ser_of(t[1], x) for x in d[1]])
    if k == "T":
        return ("tup", [ser_of(tt, x) for tt, x in zip(t[1], d[1])])
    if k == "M":
        return ("map", [(("str", kk), ser_of(t[1], x)) for kk, x in d[1]])
    if k == "N":
        return ("nt", NM, ser_of(t[1], d[1]))
    if k == "S":
        return ("st", NM, [(n, ser_of(ft, x)) for (n, ft, _), (_, x) in zip(t[1], d[1])])
    if k == "E":
        _, sh = variant(t[1], d[1])
        if sh[0] == "unit":
            return ("uv", NM, d[1])
        if sh[0] == "N":
            return ("nv", NM, d[1], ser_of(sh[1], d[3]))
        if sh[0] == "T":
            return ("tv", NM, d[1], [ser_of(tt, x) for tt, x in zip(sh[1], d[3])])
        return ("sv", NM, d[1], [(n, ser_of(ft, x)) for (n, ft, _), (_, x) in zip(sh[1], d[3])])
    raise ValueError(t)


# ------------------------------------------------------------------------------------------
# `normDec` (Model/SerTyped.lean)
# ------------------------------------------------------------------------------------------

def norm_pv(cf, v):
    """NOT part of `normDec` (which leaves a `toml::Value` leaf alone: the theorems exclude `hasValue`): the same NaN
    identifications inside a `toml::Value`"""
    k = v[0]
    if k == "f":
        return ("f", cf(clear_nan_sign(v[1])))
    if k == "a":
        return ("a", [norm_pv(cf, x) for x in v[1]])
    if k == "t":
        return ("t", [(kk, norm_pv(cf, x)) for kk, x in v[1]])
    return v


def norm_fields(cf, fs, l, drop):
    return [(n, ("D",) if dflt and x[0] == "N" else norm_dec(cf, ft, x, drop)) for (n, ft, dflt), (_, x) in zip(fs, l)]


def norm_dec(cf, t, d, drop=True):
    """`normDec cf ty d`; `drop=False` leaves out the ONE identification that is a loss of data (a map entry whose value
    is `None` is gone: known finding F33), so that its instances can be told apart"""
    k = t[0]
    if k == "f64":
        return ("f", cf(clear_nan_sign(d[1])))
    if k == "f32":
        return ("g", f64to32(cf(clear_nan_sign(f32to64(d[1])))))
    if k == "v":
        return ("V", norm_pv(cf, d[1]))
    if k == "O":
        return d if d[0] == "N" else ("O", norm_dec(cf, t[1], d[1], drop))
    if k == "V":
        return ("seq", [norm_dec(cf, t[1], x, drop) for x in d[1]])
    if k == "T":
        return ("tup", [norm_dec(cf, tt, x, drop) for tt, x in zip(t[1], d[1])])
    if k == "M":
        return ("map", [(kk, norm_dec(cf, t[1], x, drop)) for kk, x in d[1] if not (drop and x[0] == "N")])
    if k == "N":
        return ("W", norm_dec(cf, t[1], d[1], drop))
    if k == "S":
        return ("S", norm_fields(cf, t[1], d[1], drop))
    if k == "E":
        _, sh = variant(t[1], d[1])
        if sh[0] == "N":
            return ("E", d[1], "N", norm_dec(cf, sh[1], d[3], drop))
        if sh[0] == "T":
            return ("E", d[1], "T", [norm_dec(cf, tt, x, drop) for tt, x in zip(sh[1], d[3])])
        if sh[0] == "S":
            return ("E", d[1], "S", norm_fields(cf, sh[1], d[3], drop))
        return d
    return d


def walk_dec(t, d):
    """(type, value) pairs, preorder"""
    yield t, d
    k = t[0]
    if k in ("O", "N") and d[0] != "N":
        yield from walk_dec(t[1], d[1])
    elif k == "V":
        for x in d[1]:
            yield from walk_dec(t[1], x)
    elif k == "T":
        for tt, x in zip(t[1], d[1]):
            yield from walk_dec(tt, x)
    elif k == "M":
        for _, x in d[1]:
            yield from walk_dec(t[1], x)
    elif k == "S":
        for (_, ft, _), (_, x) in zip(t[1], d[1]):
            yield from walk_dec(ft, x)
    elif k == "E":
        _, sh = variant(t[1], d[1])
        if sh[0] == "N":
            yield from walk_dec(sh[1], d[3])
        elif sh[0] == "T":
            for tt, x in zip(sh[1], d[3]):
                yield from walk_dec(tt, x)
        elif sh[0] == "S":
            for (_, ft, _), (_, x) in zip(sh[1], d[3]):
                yield from walk_dec(ft, x)


def has_none_map_value(t, d):
    return any(tt[0] == "M" and any(x[0] == "N" for _, x in dd[1]) for tt, dd in walk_dec(t, d))


# ------------------------------------------------------------------------------------------
# generator
# ------------------------------------------------------------------------------------------

STRS = ["", "a", "key", "a b", "\"", "'", "'''", "\"\"\"", "\\", "\n", "\r\n", "\t", "\x00", "\x7f", "\x1f", "é", "日本語", "😀", "a.b", "a=b", "#c", "[x]",
        "{y}", "true", "1", "-1", "1979-05-27", "07:32:00", "nan", "inf", " lead", "trail ", "﻿", "\U0010ffff", "\"" * 7, "'" * 6, "a\\nb",
        "line1\nline2\n", "x = 1", "0x10", "1e5", "_", FIELD, NAME]
CHARS = [chr(c) for c in (0, 0x7f, 0x80, 0x7ff, 0x800, 0xd7ff, 0xe000, 0xffff, 0x10000, 0x10ffff, 0x22, 0x27, 0x5c, 0x0a, 0x0d, 0x09, 0x61, 0xe9, 0x65e5, 0x1f600)]
F64S = [0, 0x8000000000000000, 0x3ff0000000000000, 0xbff0000000000000, 0x3fb999999999999a, 0x7e37e43c8800759c, 0x01a56e1fc2f8f359, 1,
        0x8000000000000001, 0x7fefffffffffffff, 0xffefffffffffffff, 0x0010000000000000, 0x000fffffffffffff, 0x7ff0000000000000,
        0xfff0000000000000, 0x7ff8000000000000, 0xfff8000000000000, 0x7ff8000000000001, 0x7ff0000000000001, 0xfff0000000000001,
        0x430c6bf526340000, 0x4341c37937e08000, 0x444b1ae4d6e2ef50, 0x3ff0000000000001, 0x4340000000000000, 0x4340000000000001,
        0x3eb0c6f7a0b5ed8d, 0x3f1a36e2eb1c432d, 0x4024000000000000, 0x40c3880000000000]
F32S = [0, 0x80000000, 0x3f800000, 0xbf800000, 0x3dcccccd, 0x7f7fffff, 0xff7fffff, 0x00800000, 0x007fffff, 1, 0x80000001, 0x7f800000,
        0xff800000, 0x7fc00000, 0xffc00000, 0x7fc00001, 0x7f800001, 0xffa00001, 0x4b800000, 0x4b800001, 0x3f800001, 0x501502f9, 0x322bcc77, 0x41200000,
        0x00000002, 0x00400000, 0x007ffffe]
KEYS = [n for n in NAMES] + ["zz", "k", "\"", "'", "\n", "日本", "#", "true", "b.c"]


def strip_ignored(t):
    """`IgnoredAny` has no `Serialize`: an `i64` in its place"""
    k = t[0]
    if k == "g":
        return ("int", "i64")
    if k in ("O", "V", "M", "N"):
        return (k, strip_ignored(t[1]))
    if k == "T":
        return ("T", [strip_ignored(x) for x in t[1]])
    if k == "S":
        return ("S", [(n, strip_ignored(ft), d) for n, ft, d in t[1]])
    if k == "E":
        out = []
        for n, sh in t[1]:
            if sh[0] == "N":
                sh = ("N", strip_ignored(sh[1]))
            elif sh[0] == "T":
                sh = ("T", [strip_ignored(x) for x in sh[1]])
            elif sh[0] == "S":
                sh = ("S", [(fn, strip_ignored(ft), d) for fn, ft, d in sh[1]])
            out.append((n, sh))
        return ("E", out)
    return t


class ValueGen:
    """random well-typed values; `hostile` raises the share of the shapes the serializers refuse (`Some(None)`, `None` in a
    sequence, `()`, a `u64` beyond `i64::MAX`)"""

    def __init__(self, rng, hist, hostile=0.05):
        self.r, self.hist, self.hostile = rng, hist, hostile

    def hit(self, k):
        self.hist[k] = self.hist.get(k, 0) + 1

    def pv(self, depth):
        r = self.r
        k = r.randrange(7 if depth > 0 else 5)
        if k == 0:
            return ("s", r.choice(STRS))
        if k == 1:
            return ("i", r.choice([0, 1, -1, 42, I64MAX, -2 ** 63, r.randrange(-2 ** 63, 2 ** 63)]))
        if k == 2:
            return ("b", r.random() < 0.5)
        if k == 3:
            return ("d", g_dt(r))
        if k == 4:
            return ("f", r.choice(F64S))
        if k == 5:
            return ("a", [self.pv(depth - 1) for _ in range(r.randrange(4))])
        keys = sorted(set(r.sample([x for x in KEYS if x != FIELD], r.randrange(4))), key=lambda s: s.encode())
        return ("t", [(kk, self.pv(depth - 1)) for kk in keys])

    def fields(self, fs):
        return [(n, self.value(ft)) for n, ft, _ in fs]

    def value(self, t):
        r = self.r
        k = t[0]
        if k == "b":
            return ("b", r.random() < 0.5)
        if k == "int":
            lo, hi = INT_RANGE[t[1]]
            if t[1] == "u64" and r.random() < self.hostile:
                self.hit("u64-beyond-i64")
                return ("i", r.choice([I64MAX + 1, U64MAX, r.randrange(I64MAX + 1, U64MAX + 1)]))
            return ("i", r.choice([lo, hi, 0, 1, max(lo, -1), min(hi, 42), r.randrange(lo, hi + 1)]))
        if k == "f64":
            b = r.choice(F64S) if r.random() < 0.7 else r.getrandbits(64)
            if is_nan64(b):
                self.hit("f64-nan")
            return ("f", b)
        if k == "f32":
            b = r.choice(F32S) if r.random() < 0.7 else r.getrandbits(32)
            if is_nan32(b):
                self.hit("f32-nan")
            return ("g", b)
        if k == "s":
            return ("s", r.choice(STRS))
        if k == "c":
            return ("c", r.choice(CHARS))
        if k == "u":
            self.hit("unit")
            return ("u",)
        if k in ("dt", "da", "ti"):
            return ("d", g_dt(r, k))
        if k == "v":
            return ("V", self.pv(2))
        if k == "O":
            inner = t[1]
            if inner[0] == "O" and r.random() < max(self.hostile, 0.1):
                self.hit("some-none")
                return ("O", ("N",))
            if r.random() < 0.3:
                self.hit("none")
                return ("N",)
            return ("O", self.value(inner))
        if k == "V":
            n = r.choice([0, 0, 1, 2, 3])
            if n == 0:
                self.hit("empty-seq")
            if t[1][0] == "O" and r.random() > self.hostile * 4:
                # a `None` element makes every route refuse: mostly `Some`
                return ("seq", [("O", self.value(t[1][1])) for _ in range(n)])
            return ("seq", [self.value(t[1]) for _ in range(n)])
        if k == "T":
            return ("tup", [self.value(x) for x in t[1]])
        if k == "M":
            n = r.choice([0, 1, 2, 3])
            if n == 0:
                self.hit("empty-map")
            keys = sorted(r.sample(KEYS, n), key=lambda s: s.encode())
            out = [(kk, self.value(t[1])) for kk in keys]
            if any(x[0] == "N" for _, x in out):
                self.hit("none-map-value")
            return ("map", out)
        if k == "N":
            return ("W", self.value(t[1]))
        if k == "S":
            if not t[1]:
                self.hit("empty-struct")
            return ("S", self.fields(t[1]))
        if k == "E":
            name, sh = r.choice(t[1])
            self.hit("variant-" + sh[0])
            if sh[0] == "unit":
                return ("E", name, "unit", None)
            if sh[0] == "N":
                return ("E", name, "N", self.value(sh[1]))
            if sh[0] == "T":
                return ("E", name, "T", [self.value(x) for x in sh[1]])
            return ("E", name, "S", self.fields(sh[1]))
        raise ValueError(t)


def gen_types(rng, hist, n):
    """random types: mostly roots a document can hold, enums at the root, any type"""
    g = TypedGen(rng, hist)
    out = []
    for j in range(n):
        k = j % 10
        if k <= 5:
            t = g.root_ty()
        elif k == 6:
            t = ("E", [(name, g.shape(0, False)) for name in g.names(rng.choice([1, 2, 3, 4]), ["Fast", "Slow", "A", "b", "x y", "0", "é", ""])])
        elif k == 7:
            t = ("S", [(n_, ("O", g.ty(1, False)) if rng.random() < 0.5 else ("M", ("O", g.ty(2, False))), rng.random() < 0.3)
                       for n_ in g.names(rng.choice([1, 2, 3]), NAMES)])
        else:
            t = g.ty(0, inhabited=False)
        out.append(strip_ignored(t))
    return out


# fixed witnesses: every identification of `normDec`, the excluded shapes, F30 / F33
def _s(*fs):
    return ("S", [(n, t, False) for n, t in fs])


_I64 = ("int", "i64")
FIXED = [
    (_s(("m", ("M", ("O", _I64)))), ("S", [("m", ("map", [("a", ("N",)), ("b", ("O", ("i", 1)))]))])),            # F33
    (_s(("x", ("f64",))), ("S", [("x", ("f", 0xFFF8000000000000))])),                                               # NaN sign
    (_s(("x", ("f64",))), ("S", [("x", ("f", 0x7FF0000000000001))])),                                               # NaN payload
    (_s(("x", ("f32",))), ("S", [("x", ("g", 0x7FA00001))])),                                                       # f32 NaN payload
    (("S", [("o", ("O", _I64), True), ("a", _I64, False)]), ("S", [("o", ("N",)), ("a", ("i", 1))])),              # default field
    (_s(("oo", ("O", ("O", _I64))), ("a", _I64)), ("S", [("oo", ("O", ("N",))), ("a", ("i", 1))])),                # F30
    (_s(("v", ("V", ("O", _I64))), ("a", _I64)), ("S", [("v", ("seq", [("N",)])), ("a", ("i", 1))])),              # F30
    (_s(("u", ("u",))), ("S", [("u", ("u",))])),
    (_s(("big", ("int", "u64"))), ("S", [("big", ("i", I64MAX + 1))])),
    (_s(("big", ("int", "u64"))), ("S", [("big", ("i", I64MAX))])),
    (("dt",), ("d", "1979-5-27|7:32:0:0|Z")),                                                                        # bare date-time root
    (("E", [("A", ("unit",)), ("B", ("S", [("x", _I64, False)]))]), ("E", "B", "S", [("x", ("i", 1))])),           # struct variant at the root
    (("E", [("A", ("unit",)), ("B", ("T", []))]), ("E", "B", "T", [])),
    (_s(("e", ("E", [("A", ("unit",)), ("", ("N", ("O", _I64)))]))), ("S", [("e", ("E", "", "N", ("N",)))])),      # None as a newtype variant payload
    (_s(("e", ("V", ("E", [("A", ("unit",)), ("B", ("S", [("x", ("O", _I64), False)]))])))),
     ("S", [("e", ("seq", [("E", "A", "unit", None), ("E", "B", "S", [("x", ("N",))])]))])),
    (_s(("m", ("M", ("M", ("O", ("s",)))))), ("S", [("m", ("map", [("a", ("map", [("b", ("N",))]))]))])),
    (("M", ("O", _I64)), ("map", [("a", ("N",))])),
    (("O", _s(("a", _I64))), ("N",)),
    (("N", _s(("a", ("c",)))), ("W", ("S", [("a", ("c", "\U0010ffff"))]))),
]

# the derived types of the harness with `ToDec` (harness/src/c13.rs) and `Extra` (harness/src/c07typed.rs)
_XN = ("N", _I64)
_XE = ("E", [("A", ("unit",)), ("b c", ("N", _XN)), ("C", ("T", [_I64, ("c",)])), ("D", ("S", [("x", ("O", _I64), False), ("y", ("u",), False)])),
             ("", ("N", ("O", ("O", ("b",))))), ("F", ("S", [])), ("G", ("T", []))])
EXTRA = ("S", [("t", ("T", [_I64, ("s",)]), False), ("t3", ("T", [("b",), ("f64",), ("V", _I64)]), False), ("n", _XN, False), ("u", ("u",), False),
               ("c", ("c",), False), ("oo", ("O", ("O", _I64)), False), ("d", ("O", _I64), True), ("m", ("M", ("O", _XN)), False), ("e", ("V", _XE), False),
               ("f", ("f32",), False), ("a", ("int", "i8"), False), ("b", ("int", "i16"), False), ("w", ("int", "u64"), False), ("nn", ("V", ("O", _I64)), False),
               ("vv", ("v",), False), ("em", ("S", []), False), ("dd", ("da",), False), ("tt", ("ti",), False), ("k ey", ("b",), False)])
DERIVED = {"config": CONFIG, "plain": PLAIN, "dates": DATES_T, "ints": INTS_T, "owner": OWNER, "mode": MODE, "pt": PT, "s": S_T, "extra": EXTRA}


def readable(t, d):
    """Rust-ish rendering for reports"""
    return f"{enc(t)} :: {show_dec(d)}"
