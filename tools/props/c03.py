"""C03 — unedited documents print back byte-for-byte."""
from vlib import *
import docgen
from props.parse_common import corpus_files


def run(ctx):
    translate(ctx)
    mods = ["TomlVerif.Gen.CheckLex", "TomlVerif.Props.C03", "driver"]
    lake_build(ctx, mods, {"TomlVerif.Gen.CheckLex": "table theorems", "TomlVerif.Props.C03": "property theorems"})
    audit(ctx, "TomlVerif.Props.C03", "TomlVerif/Props/C03.lean")
    extra_props(ctx, ['C03Doc', 'C03Hdr', 'C03Nest', 'C03More', 'C03MoreInline', 'C03MoreDoc', 'C03MoreOrd', 'C03MoreCmt', 'C03MoreVS', 'C03MoreSum', 'C03MoreSem', 'C03MoreNad', 'C03MoreTko', 'C03MoreGen', 'C03MoreGen2', 'C03MoreGen3'])
    if ctx.tier == "thorough":
        leanchecker(ctx, "TomlVerif.Props.C03")
    tvh = cargo_build(ctx)
    if tvh is None:
        ctx.violation("harness does not build against /repo", {"unchecked": "cargo build"}, concrete=False)
        return
    from props import probe_compare as _pc
    regression_lines(ctx, tvh, ["c03"], cut=_pc.cut_c03)
    rng = ctx.rng
    big = ctx.tier != "quick"
    hist = {}
    g = docgen.Gen(rng, hist)
    docs = []
    for _ in range(250000 if big else 5000):
        t, tree = g.document()
        docs.append((t.encode(), dict(g.meta), "generated"))
    for t, tree in docgen.header_order_documents(rng, 30000 if big else 1500):
        docs.append((t.encode(), {"ml": [], "comments": [], "adjacent": True, "respelled": False}, "header-order"))
    for n, d in corpus_files():
        if n.startswith("valid"):
            try:
                t = d.decode()
            except UnicodeDecodeError:
                continue
            docs.append((d, None, "corpus:" + n))
    # hand-written layouts the property names
    for t in ["﻿a = 1\n", "a = 1", "a = 1\r\n", "a = 1 # c", "[t]", "[t] # c", "# only a comment", "# c\r\n", "\r\n\r\n", "a = \"\"\"x\r\ny\"\"\"\r\n",
              "a = '''x\r\ny'''\r\nb = 2\r\n", "a = [\r\n 1,\r\n 2, # c\r\n]\r\n", "[b]\nx = 1\n[a]\ny = 2\n", "[a.b]\nx = 1\n[a]\ny = 2\n",
              "[[t]]\nx = 1\n[u]\n[[t]]\nx = 2\n", "a.b = 1\na.c = 2\n", "a . b = 1 # c\n", "a = { x = 1 , y.z = 2 }\n", "a = [ 1 , 2 , ]\n", "\t \n# c\n\n[t]\n\n# d\nk = 1\n\n# trailing\n"]:
        docs.append((t.encode(), None, "hand"))
    lines = [h(d) for d, _, _ in docs]
    impl, model = run_pair(ctx, tvh, "c03", lines)
    ndis, first = 0, None
    exact = resp = nonadj = 0
    nontriv = set()
    f15 = 0
    for (d, meta, kind), ln, i, m in zip(docs, lines, impl, model):
        bad = None
        wit = ln
        if i.startswith("PANIC") or i == "CRASH":
            bad = f"panic: {i[:120]}"
        elif not i.startswith("ok "):
            if kind != "generated" and not kind.startswith("corpus"):
                pass
            bad = "a valid document was rejected"
        else:
            f = dict(x.split("=", 1) for x in i.split(" ")[1:])
            p = unh(f["p"])
            if f["p2"] != "same":
                bad = "the printed text is not a fixed point of parse-then-print" if f["p2"] != "REPARSE-FAILED" else "the printed text is not valid TOML"
            elif f["data"] != "true":
                bad = "the printed text decodes to different data"
            elif meta is not None:
                text = d.decode()
                for c in meta["comments"]:
                    if c.encode() not in p:
                        bad = f"comment {c!r} is lost"
                        break
                if bad is None:
                    norm = docgen.normalize(text, meta["ml"]).encode()
                    if meta["respelled"]:
                        resp += 1
                        if p != norm:
                            f15 += 1
                    elif not meta["adjacent"]:
                        nonadj += 1
                    else:
                        exact += 1
                        if p != norm:
                            bad = f"printed text differs from the normalised input: first difference at byte {next((k for k in range(min(len(p), len(norm))) if p[k] != norm[k]), min(len(p), len(norm)))}"
            if len(d) > 8:
                nontriv.add(ln)
        if bad:
            ctx.violation(f"{kind} {d[:60]!r}: {bad}", {"mode": "c03", "case": ln, "text": d.decode("utf-8", "replace")[:3000], "impl": i[:3000], "model": m[:3000], "witness": wit})
        mi = i.split(" p2=")[0] if i.startswith("ok ") else i
        if mi != m:
            ndis += 1
            if first is None or len(ln) < len(first[0]):
                first = (d[:120], mi[:200], m[:200])
    if f15:
        ctx.violation("re-spelled table names print with their first spelling", {"witness": "class:respelled-table-key", "count": f15})
    ctx.oblige("correspondence c03: printed text of the model (span-recording parser + encode.rs model) = DocumentMut::to_string() of the implementation on every document",
               ndis == 0, f"{ndis} disagreements; shortest: {first}")
    if ctx.broken and not ctx.violations:
        for n, d in ctx.broken:
            ctx.violation(f"obligation no longer checks: {n}", {"unchecked": n, "detail": d[:1500], "searched": f"{len(docs)} documents against the normalisation oracle"}, concrete=False)
    ctx.cov.update({
        "evaluations": len(docs), "distinct_nontrivial": len(nontriv),
        "rule": "grammar-generated valid documents with random whitespace, comments, blank lines, quoting styles, tables out of order, sub-tables before super-tables, interleaved arrays of tables, trailing commas, CRLF/LF mixes, BOM, missing final newline; toml-test valid files; hand-written layouts. Exact equality with normalize(input) is demanded when dotted keys are adjacent and no table name is re-spelled (known finding F15); validity, same data, fixed point and every comment kept are demanded always. non-trivial = longer than 8 bytes",
        "samples": [docs[1][0].decode()[:150], docs[len(docs) // 2][0].decode("utf-8", "replace")[:150]],
        "exact_equality_checked": exact, "respelled_F15": resp, "respelled_and_different": f15, "nonadjacent_dotted": nonadj,
        "constructor_histogram": hist, "traces_validated_against_impl": len(docs), "disagreements": ndis,
    })
