"""C13 — every decoding route of the two crates yields the same result; on serialized text every route
succeeds and returns the value; Value::try_from / Table::try_from build the tree that serialize+parse builds."""
import os, re
from vlib import *
import docgen
from props.tv_common import *
from props.parse_common import corpus_files, regression_files
from props import c13typed

DOC_ROUTES = ["ts", "td", "es", "sl", "dm", "im", "ed", "vv", "tv", "pt", "pv"]
TEXT_ROUTES = ["ts", "td", "es", "sl", "dm", "im", "ed"]          # parse with toml_edit, decode from its tree
VALUE_ROUTES = ["vv", "tv", "pt", "pv"]                            # via toml::Value / toml::Table and try_into
SVAL_ROUTES = ["ev", "tvd", "evv", "wd", "we", "wv"]
TYPED_ROUTES = ["td", "ed", "dm", "im", "vv", "tv"]               # `typed`: a document into a type of the grammar (TySeed)
TYPED_EDIT = ["td", "ed", "dm", "im"]
TYPEDV_ROUTES = ["ev", "tvd", "evv", "wv"]                         # `typedv`: a single value
TYPEDV_EDIT = ["ev", "tvd", "evv"]
ROUTE_NAMES = {
    "ts": "toml::from_str", "td": "T::deserialize(toml::de::Deserializer::new)", "es": "toml_edit::de::from_str",
    "sl": "toml_edit::de::from_slice", "dm": "toml_edit::de::from_document(DocumentMut)", "im": "toml_edit::de::from_document(ImDocument)",
    "ed": "T::deserialize(str::parse::<toml_edit::de::Deserializer>)", "vv": "toml::from_str::<Value>().try_into()",
    "tv": "toml::from_str::<Table>().try_into()", "pt": "str::parse::<Table>().try_into()", "pv": "str::parse::<Value>().try_into()",
    "ev": "str::parse::<toml_edit::de::ValueDeserializer>", "tvd": "toml::de::ValueDeserializer::new", "evv": "toml_edit::Value::into_deserializer",
    "dm": "toml_edit::de::Deserializer::from(DocumentMut)", "im": "toml_edit::de::Deserializer::from(ImDocument)",
    "wd": "toml::from_str of `x = <text>`", "we": "toml_edit::de::from_str of `x = <text>`", "wv": "toml::Table of `x = <text>`, entry x, try_into",
}
TYPES = ["config", "plain", "dates", "ints", "roote", "s", "owner"]
DT_HEX = "1979-05-27T07:32:00Z".encode().hex()


def typed_doc(rng, defect=False):
    """a document of the shape of `Config` in one of many layouts; with `defect` one field is wrong"""
    r = rng
    s = lambda: r.choice(['"x"', "'lit'", '"""ml"""', '"h\\u00e9"', '""', '"a\\nb"'])
    dt = lambda: r.choice(["1979-05-27T07:32:00Z", "1979-05-27 07:32:00.5-07:00", "1979-05-27T07:32:00", "1979-05-27", "07:32:00"])
    top = [f"title = {s()}", f"n = {r.choice(['1', '-7', '0x10', '1_000', '9223372036854775807'])}",
           f"f = {r.choice(['1.5', '-0.0', 'inf', 'nan', '1e3', '3.0'])}", f"flag = {r.choice(['true', 'false'])}",
           f"when = {dt()}", f"tags = [{', '.join(s() for _ in range(r.randrange(3)))}]", f"last = {s()}"]
    if r.random() < 0.5:
        top.append(f"opt = {r.randrange(100)}")
    mode_kind = r.randrange(7)
    tables = []
    if mode_kind == 0:
        top.append(f'mode = "{r.choice(["Fast", "Slow"])}"')
    elif mode_kind == 1:
        top.append("mode = { Custom = 5 }")
    elif mode_kind == 2:
        tables.append("[mode]\nCustom = 5\n")
    elif mode_kind == 3:
        top.append("mode.Custom = 5")
    elif mode_kind == 4:
        tables.append(f"[mode.Tuned]\nlevel = 3\nlabel = {s()}\n")
    elif mode_kind == 5:
        top.append(f"mode = {{ Pair = [1, {s()}] }}")
    else:
        top.append(f"mode = {{ Tuned = {{ level = 9, label = {s()} }} }}")
    ok = r.randrange(3)
    dob = f"dob = {dt()}" if r.random() < 0.5 else None
    if ok == 0:
        tables.append("[owner]\nname = " + s() + "\n" + (dob + "\n" if dob else ""))
    elif ok == 1:
        top.append("owner = { name = " + s() + (", " + dob if dob else "") + " }")
    else:
        top.append("owner.name = " + s())
        if dob:
            top.append("owner." + dob)
    sk = r.randrange(4)
    if sk == 0:
        top.append("servers = {}")
    elif sk == 1:
        top.append('servers = { alpha = { ip = "10.0.0.1", port = 80 }, "b.c" = { ip = "", port = 65535, role = "x" } }')
    elif sk == 2:
        tables.append('[servers]\n')
        tables.append('[servers.alpha]\nip = "10.0.0.1"\nport = 8001\n')
        tables.append('[servers."k ey"]\nip = "10.0.0.2"\nport = 0\nrole = "r"\n')
    else:
        tables.append('[servers.alpha]\nip = "a"\nport = 1\n')
    if defect:
        d = r.randrange(9)
        if d == 0:
            top = [x for x in top if not x.startswith("title")]
        elif d == 1:
            top = [("n = 1.5" if x.startswith("n =") else x) for x in top]
        elif d == 2:
            top = [('when = "1979-05-27T07:32:00Z"' if x.startswith("when") else x) for x in top]
        elif d == 3:
            top.append("extra = 1")
        elif d == 4:
            top = [('mode = "Nope"' if x.startswith("mode") else x) for x in top]
        elif d == 5:
            tables = [t.replace("port = 8001", "port = 70000").replace("port = 1\n", "port = -1\n") for t in tables]
        elif d == 6:
            top = [("title = 1979-05-27" if x.startswith("title") else x) for x in top]
        elif d == 7:
            top = [("flag = 1" if x.startswith("flag") else x) for x in top]
        else:
            top = [("mode = { Fast = {} }" if x.startswith("mode") else x) for x in top]
            tables = [t for t in tables if not t.startswith("[mode")]
    r.shuffle(top)
    r.shuffle(tables)
    return "\n".join(top) + "\n\n" + "\n".join(tables)


PRIVATE_DOCS = [
    '-=00:00:00',
    'a=00:00:00',
    'when = 1979-05-27T07:32:00Z\n',
    'x = { "$__toml_private_datetime" = "1979-05-27" }\n',
    'x = { "$__toml_private_datetime" = "1979-05-27", y = 1 }\n',
    'x = { y = 1, "$__toml_private_datetime" = "1979-05-27" }\n',
    'x = { "$__toml_private_datetime" = "nope" }\n',
    'x = { "$__toml_private_datetime" = 1 }\n',
    '"$__toml_private_datetime" = "1979-05-27"\n',
    '"$__toml_private_datetime" = "1979-05-27"\ny = 1\n',
    '"$__toml_private_datetime" = true\n',
    'a = [1979-05-27, { b = 07:32:00 }]\n',
    '[["$__toml_private_datetime"]]\n',
    'd = 1979-05-27\nt = 07:32:00\ndt = 1979-05-27T07:32:00Z\nlist = [1979-05-27]\n',
    'name = "n"\ndob = 1979-05-27\n',
    'name = "n"\n',
]

SVALS = {
    "owner": ['{ name = "x" }', '{ name = "x", dob = 1979-05-27 }', '{ dob = 1979-05-27 }', '"x"', '{ name = 1 }'],
    "mode": ['"Fast"', '"Nope"', '{ Custom = 5 }', '{ Pair = [1, "a"] }', '{ Tuned = { level = 1, label = "l" } }', '{ Fast = {} }', '{ Fast = [] }', '{}',
             '{ Custom = 5, Fast = {} }', '1', '{ Pair = [1] }', '{ Pair = { 0 = 1, 1 = "a" } }'],
    "datetime": ["1979-05-27T07:32:00Z", "1979-05-27", "07:32:00", '"1979-05-27"', "1", '{ "$__toml_private_datetime" = "1979-05-27" }'],
    "date": ["1979-05-27", "1979-05-27T07:32:00Z", "07:32:00", '"1979-05-27"'],
    "time": ["00:00:00", "07:32:00", "07:32:00.5", "1979-05-27", '"07:32:00"'],
    "i64": ["1", "-1", "0x7fffffffffffffff", "1.0", '"1"', "true", "1979-05-27"],
    "f64": ["1.5", "1", "nan", "-inf", '"1.5"', "1e400"],
    "bool": ["true", "false", "1", '"true"'],
    "string": ['"x"', "'x'", '"""x"""', "1", "1979-05-27", "true", '["x"]'],
    "veci64": ["[]", "[1, 2]", "[1, 2.0]", "[[1]]", "1", '[1, "a"]'],
    "pt": ["{ x = 1, y = 2 }", "{ x = 1 }", "{ x = 1, y = 2, z = 3 }", "[1, 2]", "{ y = 2, x = 1 }"],
}


def gen(ctx):
    rng = ctx.rng
    big = ctx.tier != "quick"
    hist = {}
    dochist = {}
    typedhist = ctx.cov.setdefault("typed_generator_histogram", {})
    cases = {"S": [], "P": []}
    meta = {"S": [], "P": []}

    def add(fl, line, kind, exp=None):
        cases[fl].append(line)
        meta[fl].append((kind, exp))
        hist[f"{kind}"] = hist.get(f"{kind}", 0) + 1

    # 0. fixed regression cases: the reduced witnesses come first and are the shortest of their kind
    add("S", "val s 0", "fixed")
    for t in PRIVATE_DOCS:
        for target in ("s", "value", "table", "dates", "owner"):
            add("S", f"doc {h(t.encode())} {target}", "fixed")
            add("P", f"doc {h(t.encode())} {target}", "fixed")
    for t in [("d", "00:00:00"), ("t", [(b"", ("d", "00:00:00"))]), ("t", [(b"a", ("d", "00:00:00"))]), ("d", "1979-05-27T07:32:00Z"), ("t", [(b"a", ("d", "1979-05-27T07:32:00Z"))]), ("t", [(PRIVATE, ("s", b"1979-05-27"))]),
              ("t", [(b"a", ("t", [(PRIVATE, ("s", b"1979-05-27")), (b"b", ("i", 1))]))]), ("a", [("d", "07:32:00")]), ("i", 5), ("t", []),
              ("t", [(PRIVATE, ("a", []))]), ("t", [(PRIVATE, ("b", False))])]:
        for fl in "SP":
            add(fl, f"tval {fl} {sx(t)}", "fixed")
    # 1. documents into toml::Value and toml::Table (model-compared; generated ones carry the generator's intended tree)
    dg = docgen.Gen(rng, dochist)
    nd = 30000 if big else 700
    docs = []
    for j in range(nd):
        text, tree = dg.document()
        docs.append(text.encode())
        exp = docgen.plain(tree)
        add("SP"[j % 2], f"doc {h(text.encode())} {'value' if j % 4 < 2 else 'table'}", "doc-generated", exp)
    for name, data in corpus_files():
        valid = name.startswith("valid")
        if valid or big or rng.random() < 0.25:
            add("S", f"doc {h(data)} value", "doc-corpus-" + ("valid" if valid else "invalid"))
            add("P", f"doc {h(data)} table", "doc-corpus-" + ("valid" if valid else "invalid"))
    for name, data in regression_files():
        add("S", f"doc {h(data)} value", "doc-regression")
    for _ in range(20000 if big else 500):
        m = docgen.mutate(rng, rng.choice(docs))
        add("S", f"doc {h(m)} {rng.choice(['value', 'table'])}", "doc-mutated")
    # 2. documents into the derived types
    for j in range(30000 if big else 900):
        t = typed_doc(rng, defect=(j % 3 == 2))
        target = "config" if j % 5 else rng.choice(["plain", "owner", "dates", "s", "value"])
        add("SP"[j % 2], f"doc {h(t.encode())} {target}", "doc-typed-defect" if j % 3 == 2 else "doc-typed")
    for j in range(400 if big else 60):
        add("S", f"doc {h(rng.choice(docs))} {rng.choice(['config', 'plain', 'dates', 'owner', 's'])}", "doc-generated-typed")
    # 3. single values
    for j in range(4000 if big else 500):
        text, tree = dg.value()
        add("S", f"sval {h(text.encode())} value", "sval-generated", docgen.plain(tree))
    for target, texts in SVALS.items():
        for t in texts:
            add("S", f"sval {h(t.encode())} {target}", "sval-typed")
            add("S", f"sval {h(t.encode())} value", "sval-typed-as-value")
    # 4. values of the derived types
    ns = 20000 if big else 400
    for ty in TYPES:
        for seed in range(ns if ty in ("config", "plain", "dates", "ints") else ns // 4):
            add("SP"[seed % 2], f"val {ty} {seed}", "val-" + ty)
    # 5. toml::Value trees through their own serializer / deserializer
    for label, t, ident in exhaustive_trees(2, []):
        add("P", f"tval P {sx(t)}", "tval-" + label)
        if ident:
            add("S", f"tval S {sx(t)}", "tval-" + label)
    for j in range(60000 if big else 1500):
        g = TreeGen(rng, floats=(j % 3 == 0))
        t = g.value(0) if j % 5 == 0 else g.root()
        fl = "SP"[j % 2]
        add(fl, f"tval {fl} {sx(t)}", "tval-random")
    # 6. typed targets from the type grammar: instances in several layouts, defects, perturbed types, single values
    for fl, line, kind, exp in c13typed.gen_typed(rng, big, typedhist):
        add(fl, line, kind, exp)
    return cases, meta, hist, dochist


def tcheck_cases(ctx, texts):
    """the permanent validation of the TySeed description of serde: the derived types of the harness and TySeed of the
    same shape on the same documents (serialized values, their mutations, Config-shaped documents with and without
    a defect, hand-written single values)"""
    rng = ctx.rng
    big = ctx.tier != "quick"
    out = []
    for ty, ts in sorted(texts.items()):
        if ty not in c13typed.TARGET_TY:
            continue          # (the root-enum family is not described in the type grammar's target list)
        enc = c13typed.enc(c13typed.TARGET_TY[ty])
        for j, t in enumerate(ts):
            fl = "SP"[j % 2]
            out.append((fl, f"tcheck {fl} {ty} {enc} {h(t)}", "tcheck-serialized-" + ty))
            for _ in range(2 if big else 1):
                out.append((fl, f"tcheck {fl} {ty} {enc} {h(docgen.mutate(rng, t))}", "tcheck-mutated-" + ty))
    enc = c13typed.enc(c13typed.CONFIG)
    for j in range(6000 if big else 300):
        fl = "SP"[j % 2]
        t = typed_doc(rng, defect=(j % 2 == 1))
        out.append((fl, f"tcheck {fl} config {enc} {h(t.encode())}", "tcheck-config-document" + ("-defect" if j % 2 else "")))
    for target, key in (("vmode", "mode"), ("vpt", "pt"), ("vowner", "owner")):
        enc = c13typed.enc(c13typed.TARGET_TY[target])
        for t in SVALS[key] + ["[1, 2, 3]", '{ Tuned = [1, "l"] }', '{ Tuned = [1, "l", 2] }', '{ Tuned = { level = 1, label = "l", x = 1 } }', '{ Pair = { 1 = "a", 0 = 1 } }',
                               "{ Slow = [] }", "{ Slow = [1] }", '{ name = "n", dob = 1979-05-27, more = [1] }', "{ x = 1, y = 300000000000 }", '["n", 1979-05-27]', '["n"]']:
            for fl in "SP":
                out.append((fl, f"tcheck {fl} {target} {enc} {h(t.encode())}", "tcheck-single-" + target))
    return out


def source_dispatch():
    """the `deserialize_*` methods each deserializer implements itself, read from the sources: everything named in
    the `impl Deserializer for X` block that is not in its `forward_to_deserialize_any!` list"""
    def own(path, header_rx):
        src = open(os.path.join(REPO, path)).read()
        m = re.search(header_rx, src)
        if not m:
            return None
        body = src[m.end():]
        end = re.search(r"\n}\n", body)
        body = body[: end.start()] if end else body
        fns = set(re.findall(r"fn deserialize_(\w+)", body))
        fw = re.search(r"forward_to_deserialize_any!\s*\{([^}]*)\}", body)
        forwarded = set(fw.group(1).split()) if fw else set()
        if fns & forwarded:
            return None
        order = ["any", "option", "newtype_struct", "struct", "enum"]
        extra = fns - set(order)
        if extra:
            return "extra:" + ",".join(sorted(extra))
        # everything else of the trait must be in the forward list
        need = {"bool", "u8", "u16", "u32", "u64", "i8", "i16", "i32", "i64", "f32", "f64", "char", "str", "string", "seq", "bytes",
                "byte_buf", "map", "unit", "ignored_any", "unit_struct", "tuple_struct", "tuple", "identifier"} | (set(order) - fns)
        if not need <= forwarded:
            return "unforwarded:" + ",".join(sorted(need - forwarded))
        return ",".join(x for x in order if x in fns)
    return {
        "edit_doc": own("crates/toml_edit/src/de/mod.rs", r"impl<'de, S: Into<String>> serde::Deserializer<'de> for Deserializer<S> \{"),
        "edit_value": own("crates/toml_edit/src/de/value.rs", r"impl<'de> serde::Deserializer<'de> for ValueDeserializer \{"),
        "toml_doc": own("crates/toml/src/de.rs", r"impl<'de> serde::Deserializer<'de> for Deserializer<'_> \{"),
        "toml_value": own("crates/toml/src/de.rs", r"impl<'de> serde::Deserializer<'de> for ValueDeserializer<'_> \{"),
        "value": own("crates/toml/src/value.rs", r"impl<'de> de::Deserializer<'de> for Value \{"),
        "table": own("crates/toml/src/table.rs", r"impl<'de> de::Deserializer<'de> for Table \{"),
    }


def has_datetime(case, line):
    if "=d" in line or "[d" in line or ";d" in line or "c0=d" in line or "ok:d" in line:
        return True
    for m in re.finditer(r"(?:c0|orig)=([0-9a-f]{8,})", line):
        try:
            if b"Datetime {" in bytes.fromhex(m.group(1)) or b"Date {" in bytes.fromhex(m.group(1)) or b"Time {" in bytes.fromhex(m.group(1)):
                return True
        except ValueError:
            pass
    p = case.split(" ")
    if p[0] in ("tval",) and re.search(r"(^|[=;\[])d[0-9a-f]", p[2]):
        return True
    return False


def run(ctx):
    translate(ctx)
    mods = ["TomlVerif.Props.C13", "driver"]
    lake_build(ctx, mods, {"TomlVerif.Props.C13": "property theorems"})
    audit(ctx, "TomlVerif.Props.C13", "TomlVerif/Props/C13.lean")
    extra_props(ctx, ["C13Typed", "C13TypedParsed"])
    if ctx.tier == "thorough":
        leanchecker(ctx, "TomlVerif.Props.C13")
    bins = build_both(ctx)
    if bins is None:
        ctx.violation("harness does not build against /repo", {"unchecked": "cargo build"}, concrete=False)
        return
    from props import probe_compare as _pc
    regression_lines(ctx, bins["S"], ["c13"], compare=_pc.fieldwise)
    regression_lines(ctx, bins["P"], ["c13"], compare=_pc.fieldwise, suffix="_P", driver_mode="c13p")
    # tie of the dispatch tables of Model/DeRoutes.lean to the sources
    rc, out, err = run_lines(driver_path(), "c13", ["dispatch"])
    md = fields(out[0]) if out else {}
    sd = source_dispatch()
    ok = (md.get("edit") == sd["edit_doc"] == sd["edit_value"] and md.get("toml") == sd["toml_doc"] == sd["toml_value"]
          and md.get("value") == sd["value"] == sd["table"])
    ctx.oblige("dispatch tables of Model/DeRoutes.lean = the forward_to_deserialize_any! lists of the six Deserializer impls", ok, f"model {md} source {sd}")
    src = open(os.path.join(REPO, "crates/toml/src/value.rs")).read()
    dt_string = "Value::Datetime(v) => visitor.visit_string(v.to_string())" in src
    a = src.find("impl ser::Serializer for ValueSerializer")
    b = src.find("pub(crate) struct TableSerializer")
    vs_block = src[a:b] if 0 <= a < b else ""
    name_ignored = re.search(r"fn serialize_struct\(\s*self,\s*_name: &'static str,\s*len: usize,\s*\) -> Result<Self::SerializeStruct, crate::ser::Error> \{\s*self\.serialize_map\(Some\(len\)\)", vs_block) is not None
    ctx.oblige("Model/DeRoutes.lean currentDtAsMap / currentHonourName describe crates/toml/src/value.rs as it stands",
               bool(vs_block) and md.get("dt_as_map") == ("0" if dt_string else "1") and md.get("honour_name") == ("0" if name_ignored else "1"),
               f"model dt_as_map={md.get('dt_as_map')} honour_name={md.get('honour_name')}; source: Datetime arm is visit_string: {dt_string}; ValueSerializer::serialize_struct ignores the name: {name_ignored}")
    cases, meta, hist, dochist = gen(ctx)
    ndis = 0
    first = None
    compared = 0
    model_fields = 0
    total = 0
    nontriv = set()
    bads = {}
    oracle_hist = {}
    verdict_split = {}
    split_examples = {}
    all_ok = 0
    some_ok = 0
    typed_total = {}
    val_texts = {t: [] for t in TYPES}

    def bad(case, i, m, fl, oracle, routes, what):
        # cause class: the private key used as an ordinary key/string (one group per case kind), a date-time on the
        # toml::Value route (one group per case kind and oracle), anything else (per oracle and routes)
        pk = PRIVATE.hex() in case or (case.startswith("val ") and PRIVATE.hex() in fields(i).get("orig", ""))
        dt = has_datetime(case, i)
        cause = "private-key" if pk else ("date-time" if dt else "other")
        sig = (case.split(" ")[0], cause, "*" if pk else oracle, "*" if (pk or dt) else ",".join(sorted(routes)))
        oracle_hist.setdefault(sig, {})
        oracle_hist[sig][oracle] = oracle_hist[sig].get(oracle, 0) + 1
        text = ""
        p = case.split(" ")
        if p[0] in ("doc", "sval"):
            text = unh(p[1]).decode(errors="replace")[:400]
        elif p[0] in ("typed", "typedv"):
            text = unh(p[3]).decode(errors="replace")[:400]
        elif p[0] == "tcheck":
            text = unh(p[4]).decode(errors="replace")[:400]
        bads.setdefault(sig, []).append((len(case), case, what, {"mode": "c13", "flavour": fl, "case": case, "text": text, "impl": i[:3000], "model": m[:3000], "witness": ("class:private-datetime-key-as-ordinary-key" if pk else case)}))

    for fl in "SP":
        impl, model = run_pair(ctx, bins[fl], "c13", cases[fl], driver_mode=("c13p" if fl == "P" else None))
        for c, (kind, exp), i, m in zip(cases[fl], meta[fl], impl, model):
            total += 1
            p = c.split(" ")
            f = fields(i)
            if i.startswith("PANIC") or i == "CRASH":
                bad(c, i, m, fl, "panic", [], f"panic: {i[:120]}")
            elif i in ("flavour-mismatch", "bad-op", "bad-type", "bad-target"):
                bad(c, i, m, fl, "harness", [], f"harness answered {i}")
            elif p[0] in ("doc", "sval") and i != "not-utf8":
                routes = DOC_ROUTES if p[0] == "doc" else SVAL_ROUTES
                oks = [r for r in routes if f.get(r, "err") != "err"]
                differ = [r for r in routes if f.get(r, "").startswith("ok:")]
                if differ:
                    names = "; ".join(f"{ROUTE_NAMES[r]} gives {f[r][3:][:120]}" for r in differ[:2])
                    bad(c, i, m, fl, "routes-agree", differ, f"routes succeed with different results: {ROUTE_NAMES[oks[0]]} gives {f['c0'][:120]} but {names}")
                if oks:
                    some_ok += 1
                    if len(oks) == len(routes):
                        all_ok += 1
                    else:
                        key = (p[0], ",".join(r for r in routes if r not in oks))
                        verdict_split[key] = verdict_split.get(key, 0) + 1
                        if key not in split_examples or len(c) < len(split_examples[key]):
                            split_examples[key] = c
                    if len(p[1]) > 16:
                        nontriv.add(c)
                if exp is not None:
                    if f.get("c0") != exp:
                        bad(c, i, m, fl, "generator-tree", [], f"the text routes decode to {f.get('c0', '')[:160]}, the generator intended {exp[:160]}")
                if kind == "doc-corpus-valid" and p[2] in ("value", "table") and not all(f.get(r, "err") != "err" for r in TEXT_ROUTES):
                    bad(c, i, m, fl, "corpus-valid", [], "a valid corpus document is rejected by a text route")
            elif p[0] in ("typed", "typedv") and i != "not-utf8":
                routes = TYPED_ROUTES if p[0] == "typed" else TYPEDV_ROUTES
                oks = [r for r in routes if f.get(r, "err") != "err"]
                differ = [r for r in routes if f.get(r, "").startswith("ok:")]
                typed_total[kind] = typed_total.get(kind, 0) + 1
                if differ:
                    names = "; ".join(f"{ROUTE_NAMES[r]} gives {f[r][3:][:120]}" for r in differ[:2])
                    bad(c, i, m, fl, "routes-agree", differ, f"type {p[2][:120]}: routes succeed with different results: {ROUTE_NAMES[oks[0]]} gives {f['c0'][:120]} but {names}")
                if oks:
                    some_ok += 1
                    nontriv.add(c)
                    if len(oks) == len(routes):
                        all_ok += 1
                    else:
                        key = (p[0], ",".join(r for r in routes if r not in oks))
                        verdict_split[key] = verdict_split.get(key, 0) + 1
                        if key not in split_examples or len(c) < len(split_examples[key]):
                            split_examples[key] = c
                if exp is not None:
                    failing = [r for r in routes if r not in oks]
                    if failing:
                        bad(c, i, m, fl, "typed-instance-decodes", failing, f"type {p[2][:120]}: a document generated from the type is rejected by: " + ", ".join(ROUTE_NAMES[r] for r in failing))
                    elif f.get("c0") != exp:
                        bad(c, i, m, fl, "typed-instance-value", [], f"type {p[2][:120]}: the routes decode to {f.get('c0', '')[:160]}, the generator intended {exp[:160]}")
            elif p[0] == "val":
                if "text" in f and p[1] in val_texts and len(val_texts[p[1]]) < (1500 if ctx.tier != "quick" else 60):
                    val_texts[p[1]].append(unh(f["text"]))
                if "ser" in f:
                    bad(c, i, m, fl, "serializes", [], f"a value of the derived family does not serialize: {f['ser']}")
                else:
                    nontriv.add(c)
                    failing = [r for r in DOC_ROUTES if f.get(r) == "err"]
                    differ = [r for r in DOC_ROUTES if f.get(r, "").startswith("ok:")]
                    if f.get("c0") not in ("orig", f.get("orig")):
                        differ = DOC_ROUTES
                    text = unh(f["text"]).decode(errors="replace") if "text" in f else ""
                    if failing:
                        bad(c, i, m, fl, "serialized-text-decodes", failing, f"on the serialized text {text[:80]!r} these routes fail: " + ", ".join(ROUTE_NAMES[r] for r in failing))
                    if differ:
                        bad(c, i, m, fl, "serialized-text-returns-value", differ, f"on the serialized text {text[:80]!r} these routes return another value: " + ", ".join(ROUTE_NAMES[r] for r in differ))
                    if f.get("tf") != "same":
                        bad(c, i, m, fl, "try_from-value", [], f"Value::try_from(v) = {f.get('tf', '')[:200]} but from_str::<Value>(to_string(v)) = {f.get('parsed', '')[:200]}")
                    if f.get("tt") != "same":
                        bad(c, i, m, fl, "try_from-table", [], f"Table::try_from(v) = {f.get('tt', '')[:200]} but from_str::<Value>(to_string(v)) = {f.get('parsed', '')[:200]}")
                    if f.get("tfback") != "1":
                        bad(c, i, m, fl, "try_from-try_into", [], f"Value::try_from(v).try_into() does not return v (code {f.get('tfback')})")
            elif p[0] == "tval":
                want = "ok:" + f.get("canon", "")
                root_table = p[2].startswith("{")
                nontriv.add(c)
                if f.get("tf") != want:
                    bad(c, i, m, fl, "tree-try_from", [], f"Value::try_from(v) = {f.get('tf', '')[:200]} for v = {f.get('canon', '')[:200]}")
                if f.get("ti") != want:
                    bad(c, i, m, fl, "tree-try_into", [], f"v.try_into::<Value>() = {f.get('ti', '')[:200]} for v = {f.get('canon', '')[:200]}")
                if root_table and f.get("tt") != want:
                    bad(c, i, m, fl, "tree-table-try_from", [], f"Table::try_from(v) = {f.get('tt', '')[:200]} for v = {f.get('canon', '')[:200]}")
                if root_table and f.get("text") != want and "f7ff" not in f.get("canon", "") and "ffff" not in f.get("canon", ""):
                    bad(c, i, m, fl, "tree-text", [], f"from_str(to_string(v)) = {f.get('text', '')[:200]} for v = {f.get('canon', '')[:200]}")
            mm, nf = model_mismatch(i, m)
            if nf:
                compared += 1
                model_fields += nf
            if mm:
                ndis += 1
                if first is None or len(c) < len(first[0]):
                    first = (c, mm)
    # second pass: the derived types of the harness against TySeed of the same shape (validates the description of serde
    # the typed cases rest on), on the texts the `val` cases serialized
    tc = tcheck_cases(ctx, val_texts)
    tc_hist = {}
    tc_bad = []
    for fl in "SP":
        sub = [x for x in tc if x[0] == fl]
        impl, model = run_pair(ctx, bins[fl], "c13", [x[1] for x in sub])
        for (_, c, kind), i, m in zip(sub, impl, model):
            total += 1
            tc_hist[kind] = tc_hist.get(kind, 0) + 1
            f = fields(i)
            if i.startswith("PANIC") or i == "CRASH":
                bad(c, i, m, fl, "panic", [], f"panic: {i[:120]}")
            elif i in ("flavour-mismatch", "bad-op", "bad-type", "bad-target"):
                bad(c, i, m, fl, "harness", [], f"harness answered {i}")
            elif i != "not-utf8":
                if f.get("same") != "1":
                    tc_bad.append((len(c), c, i))
                routes = TYPEDV_ROUTES if c.split(" ")[2].startswith("v") else TYPED_ROUTES
                differ = [r for r in routes if f.get(r, "").startswith("ok:")]
                if differ:
                    bad(c, i, m, fl, "routes-agree", differ, f"derived type {c.split(' ')[2]}: routes succeed with different results: {i[:200]}")
                if any(f.get(r, "err") != "err" for r in routes):
                    nontriv.add(c)
            mm, nf = model_mismatch(i, m)
            if nf:
                compared += 1
                model_fields += nf
            if mm:
                ndis += 1
                if first is None or len(c) < len(first[0]):
                    first = (c, mm)
    tc_bad.sort()
    ctx.oblige("TySeed (the dynamic target of the typed cases) behaves as the derived types of the harness: same verdict and same value on every route",
               not tc_bad, f"{len(tc_bad)} cases differ; shortest: {tc_bad[0][1][:300]} -> {tc_bad[0][2][:600]}" if tc_bad else "")
    for sig, lst in sorted(bads.items(), key=lambda kv: str(kv[0])):
        lst.sort(key=lambda x: (x[0], x[1]))
        _, c, what, rep = lst[0]
        rep["same_signature"] = {"count": len(lst), "signature": {"case_kind": sig[0], "cause": sig[1], "oracle": sig[2], "routes": sig[3]},
                                 "oracles_failed": oracle_hist.get(sig, {}), "more": [x[1][:300] for x in lst[1:4]]}
        ctx.violation(f"{c[:200]}: {what}" + (f" [+{len(lst) - 1} more cases with the same signature]" if len(lst) > 1 else ""), rep)
    ctx.oblige("correspondence c13: model driver = implementation on every covered field of every case", ndis == 0, f"{ndis} disagreements; shortest: {first}")
    if ctx.broken and not ctx.violations:
        for n, d in ctx.broken:
            ctx.violation(f"obligation no longer checks: {n}", {"unchecked": n, "detail": d[:1500], "searched": f"{total} cases against route agreement, decode-of-serialized-text, try_from = parse-of-text"}, concrete=False)
    ctx.cov.update({
        "evaluations": total, "distinct_nontrivial": len(nontriv),
        "rule": "doc: generated documents (with the generator's intended tree), corpus files, mutations, Config-shaped documents in many layouts with and without a defect, private-key documents, each into toml::Value / toml::Table / 5 derived types through 11 routes; sval: generated and hand-written single values into 12 targets through 6 routes; val: seeded values of 5 derived types (serialize, 11 routes back, try_from vs parse); tval: toml::Value trees (exhaustive 2-key tables over 10 entry kinds, random trees) through Value::try_from, try_into::<Value>, Table::try_from and the text route, both map flavours; typed / typedv: random target types of the type grammar (depth <= 3: scalars of every width, Option, Vec, tuples, BTreeMap, newtype structs, structs with Option / #[serde(default)] fields, enums with unit / newtype / tuple / struct variants, Datetime / Date / Time, toml::Value, IgnoredAny) driven by the dynamic target TySeed through 6 document routes / 4 single-value routes: instances generated FROM the type in inline / header / dotted / array-of-tables layouts (with the intended decoded value), structural defects of such instances, the same documents against a perturbed type, arbitrary values, fixed witnesses of every verdict difference between the two deserializer families; tcheck: the derived types of the harness and TySeed of the same shape side by side. non-trivial = a doc/sval case of more than 8 bytes on which at least one route succeeds, a val/tval case, or a typed / typedv / tcheck case on which at least one route succeeds",
        "samples": [cases["S"][0], cases["S"][3][:160], cases["P"][-1][:160]],
        "input_histogram": dict(sorted(hist.items())),
        "document_generator_histogram": dict(sorted(dochist.items())[:40]),
        "cases_with_a_successful_route": some_ok, "cases_where_every_route_succeeds": all_ok,
        "routes_failing_while_others_succeed": {f"{k[0]}:{k[1]}": {"count": v, "example": split_examples[k][:200]} for k, v in sorted(verdict_split.items(), key=lambda kv: -kv[1])[:12]},
        "violation_signatures": len(bads),
        "typed_cases": dict(sorted(typed_total.items())), "tcheck_cases": dict(sorted(tc_hist.items())), "tcheck_disagreements": len(tc_bad),
        "traces_validated_against_impl": compared, "model_fields_compared": model_fields, "disagreements": ndis,
        "model_compared_fields": "doc / sval cases with target value or table: every route's verdict and canonical result (the model parses the text with the document model, presents it as toml_edit does, runs Value's / Map's visitor, and for the four Value routes presents the tree again as `impl Deserializer for toml::Value` does); tval cases: canon, tf, ti, tt and (trees without floats) text. The six derived targets of `doc` / `sval` and the val cases are implementation-vs-oracle only (the model answers n/a); typed / typedv / tcheck cases: every route's verdict and decoded value (Model/DeTyped.lean: decodeEdit on the parsed tree for the text routes, decodeValue on the toml::Value / toml::Table the text decodes to for the other two)",
        "oracles": ["every two routes that succeed return equal results", "a document generated from a type of the grammar decodes on every route to the value the generator intended",
                    "TySeed and the derived type of the same shape give the same verdict and value on every route", "on to_string(v) every route succeeds and returns v", "Value::try_from(v) and Table::try_from(v) equal from_str::<Value>(to_string(v))",
                    "Value::try_from(v).try_into() returns v", "for a toml::Value tree: try_from, try_into::<Value> and the text route are the identity", "generated documents decode to the generator's intended tree"],
    })
    ctx.assumptions.append("routes are compared on their results; a route that fails where another succeeds is counted (routes_failing_while_others_succeed) but, per the property text ('whenever they succeed'), only reported when the text was obtained by serializing a value of the target type")
