"""C04 — no input makes the library panic, abort or hang."""
import re
from vlib import *
import docgen
from props.parse_common import corpus_files, SLOTS


def gen(ctx):
    rng = ctx.rng
    big = ctx.tier != "quick"
    g = docgen.Gen(rng)
    docs = [g.document()[0].encode() for _ in range(10000 if big else 500)]
    corp = [d for _, d in corpus_files()]
    out = list(corp)
    pool = docs + corp
    for _ in range(800000 if big else 9000):
        out.append(docgen.mutate(rng, rng.choice(pool)))
    # tokens alone (value / key / key path / date-time entry points)
    toks = []
    for _ in range(80000 if big else 2500):
        c = rng.randrange(6)
        if c == 0:
            toks.append(g.value()[0].encode())
        elif c == 1:
            toks.append(g.key()[0].encode())
        elif c == 2:
            toks.append(".".join(g.key()[0] for _ in range(rng.choice([1, 2, 3, 5]))).encode())
        elif c == 3:
            toks.append(g.datetime()[0].encode())
        elif c == 4:
            toks.append(docgen.mutate(rng, g.value()[0].encode()))
        else:
            toks.append(docgen.mutate(rng, g.datetime()[0].encode()))
    out += toks
    # arbitrary bytes incl. invalid UTF-8, truncated multi-byte sequences, NUL and controls
    for _ in range(150000 if big else 4000):
        n = rng.choice([1, 2, 3, 4, 6, 10, 30])
        out.append(bytes(rng.choice([rng.randrange(256), rng.choice(b"a=\"'\n[]{}#\\.1 \r\t-:TZ"), rng.choice(b"\xc3\xe2\xf0\x80\xbf\xed\xf4\xff")]) for _ in range(n)))
    for ch in ["é", "€", "😀", "퟿", "\U0010ffff"]:
        e = ch.encode()
        for i in range(1, len(e)):
            for sl in SLOTS[:10]:
                out.append(sl.replace(b"%s", e[:i]))
                out.append(sl.replace(b"%s", e[i:]))
    # unterminated constructs, extreme numbers and dates, several KiB
    big_inputs = ['a = "' + "x" * 5000, "a = '''" + "y\n" * 2000, "a = [" + "1, " * 3000, "a = {" + ", ".join(f"k{i} = {i}" for i in range(800)),
                  "a = " + "9" * 5000, "a = 0x" + "f" * 5000, "a = 1e" + "9" * 4000, "a = 0." + "0" * 6000 + "1", "a = 1" + "_1" * 3000,
                  "a = 9999-99-99T99:99:99.9999999999999999999999+99:99", "a = 2024-02-30", "a = 00:00:00." + "9" * 5000,
                  "[" * 3000, "[[" * 2000, "a" + ".a" * 3000 + " = 1", "a = \"" + "\\u00e9" * 1000 + "\"", "# " + "c" * 8000, "\n" * 8000, " " * 8000,
                  "a = \"\"\"" + "\\\n  " * 2000 + "\"\"\"", "\"" * 5000, "'" * 5000, "a = '''" + "''x" * 2000 + "'''", "k = 1\n" * 1500,
                  "[t]\nk = 1\n" * 800, "[[t]]\nk = 1\n" * 800, "a = [" + "[1], " * 1500 + "]", "x = { " + "a." * 70 + "b = 1 }"]
    # every nesting construct far beyond the limit (a limit forgotten for ONE of them lets the tree — and then clone /
    # print / drop / deserialize — recurse without bound: a stack overflow kills the harness process)
    deep_only = []
    for n in (300, 3000, 30000):
        segs = ".".join(["a"] * n)
        (big_inputs if n == 300 else deep_only).extend([f"[{segs}]\n", f"[[{segs}]]\n", f"{segs} = 1\n", "x = { " + segs + " = 1 }\n", "x = " + "[" * n + "]" * n + "\n",
                       "x = " + "{a=" * n + "1" + "}" * n + "\n", "x = " + "[{a=" * (n // 2) + "1" + "}]" * (n // 2) + "\n",
                       "x = { " + "a.a = {" * (n // 2) + "a.a = 1" + "}" * (n // 2) + " }\n", f"[[{segs}]]\n[{segs}.b]\nk = 1\n"])
    ctx.deep_only = [t.encode() for t in deep_only]
    for t in big_inputs:
        out.append(t.encode())
        out.append(t.encode()[: len(t) // 2])
    out += [b"", b"\x00", b"\xff", b"\xef\xbb\xbf", b"\xef\xbb", b"\xef\xbb\xbf\xef\xbb\xbf", b"\r", b"\n", b"=", b".", b"a.", b".a", b"a..b", b'"', b"'", b'""" ', b"''' "]
    return list(dict.fromkeys(out))


def run(ctx):
    translate(ctx)
    mods = ["TomlVerif.Gen.CheckPanic", "TomlVerif.Gen.CheckLex", "TomlVerif.Props.C04", "driver"]
    lake_build(ctx, mods, {"TomlVerif.Gen.CheckPanic": "table theorem: the panic-site inventory of the anchored files = the sites the models account for",
                           "TomlVerif.Gen.CheckLex": "table theorems: byte classes (ASCII-only classes feed from_utf8_unchecked)",
                           "TomlVerif.Props.C04": "property theorems"})
    audit(ctx, "TomlVerif.Props.C04", "TomlVerif/Props/C04.lean")
    extra_props(ctx, ["C04Fuel"])
    if ctx.tier == "thorough":
        leanchecker(ctx, "TomlVerif.Props.C04")
    tvh = cargo_build(ctx)      # dev profile: debug assertions and overflow checks on
    if tvh is None:
        ctx.violation("harness does not build against /repo", {"unchecked": "cargo build"}, concrete=False)
        return
    inputs = gen(ctx)
    lines = [h(b) for b in inputs]
    impl, model = run_pair(ctx, tvh, "c04", lines)
    ndis, first = 0, None
    slow = []
    maxus = 0
    verdicts = {}
    for b, ln, i, m in zip(inputs, lines, impl, model):
        bad = None
        if i.startswith("PANIC"):
            msg = bytes.fromhex(i[6:]).decode(errors="replace") if i[6:] != "-" else ""
            bad = f"panic: {msg[:160]}"
        elif i == "CRASH":
            bad = "abort / crash / stack overflow of the process"
        elif i.startswith("mixed"):
            bad = f"entry points disagree: {i}"
        else:
            mu = re.search(r" us=(\d+)", i)
            us = int(mu.group(1)) if mu else 0
            maxus = max(maxus, us)
            if us > 2_000_000 + 200 * len(b):
                bad = f"took {us} us for {len(b)} bytes"
            core = re.sub(r" us=\d+", "", i)
            verdicts[core] = verdicts.get(core, 0) + 1
            if core != m:
                ndis += 1
                if first is None or len(ln) < len(first[0]):
                    first = (b[:80], core, m)
        if bad:
            ctx.violation(f"{len(b)} bytes {b[:50]!r}: {bad}", {"mode": "c04", "case": ln, "bytes": b[:3000].decode("utf-8", errors="replace"), "impl": i[:400], "model": m, "witness": ln})
    # far-beyond-limit inputs: implementation only (the model's fuelled loops are quadratic on them); they must be
    # refused (or at least survive every follow-up operation) without killing the process
    dlines = [h(b) for b in ctx.deep_only]
    dimpl = []
    k = 0
    while k < len(dlines):
        rc, o, _ = run_lines(tvh, "c04", dlines[k:])
        dimpl += o
        if len(dimpl) >= len(dlines):
            break
        dimpl.append("CRASH")
        k = len(dimpl)
    for b, ln, i in zip(ctx.deep_only, dlines, dimpl):
        if i == "CRASH" or i.startswith("PANIC"):
            ctx.violation(f"{len(b)} bytes {b[:50]!r}: abort / crash / stack overflow of the process" if i == "CRASH" else f"{len(b)} bytes {b[:50]!r}: panic",
                          {"mode": "c04", "case": ln, "bytes": b[:300].decode("utf-8", errors="replace"), "impl": i[:400], "witness": ln})
    ctx.cov["far_beyond_limit_inputs"] = len(dlines)
    ctx.oblige("correspondence c04: per-entry-point verdicts (document, value, key, key path, standalone date-time, slice) of the model = implementation; the model has no panic outcome",
               ndis == 0, f"{ndis} disagreements; shortest: {first}")
    if ctx.broken and not ctx.violations:
        for n, d in ctx.broken:
            ctx.violation(f"obligation no longer checks: {n}", {"unchecked": n, "detail": d[:1500], "searched": f"{len(inputs)} inputs through every entry point under catch_unwind"}, concrete=False)
    ctx.cov.update({
        "evaluations": len(inputs), "distinct_nontrivial": len([b for b in inputs if len(b) > 2]),
        "rule": "toml-test files, byte mutations of generated and corpus documents, single tokens and their mutations (value/key/key-path/date-time entry points), arbitrary bytes with invalid UTF-8 and truncated multi-byte sequences, partial characters in 10 slots, unterminated and extreme constructs of several KiB and their halves; each through from_slice, ImDocument, DocumentMut, toml::from_str, Table::from_str, Value::from_str, ValueDeserializer, Key::from_str, Key::parse, Datetime::from_str, then print / {:?} / clone / into_mut / from_document / to_string(_pretty) / error rendering, in a build with debug assertions and overflow checks. non-trivial = longer than 2 bytes",
        "samples": [inputs[600][:80].hex(), inputs[len(inputs) // 2][:80].hex(), inputs[-20][:80].hex()],
        "verdict_histogram": dict(sorted(verdicts.items(), key=lambda kv: -kv[1])[:12]), "max_us": maxus,
        "traces_validated_against_impl": len(inputs), "disagreements": ndis,
    })
