"""comparators for the probe corpora (corpus/lines/<mode>.txt.gz): how much of an implementation line the model covers"""
from props.tv_common import model_mismatch

C07_ROUTES = ["ts", "tp", "es", "ep", "ed", "edx", "vt", "tt"]


def fields(line):
    return dict(kv.split("=", 1) for kv in line.split(" ") if "=" in kv)


def c07(i, m):
    if "=" not in i or "=" not in m:
        return None if i == m else f"impl {i[:120]} model {m[:120]}"
    f, fm = fields(i), fields(m)
    for k, v in fm.items():
        if k.endswith(".x"):
            if v not in ("n/a", "-") and f.get(k, "-") != v:
                return f"text {k}: impl {str(f.get(k))[:120]} model {v[:120]}"
        elif v != "n/a" and f.get(k) != v:
            return f"field {k}: impl {str(f.get(k))[:120]} model {v[:120]}"
    return None


def fieldwise(i, m):
    return model_mismatch(i, m)[0]


def cut_c03(i):
    return i.split(" p2=")[0]


def cut_c14(i):
    return i.split(" oracle=")[0]
