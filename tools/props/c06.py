"""C06 — anything built through the construction API prints as valid TOML that decodes back.

Trees are python tuples:
  value := ("s", bytes) | ("i", int) | ("f", bits) | ("b", bool) | ("d", date, time, off)
         | ("arr", via_iter, [value]) | ("inl", via_iter, [(key, value)])
  item  := value | ("tbl", via_iter, [(key, item)]) | ("aot", via_iter, [tbl])
The case line is the token stream documented in harness/src/c06.rs.
"""
import struct
from vlib import *

NAN_EXP = 0x7ff
F10_WITNESS = "class:empty-ArrayOfTables-not-printed"
F10_CASE = "e T{ 616f74 A[ ] 78 i 1 }"
TBLDISP_WITNESS = "class:Table-Display-omits-subtables"
TBLDISP_CASE = "b T{ 78 i 1 74 T{ 79 i 2 } }"
DTWRAP_WITNESS = "class:toml-Value-Datetime-Display-prints-private-wrapper"
DTWRAP_CASE = "u d 1979-5-27 - -"


# ------------------------------------------------------------------------------------------
# leaves
# ------------------------------------------------------------------------------------------
CHARS = ['"', "'", "\\", "\n", "\r", "\t", "\x00", "\x01", "\x08", "\x0c", "\x1f", "\x7f", "#", " ", ".", "=", "[", "]", "{", "}", ",",
         "a", "Z", "0", "9", "-", "_", "\u00e9", "\u00df", "\u20ac", "\u0085", "\u2028", "\ufeff", "\U0001f600", "\U0010ffff", "\ud7ff", "\ue000",
         "\x80", "\xa0"]
def char_class(c):
    o = ord(c)
    return ("dq" if c == '"' else "sq" if c == "'" else "backslash" if c == "\\" else "lf" if c == "\n" else "cr" if c == "\r"
            else "tab" if c == "\t" else "nul" if o == 0 else "del" if o == 0x7f else "ctl" if o < 0x20 else "hash" if c == "#"
            else "bare" if (c.isalnum() and o < 128) or c in "-_" else "punct" if o < 128 else "utf8-2" if o < 0x800
            else "utf8-3" if o < 0x10000 else "utf8-4")


SPECIAL_STRS = ["", "a", "a b", "'", "''", "'''", "''''", '"', '""', '"""', '""""', '\'"', '"\'', "'''\"\"\"", "\\", "\\\\", "\\n", "\\u0041", "a\\",
                "\n", "\n\n", "a\nb", "\r", "\r\n", "a\rb", "\t", " \t ", "\x00", "\x01\x02", "\x7f", "\x1f", "\x08\x0c", "#", "# not a comment",
                "a.b", "a=b", "[a]", "[[a]]", "{a=1}", "1,2", "é", "日本語", "😀", "﻿x", "\u0085", "  ",
                "'\n", '"\n', "'''\n", '"""\n', "\n'''", '\n"""', "''\n''", '""\n""', "'\"\n\\", "\"\"\"'''", "''' \"\"\" \n \\",
                "x" * 200, "'" * 7, '"' * 7, ("'\"" * 5), "\\\"", "\\'", "end with quote\"", "end with apostrophe'", "\nstart newline", "trailing newline\n",
                "\x00'\"\n\\\r\t\x7f#é😀"]
SPECIAL_KEYS = ["", "a", "A-Z_0-9", "-", "_", "1", "01", "1979-05-27", "07:32:00", "1979-05-27T07:32:00Z", "true", "false", "inf", "nan", "+inf", "-1", "+1",
                "1.5", "1e5", "0x10", "a.b", "a b", " ", "  ", "\t", "\n", "\r", "\r\n", "\x00", "\x7f", "\x1b", '"', "'", "'\"", '""', "''", "'''", '"""', "\\", "\\n",
                "#", "=", "[", "]", "[a]", "{", "}", ",", ".", "..", "é", "ʎǝʞ", "日本", "😀", "﻿", "a\nb", "'\n", "'\x01", '"\\', "'\"\n\\\x00"]

I64 = [0, 1, -1, 7, 10, -10, 2**31 - 1, -2**31, 2**31, 2**53, -(2**53), 2**53 + 1, 2**63 - 1, -(2**63), -(2**63) + 1, 2**62, 10**18, -(10**18), 9223372036854775806]


def fbits(x):
    return struct.unpack("<Q", struct.pack("<d", x))[0]


F64 = sorted(set(
    [fbits(x) for x in [0.0, -0.0, 1.0, -1.0, 0.1, -0.1, 0.5, 1.5, 1e15, 1e16, 1e17, 1e21, 1e22, 1e23, 1e100, 1e300, -1e300, 1.7976931348623157e308,
                        -1.7976931348623157e308, 5e-324, -5e-324, 2.2250738585072014e-308, 123456789.125, 1e-7, 1e-5, 3.0e-10, 9007199254740993.0,
                        0.30000000000000004, 4.5e15, 4503599627370496.5, 3.141592653589793]]
    + [0x7ff0000000000000, 0xfff0000000000000,                      # +-inf
       0x7ff8000000000000, 0xfff8000000000000,                      # canonical NaNs
       0x7ff0000000000001, 0xfff0000000000001, 0x7fffffffffffffff, 0xffffffffffffffff, 0x7ff4000000000000,  # other payloads
       0x0000000000000001, 0x000fffffffffffff, 0x0010000000000000, 0x7fefffffffffffff, 0x8000000000000001]))


def is_nan(bits):
    return (bits >> 52) & NAN_EXP == NAN_EXP and bits & (2**52 - 1) != 0


def canon_nan(bits):
    """what TOML can say about a NaN: its sign"""
    return ((bits >> 63) << 63) | 0x7ff8000000000000 if is_nan(bits) else bits


def max_days(y, m):
    if m == 2:
        return 29 if (y % 4 == 0 and (y % 100 != 0 or y % 400 == 0)) else 28
    return 30 if m in (4, 6, 9, 11) else 31


def rand_dt(rng):
    y = rng.choice([0, 1, 1979, 2000, 2024, 9999, rng.randrange(10000)])
    m = rng.randrange(1, 13)
    d = rng.choice([1, max_days(y, m), rng.randrange(1, max_days(y, m) + 1)])
    date = f"{y}-{m}-{d}"
    ns = rng.choice([0, 0, 1, 10, 500000000, 120000, 999999999, 100000000, 123456789, rng.randrange(10**9)])
    time = f"{rng.choice([0, 23, rng.randrange(24)])}:{rng.choice([0, 59, rng.randrange(60)])}:{rng.choice([0, 59, 60, rng.randrange(61)])}:{ns}"
    off = rng.choice(["Z", "0", "60", "-60", "1439", "-1439", "-1", str(rng.randrange(-1439, 1440))])
    k = rng.randrange(4)
    if k == 0:
        return ("d", date, time, off)
    if k == 1:
        return ("d", date, time, "-")
    if k == 2:
        return ("d", date, "-", "-")
    return ("d", "-", time, "-")


DT_FIXED = [("d", "1979-5-27", "7:32:0:0", "Z"), ("d", "1979-5-27", "0:32:0:999999000", "-420"), ("d", "1979-5-27", "7:32:0:0", "-"),
            ("d", "1979-5-27", "-", "-"), ("d", "-", "7:32:0:0", "-"), ("d", "-", "0:32:0:999999000", "-"), ("d", "0-1-1", "0:0:0:0", "0"),
            ("d", "9999-12-31", "23:59:60:999999999", "1439"), ("d", "2024-2-29", "23:59:59:1", "-1439"), ("d", "2000-2-29", "12:0:0:500000000", "-1")]


def rand_text(rng, maxlen=8):
    k = rng.randrange(8)
    if k == 0:
        return rng.choice(SPECIAL_STRS)
    n = rng.choice([0, 1, 1, 2, 3, 4, maxlen])
    if k == 1:
        pool = ['"', "'", "\n", "\\", "a"]       # quote/newline interplay decides the style
        return "".join(rng.choice(pool) for _ in range(n + 2))
    return "".join(rng.choice(CHARS) for _ in range(n))


def rand_key(rng):
    k = rng.randrange(6)
    if k == 0:
        return rng.choice(SPECIAL_KEYS)
    if k <= 2:
        return rng.choice(["a", "b", "c", "k", "x", "t", "aot", "key-1", "K_2"])
    return rand_text(rng, 5)


def rand_leaf(rng):
    k = rng.randrange(12)
    if k <= 3:
        return ("s", rand_text(rng).encode("utf-8"))
    if k <= 5:
        return ("i", rng.choice(I64 + [rng.getrandbits(64) - 2**63, rng.randrange(-1000, 1000)]))
    if k <= 7:
        return ("f", rng.choice(F64 + [rng.getrandbits(64), fbits(rng.randrange(-10**6, 10**6) / 64.0)]))
    if k == 8:
        return ("b", rng.random() < 0.5)
    if k == 9:
        return rng.choice(DT_FIXED)
    return rand_dt(rng)


ALL_LEAVES = ([("s", s.encode("utf-8")) for s in SPECIAL_STRS] + [("s", c.encode("utf-8")) for c in CHARS] + [("i", n) for n in I64]
              + [("f", b) for b in F64] + [("b", True), ("b", False)] + DT_FIXED)


# ------------------------------------------------------------------------------------------
# random trees
# ------------------------------------------------------------------------------------------
def rand_value(rng, depth):
    if depth <= 0 or rng.random() < 0.45:
        return rand_leaf(rng)
    n = rng.choice([0, 0, 1, 1, 2, 3, 4])
    if rng.random() < 0.5:
        return ("arr", rng.random() < 0.25, [rand_value(rng, depth - 1) for _ in range(n)])
    return ("inl", rng.random() < 0.25, rand_pairs(rng, n, lambda: rand_value(rng, depth - 1)))


def rand_pairs(rng, n, mk):
    out = []
    for _ in range(n):
        k = rand_key(rng)
        if out and rng.random() < 0.06:
            k = rng.choice(out)[0].decode("utf-8")        # a repeated key replaces in place
        out.append((k.encode("utf-8"), mk()))
    return out


def rand_table(rng, depth, p_empty_aot):
    n = rng.choice([0, 0, 1, 2, 2, 3, 4, 5])
    shape = rng.randrange(6)            # 0: only sub-tables, 1: only values, else mixed
    def mk():
        r = rng.random()
        if shape == 1 or depth <= 0 or (shape != 0 and r < 0.5):
            return rand_value(rng, min(depth, 2))
        if r < 0.78 or shape == 0 and r < 0.6:
            return rand_table(rng, depth - 1, p_empty_aot)
        m = rng.choice([1, 1, 2, 3])
        if rng.random() < p_empty_aot:
            m = 0
        return ("aot", rng.random() < 0.25, [rand_table(rng, depth - 1, p_empty_aot) for _ in range(m)])
    return ("tbl", rng.random() < 0.2, rand_pairs(rng, n, mk))


def tbl(*pairs):
    return ("tbl", False, [(k.encode("utf-8") if isinstance(k, str) else k, v) for k, v in pairs])


def aot(*ts):
    return ("aot", False, list(ts))


def arr(*vs):
    return ("arr", False, list(vs))


def inl(*pairs):
    return ("inl", False, [(k.encode("utf-8") if isinstance(k, str) else k, v) for k, v in pairs])


def placements(leaf, key):
    """the leaf (and the key) at every kind of position"""
    one = ("i", 1)
    return [
        tbl((key, leaf)),
        tbl(("a", one), (key, leaf), ("z", one)),
        tbl(("t", tbl((key, leaf)))),
        tbl(("t", tbl(("u", tbl((key, leaf)))))),
        tbl(("a", aot(tbl((key, leaf)), tbl((key, leaf), ("z", one))))),
        tbl(("a", aot(tbl(("b", aot(tbl((key, leaf)))))))),
        tbl((key, arr(leaf))),
        tbl((key, arr(one, leaf, one))),
        tbl((key, inl((key, leaf)))),
        tbl((key, inl(("a", one), (key, leaf), ("z", one)))),
        tbl((key, arr(inl((key, arr(leaf, inl((key, leaf)))))))),
        tbl((key, tbl())),
        tbl((key, aot(tbl()))),
        tbl((key, tbl((key, tbl((key, leaf)))))),
    ]


def fixed_shapes():
    one, two = ("i", 1), ("i", 2)
    s = ("s", b"v")
    out = [
        tbl(),
        tbl(("aot", aot()), ("x", one)),                                   # F10
        tbl(("x", one), ("aot", aot())),
        tbl(("aot", aot())),
        tbl(("t", tbl(("aot", aot())))),
        tbl(("a", aot(tbl(("b", aot()))))),
        tbl(("a", aot(tbl(), tbl(("b", aot())), tbl()))),
        tbl(("t", tbl()), ("x", one)),                                      # value after table: order cannot be kept
        tbl(("t", tbl(("y", two))), ("x", one)),
        tbl(("a", aot(tbl())), ("x", one)),
        tbl(("a", tbl(("b", tbl(("c", tbl())))))),                         # only sub-tables
        tbl(("a", tbl(("b", tbl(("c", tbl(("v", one)))))))),
        tbl(("a", tbl(("b", tbl()), ("c", tbl()))), ("d", tbl(("e", tbl())))),
        tbl(("a", aot(tbl(("b", aot(tbl(("c", aot(tbl(), tbl()))), tbl()))), tbl()))),     # aot in aot in aot
        tbl(("a", aot(tbl(("x", one), ("b", aot(tbl(("y", two))))), tbl(("b", aot(tbl(), tbl(("y", two)))))))),
        tbl(("a", aot(tbl(("t", tbl(("u", tbl())))), tbl(("t", tbl()))))),
        tbl(("a", tbl(("x", one))), ("b", aot(tbl(("x", one)))), ("c", tbl(("x", one)))),
        tbl(("e1", arr()), ("e2", inl()), ("e3", tbl()), ("e4", arr(arr(), inl(), arr(arr())))),
        tbl(("m", arr(one, s, ("f", fbits(1.5)), ("b", True), DT_FIXED[0], arr(one), inl(("k", arr(inl(("z", arr())))))))),
        tbl(("i", inl(("a", inl(("b", inl(("c", inl())))))))),
        tbl(("k", one), ("k", two)),                                        # repeated key: replaced in place
        tbl(("a", one), ("b", two), ("a", tbl(("z", one)))),
        tbl(("a", tbl(("z", one))), ("b", two), ("a", one)),
        tbl(("a", inl(("k", one), ("j", two), ("k", s)))),
        tbl(("a.b", tbl(("c.d", tbl(("", tbl(("e", one))))))), ("", one)),
        tbl(("", tbl(("", tbl(("", aot(tbl(("", one))))))))),
        tbl(("a", ("s", b"\n")), ("t", tbl(("b", ("s", b"'''\n\"\"\"")))), ("u", aot(tbl(("c", arr(("s", b"\n"), inl(("d", ("s", b"\n'"))))))))),
    ]
    # chains well inside the parser's nesting limit
    for depth in (10, 30, 60, 78):
        v = one
        for _ in range(depth):
            v = arr(v)
        out.append(tbl(("deep", v)))
        v = one
        for _ in range(depth):
            v = inl(("k", v))
        out.append(tbl(("deep", v)))
        t = tbl(("v", one))
        for _ in range(depth):
            t = tbl(("k", t))
        out.append(t)
        t = tbl(("v", one))
        for _ in range(depth // 2):
            t = tbl(("k", aot(t)))
        out.append(t)
    return out


# ------------------------------------------------------------------------------------------
# serialisation and the expected trees (computed from the case, not from the harness)
# ------------------------------------------------------------------------------------------
def is_value(n):
    return n[0] not in ("tbl", "aot")


def floats_of(n, acc):
    if n[0] == "f":
        acc.add(n[1])
    elif n[0] in ("arr", "aot"):
        for c in n[2]:
            floats_of(c, acc)
    elif n[0] in ("inl", "tbl"):
        for _, c in n[2]:
            floats_of(c, acc)


def toks(n, disp, out):
    k = n[0]
    if k == "s":
        out += ["s", h(n[1])]
    elif k == "i":
        out += ["i", str(n[1])]
    elif k == "f":
        out += ["f", f"{n[1]:016x}", disp[n[1]]]
    elif k == "b":
        out += ["b", "1" if n[1] else "0"]
    elif k == "d":
        out += ["d", n[1], n[2], n[3]]
    elif k == "arr":
        out.append("[i" if n[1] else "[")
        for c in n[2]:
            toks(c, disp, out)
        out.append("]")
    elif k == "inl":
        out.append("{i" if n[1] else "{")
        for key, c in n[2]:
            out.append(h(key))
            toks(c, disp, out)
        out.append("}")
    elif k == "tbl":
        out.append("T{i" if n[1] else "T{")
        for key, c in n[2]:
            out.append(h(key))
            toks(c, disp, out)
        out.append("}")
    elif k == "aot":
        out.append("A[i" if n[1] else "A[")
        for c in n[2]:
            toks(c, disp, out)
        out.append("]")
    return out


def dedupe(pairs):
    """IndexMap insertion: a repeated key keeps its first place and takes the last value"""
    pos, out = {}, []
    for k, v in pairs:
        if k in pos:
            out[pos[k]] = (k, v)
        else:
            pos[k] = len(out)
            out.append((k, v))
    return out


def has_empty_aot(n):
    if n[0] == "aot":
        return not n[2] or any(has_empty_aot(c) for c in n[2])
    if n[0] == "tbl":
        return any(has_empty_aot(c) for _, c in dedupe(n[2]))
    return False


def has_subtables(n):
    return n[0] == "tbl" and any(not is_value(c) for _, c in dedupe(n[2]))


def depth_of(n):
    if n[0] in ("arr", "aot"):
        return 1 + max([depth_of(c) for c in n[2]] + [0])
    if n[0] in ("inl", "tbl"):
        return 1 + max([depth_of(c) for _, c in n[2]] + [0])
    return 0


def size_of(n):
    if n[0] in ("arr", "aot"):
        return 1 + sum(size_of(c) for c in n[2])
    if n[0] in ("inl", "tbl"):
        return 1 + sum(size_of(c) for _, c in n[2])
    return 1


def form(n, ordered, nan, reparse, toml=False):
    """canonical text of a tree.
    ordered: keep insertion order and kinds (`ord_*` of the harness) / sort keys and drop kinds (`plain_*`)
    nan: map NaNs to the canonical NaN of their sign (all TOML can express); toml: and drop the sign (serde route)
    reparse: what a faithful print + parse must give back: values of a table before its sub-tables
             (headers come after the body), and — known finding F10 — empty arrays of tables gone"""
    k = n[0]
    if k == "s":
        return "s" + h(n[1])
    if k == "i":
        return f"i{n[1]}"
    if k == "f":
        b = n[1]
        if nan:
            b = canon_nan(b)
            if toml and is_nan(b):
                b = 0x7ff8000000000000
        return f"f{b:016x}"
    if k == "b":
        return "b1" if n[1] else "b0"
    if k == "d":
        return f"d{n[1]}|{n[2]}|{n[3]}"
    if k == "arr":
        return "[" + ";".join(form(c, ordered, nan, reparse, toml) for c in n[2]) + "]"
    if k == "aot":
        return ("A[" if ordered else "[") + ";".join(form(c, ordered, nan, reparse, toml) for c in n[2]) + "]"
    entries = dedupe(n[2])
    if k == "tbl" and reparse:
        entries = [e for e in entries if not (e[1][0] == "aot" and not e[1][2])]
        entries = [e for e in entries if is_value(e[1])] + [e for e in entries if not is_value(e[1])]
    if not ordered:
        entries = sorted(entries, key=lambda e: e[0])
    pre = ("I{" if k == "inl" else "T{") if ordered else "{"
    return pre + ";".join(h(key) + "=" + form(c, ordered, nan, reparse, toml) for key, c in entries) + "}"


def values_only(n):
    return ("tbl", n[1], [(k, c) for k, c in dedupe(n[2]) if is_value(c)])


def fields(line):
    return dict(kv.split("=", 1) for kv in line.split(" ") if "=" in kv)


# ------------------------------------------------------------------------------------------
def gen(ctx):
    rng = ctx.rng
    big = ctx.tier != "quick"
    cases = []          # (route, tree, family)
    for t in fixed_shapes():
        cases.append(("e", t, "shape"))
        cases.append(("n", t, "shape"))
    # every adversarial leaf at every kind of position, under a plain and under an adversarial key
    for i, leaf in enumerate(ALL_LEAVES):
        for key in ("k", SPECIAL_KEYS[i % len(SPECIAL_KEYS)]):
            for t in placements(leaf, key):
                cases.append(("e", t, "leaf-x-place"))
        cases.append(("v", leaf, "leaf-value"))
        cases.append(("v", arr(leaf, leaf), "leaf-value"))
        cases.append(("u", leaf, "leaf-toml-value"))
        cases.append(("t", inl(("k", leaf), ("a", arr(leaf)), ("t", inl(("k", leaf)))), "leaf-toml"))
    # every adversarial key: alone, as a table name, as an array-of-tables name, in a path, in an inline table
    for key in SPECIAL_KEYS + CHARS:
        one = ("i", 1)
        cases.append(("k", key, "key"))
        for t in (tbl((key, one)), tbl((key, tbl((key, one)))), tbl((key, aot(tbl((key, one))))), tbl(("a", tbl((key, tbl(("b", tbl((key, one)))))))),
                  tbl((key, inl((key, one), ("b", one)))), tbl((key, tbl()), ("z", aot(tbl((key, tbl())))))):
            cases.append(("e", t, "key-x-place"))
        cases.append(("t", inl((key, one), ("t", inl((key, inl((key, one))))), ("a", arr(inl((key, one))))), "key-toml"))
    # all pairs of characters as a string and as a key (style selection is a function of the classes present)
    reps = ['"', "'", "\\", "\n", "\r", "\t", "\x01", "\x7f", "#", "a", "é", " "]
    for a in reps:
        for b in reps:
            for c in ("", a):
                s = a + b + c
                cases.append(("e", tbl((s, ("s", s.encode("utf-8")))), "pairs"))
    n_rand = 60000 if big else 2600
    for i in range(n_rand):
        r = rng.random()
        d = rng.choice([1, 2, 2, 3, 3, 4, 5])
        if r < 0.62:
            cases.append((rng.choice("een"), rand_table(rng, d, 0.04), "random-doc"))
        elif r < 0.72:
            cases.append(("v", rand_value(rng, d), "random-value"))
        elif r < 0.76:
            cases.append(("k", rand_key(rng), "key"))
        elif r < 0.80:
            cases.append(("b", rand_table(rng, 2, 0.04), "random-table-display"))
        elif r < 0.93:
            cases.append(("t", ("inl", False, rand_pairs(rng, rng.randrange(6), lambda: rand_value(rng, d))), "random-toml-table"))
        else:
            cases.append(("u", rand_value(rng, d), "random-toml-value"))
    cases.append(("b", tbl(("x", ("i", 1)), ("t", tbl(("y", ("i", 2))))), "shape"))
    cases.append(("b", tbl(("x", ("i", 1)), ("y", arr(("s", b"\n")))), "shape"))
    return cases


def case_line(route, tree, disp):
    if route == "k":
        return "k " + h(tree)
    return route + " " + " ".join(toks(tree, disp, []))


def check_case(route, tree, f):
    """direct oracles on the implementation's output; returns (bad, klass)"""
    if f.get("twice") != "1":
        return "printing the same structure twice (and printing a clone) gave different texts", None
    if f.get("fl", "1") != "1":
        return "a float token of the case does not carry std's Display text", None
    if route == "k":
        want = h(tree)
        if f["bp"] != want:
            return f"Key::new kept {f['bp']}, the case says {want}", None
        if f["rp"] != want or f["rpath"] != want:
            return f"key prints as {unh(f['txt'])!r}; as a key it reads back as {f['rp']}, as a key path as {f['rpath']}", None
        return None, None
    txt = unh(f["txt"])
    if route in ("e", "n", "b", "v"):
        # the harness really built what the case describes (insertion order, kinds, replaced duplicates)
        built = form(tree, True, False, False)
        if f["bo"] != built:
            return f"the structure walked after construction is {f['bo']}, the calls describe {built}", None
        if f["bp"] != form(tree, False, False, False):
            return f"the plain data walked after construction is {f['bp']}", None
    if route == "v":
        if f["rp"] == "err":
            return f"Value prints as {txt!r} which is not a valid TOML value", None
        if f["ro"] != form(tree, True, True, False):
            return f"Value prints as {txt!r} which reads back as {f['ro']}, expected {form(tree, True, True, False)}", None
        return None, None
    if route in ("e", "n"):
        if f["rp"] == "err":
            return f"document prints as {txt!r} which is not valid TOML", None
        exact = form(tree, True, True, False)
        want = form(tree, True, True, True)
        if f["ro"] != want or f["rp"] != form(tree, False, True, True):
            return f"document prints as {txt!r} which reads back as {f['ro']}, expected {want}", None
        if has_empty_aot(tree):
            # everything except the empty arrays of tables came back (checked above): known finding F10
            return "an empty ArrayOfTables prints nothing: its key is missing after re-parsing", "F10"
        if want != exact:
            return None, "reordered"
        return None, None
    if route == "b":
        if f["rp"] == "err":
            return f"Table prints as {txt!r} which is not valid TOML", None
        body = values_only(tree)
        if f["ro"] != form(body, True, True, True):
            return f"Table prints as {txt!r} which reads back as {f['ro']}, expected its values {form(body, True, True, True)}", None
        if has_subtables(tree) and form(tree, True, True, True) != form(body, True, True, True):
            return "Display for Table prints only the table's own values: sub-tables and arrays of tables are missing after re-parsing", "TBLDISP"
        return None, None
    # toml::Table / toml::Value
    if f["bp"] != form(tree, False, False, False):
        return f"the toml::Value built is {f['bp']}, the case describes {form(tree, False, False, False)}", None
    want = form(tree, False, True, False, toml=True)
    if f["rp"] == "err" or f["re"] == "err":
        return f"toml value prints as {txt!r} which is not valid TOML (toml: {f['rp'][:20]}, toml_edit: {f['re'][:20]})", None
    if route == "u" and tree[0] == "d" and f["rp"] == want and txt.startswith(b'{ "$__toml_private_datetime" = "'):
        return ("toml::Value::Datetime Display prints serde's private wrapper table instead of the date-time "
                f"({txt!r}; only the toml crate's own deserializer maps it back)"), "DTWRAP"
    if f["rp"] != want or f["re"] != want:
        return f"toml value prints as {txt!r} which reads back as {f['rp']} (toml_edit: {f['re']}), expected {want}", None
    return None, None


def shrink(tree, fails, budget=150):
    """greedy structural reduction of a failing tree"""
    def variants(n):
        k = n[0]
        if k in ("arr", "aot"):
            for i in range(len(n[2])):
                yield (k, n[1], n[2][:i] + n[2][i + 1:])
            for i, c in enumerate(n[2]):
                for v in variants(c):
                    yield (k, n[1], n[2][:i] + [v] + n[2][i + 1:])
        elif k in ("inl", "tbl"):
            for i in range(len(n[2])):
                yield (k, n[1], n[2][:i] + n[2][i + 1:])
            for i, (key, c) in enumerate(n[2]):
                if key != b"k":
                    yield (k, n[1], n[2][:i] + [(b"k", c)] + n[2][i + 1:])
                for v in variants(c):
                    yield (k, n[1], n[2][:i] + [(key, v)] + n[2][i + 1:])
                if k == "tbl" and c[0] == "tbl":
                    yield c
        elif k == "s" and len(n[1]) > 1:
            s = n[1].decode("utf-8")
            for i in range(len(s)):
                yield ("s", (s[:i] + s[i + 1:]).encode("utf-8"))
        elif k != "i":
            yield ("i", 1)
    steps = 0
    progress = True
    while progress and steps < budget:
        progress = False
        for v in variants(tree):
            steps += 1
            if steps >= budget:
                break
            if fails(v):
                tree = v
                progress = True
                break
    return tree


def run(ctx):
    translate(ctx)
    mods = ["TomlVerif.Gen.CheckEncode", "TomlVerif.Props.C06", "driver"]
    lake_build(ctx, mods, {"TomlVerif.Gen.CheckEncode": "table theorems: the DEFAULT_*_DECOR constants of table.rs / value.rs / inline_table.rs",
                           "TomlVerif.Props.C06": "property theorems"})
    audit(ctx, "TomlVerif.Props.C06", "TomlVerif/Props/C06.lean")
    extra_props(ctx, ['C06Full'])
    if ctx.tier == "thorough":
        leanchecker(ctx, "TomlVerif.Props.C06")
    tvh = cargo_build(ctx)
    if tvh is None:
        ctx.violation("harness does not build against /repo", {"unchecked": "cargo build"}, concrete=False)
        return
    regression_lines(ctx, tvh, ["c06"])
    trees = gen(ctx)
    # std's Display text of every float (an input of the model; validated on both sides: `fl`)
    fl = set()
    for route, t, _ in trees:
        if route != "k":
            floats_of(t, fl)
    fl = sorted(fl)
    rc, fdisp, _ = run_lines(tvh, "c11", [f"fd {b:016x}" for b in fl])
    disp = dict(zip(fl, fdisp))
    lines = [case_line(r, t, disp) for r, t, _ in trees]
    seen = {}
    for (r, t, fam), ln in zip(trees, lines):
        seen.setdefault(ln, (r, t, fam))
    seen.setdefault(F10_CASE, ("e", tbl(("aot", aot()), ("x", ("i", 1))), "shape"))
    cases = list(seen.keys())
    meta = [seen[c] for c in cases]
    impl, model = run_pair(ctx, tvh, "c06", cases)

    def fails_like(route, klass_or_text):
        def f(tree):
            ln = case_line(route, tree, disp_all(tree))
            rc, out, _ = run_lines(tvh, "c06", [ln])
            if len(out) != 1:
                return True
            if out[0].startswith("PANIC"):
                return klass_or_text == "panic"
            if klass_or_text == "panic":
                return False
            bad, kl = check_case(route, tree, fields(out[0]))
            return bad is not None and kl is None
        return f

    def disp_all(tree):
        need = set()
        floats_of(tree, need)
        miss = [b for b in need if b not in disp]
        if miss:
            rc, o, _ = run_lines(tvh, "c11", [f"fd {b:016x}" for b in miss])
            disp.update(zip(miss, o))
        return disp

    ndis, first = 0, None
    fam_hist, route_hist, class_hist, depth_hist = {}, {}, {}, {}
    nontriv = set()
    reordered = 0
    klass_hits = {}
    shrunk = 0
    style_hist = {}
    for c, (route, tree, fam), i, m in zip(cases, meta, impl, model):
        fam_hist[fam] = fam_hist.get(fam, 0) + 1
        route_hist[route] = route_hist.get(route, 0) + 1
        bad, klass = None, None
        if i.startswith("PANIC") or i == "CRASH":
            bad = f"panic: {i[:100]}"
        else:
            bad, klass = check_case(route, tree, fields(i))
        if route != "k":
            d = depth_of(tree)
            depth_hist[d] = depth_hist.get(d, 0) + 1
            if size_of(tree) >= 4 and d >= 2:
                nontriv.add(c)
        if klass in ("F10", "TBLDISP", "DTWRAP"):
            klass_hits.setdefault(klass, []).append((c, i, bad))
        elif klass == "reordered":
            reordered += 1
        elif bad:
            wit = c
            if route != "k" and shrunk < 5 and len(c) > 60:
                shrunk += 1
                small = shrink(tree, fails_like(route, "panic" if bad.startswith("panic") else "oracle"))
                wit = case_line(route, small, disp_all(small))
            ctx.violation(f"{wit[:160]}: {bad[:400]}", {"mode": "c06", "case": wit, "original": c[:600], "impl": i[:600], "model": m[:600], "witness": wit})
        if i != m:
            ndis += 1
            if first is None or len(c) < len(first[0]):
                first = (c, i, m)
    # one violation per class of finding (the class witness is what known_findings.json can name);
    # every member was checked above to deviate ONLY in the way the class describes
    for klass, (wit, canon) in {"F10": (F10_WITNESS, F10_CASE), "TBLDISP": (TBLDISP_WITNESS, TBLDISP_CASE), "DTWRAP": (DTWRAP_WITNESS, DTWRAP_CASE)}.items():
        hits = klass_hits.get(klass, [])
        if hits:
            ex = min(hits, key=lambda x: len(x[0]))
            ctx.violation(f"{canon}: {hits[0][2]} ({len(hits)} generated cases of this class)",
                          {"mode": "c06", "case": canon, "smallest_generated": ex[0][:300], "impl": ex[1][:300], "count": len(hits), "witness": wit})
    f10, tbldisp, dtwrap = (len(klass_hits.get(k, [])) for k in ("F10", "TBLDISP", "DTWRAP"))
    # the Lean statements themselves, instantiated at every case and evaluated on the model
    rc, stm, _ = run_lines(driver_path(), "c06s", cases)
    st_bad, st_n = [], 0
    for c, (route, tree, fam), o in zip(cases, meta, stm):
        if route in ("e", "n", "v"):
            want = "st=0" if (route != "v" and has_empty_aot(tree)) else "st=1"
            st_n += 1
            if o != want:
                st_bad.append((c[:200], o, want))
    ctx.oblige("statement instances: T06_doc_statement / T06_inline_statement evaluated on the model hold at every generated case "
               "(and fail exactly on the trees with an empty ArrayOfTables)", not st_bad and len(stm) == len(cases), f"{len(st_bad)} deviations; first: {st_bad[:1]}")
    # ---- tables flagged through the API (set_dotted / set_implicit): implementation vs the re-parse oracle only
    # (the model's builder has no flags). Only VISIBLE shapes are generated: a dotted or implicit table with nothing
    # printable below it is invisible by design.
    rng = ctx.rng
    def flagged(d):
        def tbl(d, kind):
            n = rng.choice([1, 1, 2, 3]) if kind != "T{" else rng.choice([0, 1, 2, 3])
            toks = [kind]
            keys = rng.sample(["a", "b", "c", "k", "x y", "é", "1"], n)
            for k in keys:
                toks.append(h(k.encode()))
                r = rng.random()
                if d <= 0 or r < 0.4:
                    toks += ["i", str(rng.randrange(100))]
                elif r < 0.5:
                    toks += rng.choice([["[", "i", "1", "]"], ["[t", "i", "1", "i", "2", "]"], ["[t", "]"], ["[c", "i", "1", "]"], ["[", "[t", "]", "i", "3", "]"]])
                elif r < 0.6 and d > 0:
                    toks += ["A[", *tbl(d - 1, "T{"), *tbl(d - 1, rng.choice(["T{", "T{"])), "]"]
                else:
                    toks += tbl(d - 1, rng.choice(["T{", "T{d", "T{d", "T{m"]))
            toks.append("}")
            return toks
        return tbl(d, "T{")
    flines = ["g " + " ".join(flagged(rng.choice([1, 2, 3]))) for _ in range(20000 if ctx.tier != "quick" else 1500)]
    flines += ["g T{ 61 [t ] }", "g T{ 61 [c i 1 ] 62 [t i 1 ] }", "g T{ 66 T{ 78 i 1 } 61 T{m 62 T{d 63 i 2 } } }", "g T{ 70 T{m 62 A[ T{ 6e i 1 6f T{m 66 T{d 6c i 1 } } } ] } }"]
    rc, fout, _ = run_lines(tvh, "c06", flines)
    fout += ["CRASH"] * (len(flines) - len(fout))
    nflag = 0
    for ln, o in zip(flines, fout):
        bad = None
        f = dict(kv.split("=", 1) for kv in o.split(" ") if "=" in kv)
        if o.startswith("PANIC") or o == "CRASH":
            bad = f"panic: {o[:120]}"
        elif f.get("rp") == "err":
            bad = "the printed text of a document with dotted / implicit tables is not valid TOML"
        elif f.get("rp") != f.get("bp"):
            bad = f"the printed text decodes to {f.get('rp', '')[:200]}, the built tree is {f.get('bp', '')[:200]}"
        elif f.get("twice") != "1":
            bad = "printing twice gives different texts"
        else:
            nflag += 1
        if bad:
            txt = unh(f["txt"]).decode("utf-8", "replace")[:600] if "txt" in f else ""
            ctx.violation(f"{ln[:160]}: {bad}", {"mode": "c06", "case": ln, "text": txt, "impl": o[:2000], "witness": ln})
    ctx.cov.update({"flagged_table_cases": len(flines), "flagged_table_cases_round_tripping": nflag})
    ctx.oblige("correspondence c06: model (build + print + parser model) = implementation (construction API + Display + parser) on every case",
               ndis == 0, f"{ndis} disagreements; shortest: {first}")
    if ctx.broken and not ctx.violations:
        for n, d in ctx.broken:
            ctx.violation(f"obligation no longer checks: {n}", {"unchecked": n, "detail": d[:1500], "searched": f"{len(cases)} built structures printed and re-parsed"}, concrete=False)
    # character classes met in strings and keys
    str_cls, key_cls = {}, {}

    def walk(n):
        if n[0] == "s":
            for ch in n[1].decode("utf-8"):
                k = char_class(ch)
                str_cls[k] = str_cls.get(k, 0) + 1
            if not n[1]:
                str_cls["(empty)"] = str_cls.get("(empty)", 0) + 1
        elif n[0] in ("arr", "aot"):
            for c in n[2]:
                walk(c)
        elif n[0] in ("inl", "tbl"):
            for key, c in n[2]:
                for ch in key.decode("utf-8"):
                    k = char_class(ch)
                    key_cls[k] = key_cls.get(k, 0) + 1
                if not key:
                    key_cls["(empty)"] = key_cls.get("(empty)", 0) + 1
                walk(c)
    for route, tree, _ in meta:
        if route != "k":
            walk(tree)
    ctx.notes.append("key order: a value inserted after a sub-table of the same table comes back before it (TOML puts a table's key/value lines "
                     "before the headers of its sub-tables; no text can say otherwise). The oracle therefore demands: order of values kept, order of "
                     f"sub-tables / arrays of tables kept, values first. {reordered} generated documents need that reordering; all others come back in exactly the build order.")
    ctx.notes.append("NaN: TOML spells a NaN as nan / -nan; the payload is not expressible, so a NaN must come back as a NaN of the same sign "
                     "(toml_edit route) or as a NaN (toml::Value route: serde discards the sign by design).")
    ctx.notes.append("nesting is kept below the parser's recursion limit (80, property C05); deeper structures print but are refused when parsed back.")
    ctx.cov.update({
        "evaluations": len(cases), "distinct_nontrivial": len(nontriv),
        "rule": "fixed shapes (empty containers at every position, tables holding only sub-tables, arrays of tables in arrays of tables, repeated keys, "
                "nesting chains of depth 10/30/60) + every adversarial leaf (strings over every byte class and quote/newline run, i64 edges, f64 specials "
                "and NaN payloads, four date-time kinds) at 14 kinds of position under a plain and an adversarial key + every adversarial key as key, table "
                "name, array-of-tables name, path segment, inline key + all ordered pairs/triples over 12 character classes as key and string + random trees "
                "(documents via DocumentMut::from / DocumentMut::new+insert, values, keys, Table Display, toml::Table and toml::Value Display); constructor "
                "spellings alternate (new+push/insert vs FromIterator, Value::from(&str/String), Item::from / value() / Item::Value). "
                "non-trivial = at least 4 nodes and nesting depth >= 2",
        "samples": [cases[3], cases[len(cases) // 2][:300], cases[-3][:300]],
        "families": fam_hist, "routes": route_hist, "depth_histogram": {str(k): v for k, v in sorted(depth_hist.items())},
        "known_finding_F10_empty_array_of_tables": f10, "table_display_omits_subtables": tbldisp, "toml_value_datetime_display_wrapper": dtwrap,
        "documents_with_value_after_table_reordered": reordered,
        "string_char_classes": str_cls, "key_char_classes": key_cls, "floats": len(fl), "statement_instances_evaluated": st_n, "traces_validated_against_impl": len(cases), "disagreements": ndis,
        "oracles": ["printed text parses (implementation parser)", "re-parsed tree = built tree, ordered (values-first within a table), kinds kept",
                    "harness-walked built tree = tree described by the case (python)", "printing twice and printing a clone give the same text",
                    "keys: printed key parses back as a key and as a one-segment path", "toml::Table/Value Display: re-parse through toml and toml_edit = the value (sorted keys)"],
    })
