"""C14, second sentence: `serde_spanned::Spanned<T>` as a target — generator and comparator of the `c14s` stream.

case line   `sp <flavour> <sty> <hex document>`   (type syntax: harness/src/c14sp.rs; `P(…)` = Spanned, `K(<key>,…)` = map with a key type)
both sides  `td=<r> ed=<r> dm=<r>`, <r> = `ok:<sdec>` | `err span=… keys=…`
model       lean/TomlVerif/Model/DeSpanned.lean `decodeSp` on the tree of `Cst.parseCst` (td, ed) and on the despanned tree (dm)

Cases: well-typed (type, document) pairs of `c13typed.TypedGen` (a quarter with one change of the type, `c15loc.LocGen.change_type`, so
that decoding fails somewhere), `Spanned` inserted at random positions of the type — around values, struct fields, `Option` /
newtype / `Vec` / map payloads, newtype-variant payloads, map KEYS (String, newtypes, Spanned, both nestings, Spanned twice) —
rendered in inline / header / dotted / array-of-tables layouts.

Besides model = implementation (exact, three routes), checked on the implementation directly:
  transparent   the same document into the UNWRAPPED type (`c15d` line): same verdict, same error span and keys; on success the
                value with the `P` wrappers removed is the plain value (compared when no map sits on the wrapped part: the plain
                `Dec` sorts maps, the wrapped one keeps document order). Known exceptions, counted: a missing field of type
                `Spanned<Option<_>>` (serde's `missing_field` knows `Option` only), a key type with `Spanned` inside `Spanned`.
  ranges        every range in a result is a key span or a value span of the document (the `c14` span list of the harness), or — for a
                table without a span of its own (dotted keys, implied by a longer header) — the range its descendants cover
  no-source     from a `DocumentMut` nothing carries a range: a result never contains `P`, and a type whose decoding reached a
                `Spanned` with source fails without
"""
import os
import random
import re
import sys

if __name__ == "__main__":
    sys.path.insert(0, os.path.dirname(os.path.dirname(os.path.abspath(__file__))))

from props import c13typed, c15loc
from props.c13typed import enc, hx, NAMES
from props.c15loc import LocGen, parse_routes, c14_nodes

KEY_KINDS = ["s", "N(s)", "P(s)", "P(N(s))", "N(P(s))", "N(N(s))", "P(P(s))", "N(P(N(s)))"]


def enc_s(t):
    k = t[0]
    if k == "plain":
        return enc(t[1])
    if k in ("P", "O", "N", "V"):
        return f"{k}({enc_s(t[1])})"
    if k == "K":
        if t[1] == "s":
            return f"M({enc_s(t[2])})"
        return f"K({t[1]},{enc_s(t[2])})"
    if k == "S":
        return "S(" + ",".join(f"{hx(n)}{'?' if d else ':'}{enc_s(x)}" for n, x, d in t[1]) + ")"
    if k == "E":
        return "E(" + ",".join(hx(n) if p is None else f"{hx(n)}:N({enc_s(p)})" for n, p in t[1]) + ")"
    raise ValueError(t)


class SpGen(LocGen):
    def sprinkle(self, t, p=0.3, depth=0):
        """an sty with the shape of the type t and `Spanned` at random positions"""
        r = self.r
        k = t[0]
        out = None
        if depth < 4 and r.random() < 0.75:
            if k in ("O", "N", "V"):
                out = (k, self.sprinkle(t[1], p, depth + 1))
            elif k == "M":
                out = ("K", r.choice(KEY_KINDS) if r.random() < 0.7 else "s", self.sprinkle(t[1], p, depth + 1))
            elif k == "S" and t[1]:
                out = ("S", [(n, self.sprinkle(x, p, depth + 1), d) for n, x, d in t[1]])
            elif k == "E" and all(sh[0] in ("unit", "N") for _, sh in t[1]):
                out = ("E", [(n, None if sh[0] == "unit" else self.sprinkle(sh[1], p, depth + 1)) for n, sh in t[1]])
        if out is None:
            out = ("plain", t)
        while r.random() < p:
            out = ("P", out)
            p = p / 3
        return out


def strip_p(s):
    """remove every `P<a>..<b>(` … `)` wrapper of an sdec string"""
    out = []
    stack = []
    i = 0
    while i < len(s):
        m = re.match(r"P\d+\.\.\d+\(", s[i:]) if s[i] == "P" and (i == 0 or s[i - 1] in "(=;[{:") else None
        if m:
            stack.append("P")
            i += m.end()
            continue
        c = s[i]
        if c == "(":
            stack.append("(")
        elif c == ")":
            if stack.pop() == "P":
                i += 1
                continue
        out.append(c)
        i += 1
    return "".join(out)


def ranges_of(s):
    return [(int(a), int(b)) for a, b in re.findall(r"(?:^|[(=;\[{:])P(\d+)\.\.(\d+)\(", s)]


def allowed_ranges(nodes):
    ok = set()
    for comps, ks, vs in nodes:
        if ks:
            ok.add(ks)
        if vs:
            ok.add(vs)
    for comps, ks, vs in nodes:
        if vs is None:
            lo, hi = None, None
            for c2, k2, v2 in nodes:
                if len(c2) > len(comps) and c2[:len(comps)] == comps:
                    for s in (k2, v2):
                        if s:
                            lo = s[0] if lo is None else min(lo, s[0])
                            hi = s[1] if hi is None else max(hi, s[1])
            if lo is not None:
                ok.add((lo, hi))
    return ok


FIXED = [
    (f"S({hx('a')}:P(i32))", "a = 1\n"),
    (f"P(S({hx('a')}:P(i32)))", "a = 1\n"),
    (f"S({hx('a')}:P(S({hx('b')}:P(i32))))", "a.b = 1\n"),
    (f"S({hx('a')}:P(S({hx('b')}:P(S({hx('c')}:i32)))))", "[a.b]\nc = 1\n"),
    (f"S({hx('a')}:P(O(i32)))", "a = 1\n"),
    (f"S({hx('a')}:P(O(i32)))", ""),
    (f"S({hx('a')}:O(P(i32)))", ""),
    (f"S({hx('a')}?P(i32))", ""),
    ("K(P(s),P(i32))", "a = 1\n\"b c\" = 2\n"),
    ("K(P(N(s)),i32)", "a = 1\n"),
    ("K(N(P(s)),i32)", "a = 1\n"),
    ("K(N(s),i32)", "a = 1\n"),
    ("K(P(P(s)),i32)", "a = 1\n"),
    ("K(P(s),K(P(s),P(s)))", "a.b = \"x\"\n[c]\nd = \"y\"\n"),
    (f"S({hx('a')}:P(V(P(i32))))", "a = [1, 2]\n"),
    (f"S({hx('a')}:P(V(P(S({hx('x')}:P(i32))))))", "[[a]]\nx = 1\n[[a]]\nx = 2\n"),
    (f"S({hx('a')}:P(E({hx('V')}:N(P(i32)),{hx('U')})))", "a = { V = 1 }\n"),
    (f"S({hx('a')}:P(E({hx('V')}:N(P(i32)),{hx('U')})))", "a = \"U\"\n"),
    (f"S({hx('a')}:P(E({hx('V')}:N(P(i32)),{hx('U')})))", "a.V = 1\n"),
    (f"S({hx('a')}:P(i32))", "a = \"x\"\n"),
    (f"S({hx('a')}:P(da))", "a = 1979-05-27T07:32:00Z\n"),
    (f"S({hx('a')}:P(dt))", "a = 1979-05-27T07:32:00Z\n"),
    (f"S({hx('a')}:K(P(s),P(s)))", "a = 1979-05-27\n"),
    (f"S({hx('a')}:P(N(P(i32))))", "a = 7\n"),
    (f"S({hx('a')}:P(P(i32)))", "a = 7\n"),
    (f"S({hx('é')}:P(s))", "é = \"é\"\n"),
]


def gen_spanned(rng, n, hist):
    g = SpGen(rng, hist)
    out = [(f"sp S {ty} {hx(doc)}", None, doc.encode(), "fixed") for ty, doc in FIXED]
    tries = 0
    while len(out) < n and tries < 20 * n:
        tries += 1
        j = tries
        ty_doc = g.root_ty() if j % 3 else g.ty(1)
        try:
            data, _ = g.instance(ty_doc)
        except (ValueError, IndexError):
            continue
        ty_use = ty_doc
        kind = "well-typed"
        if j % 4 == 0:
            ch = g.change_type(ty_doc)
            if ch is None or ch[1] is None or not c15loc.valid_ty(ch[1]):
                continue
            kind, ty_use = "changed:" + ch[0], ch[1]
        ty_root, root = g.rooted(ty_use, data)
        sty = g.sprinkle(ty_root)
        layout = [None, "inline", "header", "dotted"][j % 4]
        try:
            text = g.document(root, layout)
            line = f"sp S {enc_s(sty)} {hx(text)}"
            plain = f"loc S {enc(ty_root)} {hx(text)}"
        except (ValueError, IndexError, TypeError):
            continue
        out.append((line, plain, text.encode(), kind))
    return out


def run_spanned(ctx, tvh, n=None):
    from vlib import run_pair, run_lines
    big = getattr(ctx, "tier", "quick") != "quick"
    n = n or (30000 if big else 5000)
    hist = ctx.cov.setdefault("c14sp_generator_histogram", {})
    cases = gen_spanned(ctx.rng, n, hist)
    lines = [c[0] for c in cases]
    impl, model = run_pair(ctx, tvh, "c14s", lines)
    rc, plain, _ = run_lines(tvh, "c15d", [c[1] or "skip" for c in cases])
    rc, spans, _ = run_lines(tvh, "c14", [hx(c[2]) for c in cases])
    stats = {"cases": len(cases), "agree": 0, "ok-with-source": 0, "ok-with-ranges": 0, "ranges": 0, "err-with-source": 0, "parse-err": 0,
             "has-P": 0, "dm-fails-for-lack-of-spans": 0, "transparent-checked": 0, "value-compared": 0,
             "exception-spanned-option-missing": 0, "exception-spanned-in-spanned-key": 0}
    disagreements, broken = [], {}

    def bad(name, case, detail):
        broken.setdefault(name, []).append((case[0], detail))

    for idx, (case, i, m) in enumerate(zip(cases, impl, model)):
        line = case[0]
        sty = line.split(" ")[2]
        if i == m:
            stats["agree"] += 1
        else:
            disagreements.append((line, i, m))
        if i == "parse-err":
            stats["parse-err"] += 1
            continue
        r = parse_routes(i)
        if r is None or set(r) != {"td", "ed", "dm"}:
            bad("well-formed-answer", case, i)
            continue
        has_p = "P(" in sty
        stats["has-P"] += has_p
        if r["td"] != r["ed"]:
            bad("same-routes", case, i)
        # no source
        if r["dm"][0] == "ok" and ranges_of(r["dm"][1]):
            bad("no-source", case, f"a range without source: {i}")
        if r["dm"][0] == "err" and r["dm"][1] is not None:
            bad("no-source", case, f"a span without source: {i}")
        if r["td"][0] == "ok":
            stats["ok-with-source"] += 1
            rs = ranges_of(r["td"][1])
            if rs:
                stats["ok-with-ranges"] += 1
                stats["ranges"] += len(rs)
                if r["dm"][0] == "ok":
                    bad("no-source", case, f"decodes without source although ranges were delivered with: {i}")
                else:
                    stats["dm-fails-for-lack-of-spans"] += 1
                nodes = c14_nodes(spans[idx]) if idx < len(spans) else None
                if nodes is None:
                    bad("ranges", case, "no span list")
                else:
                    okr = allowed_ranges(nodes)
                    for x in rs:
                        if x not in okr:
                            bad("ranges", case, f"{x} is no key / value / covering range: {i} :: {spans[idx][:300]}")
                            break
            elif r["dm"] != r["td"]:
                bad("no-source", case, f"no range delivered, but the routes differ: {i}")
        else:
            stats["err-with-source"] += 1
        # transparency
        if case[1] is not None and idx < len(plain):
            pr = parse_routes(plain[idx])
            if pr is None or "td" not in pr:
                continue
            stats["transparent-checked"] += 1
            a, b = r["td"], pr["td"]
            if a[0] != b[0]:
                if a[0] == "err" and "P(O(" in sty.replace("P(P(", "P("):
                    stats["exception-spanned-option-missing"] += 1
                elif a[0] == "err" and re.search(r"K\((?:N\()*P\((?:N\()*P\(", sty):
                    stats["exception-spanned-in-spanned-key"] += 1
                else:
                    bad("transparent", case, f"wrapped {i} / plain {plain[idx]}")
            elif a[0] == "err":
                if a[1:3] != b[1:3] and not ("P(O(" in sty or re.search(r"K\((?:N\()*P\((?:N\()*P\(", sty)):
                    bad("transparent", case, f"the error location differs: wrapped {i} / plain {plain[idx]}")
            elif "K(" not in sty and "M(" not in sty:
                stats["value-compared"] += 1
                if strip_p(a[1]) != b[1]:
                    bad("transparent", case, f"the value differs: wrapped {a[1][:200]} / plain {b[1][:200]}")
    ctx.cov["c14sp"] = stats
    ctx.oblige("c14s: the model of Spanned targets (Model/DeSpanned.lean) and the three deserializer routes give the same verdict, value with "
               "ranges, error span and key path on every case", not disagreements,
               "; ".join(f"{l} impl[{a}] model[{b}]" for l, a, b in disagreements[:3]))
    for name in ["well-formed-answer", "same-routes", "transparent", "ranges", "no-source"]:
        fails = broken.get(name, [])
        ctx.oblige(f"c14s {name}", not fails, f"{len(fails)} cases; " + "; ".join(f"{l} :: {d}" for l, d in fails[:3]))
    ctx.oblige("c14s: non-trivial (ranges are delivered in a third of the cases)", stats["ok-with-ranges"] * 3 >= len(cases), str(stats))
    return stats, disagreements, broken


if __name__ == "__main__":
    import vlib

    class _Ctx:
        tier = "thorough"

        def __init__(self, seed):
            self.rng = random.Random(seed)
            self.cov = {}
            self.obs = []

        def oblige(self, name, ok, detail=""):
            self.obs.append((name, ok, detail))

    tvh = os.environ.get("C15LOC_TVH", "/tmp/agent_c15loc/cargo_target/release/tvh")
    drv = os.environ.get("C15LOC_DRIVER", "/tmp/agent_c15loc/lean/.lake/build/bin/driver")
    vlib.driver_path = lambda: drv
    n = int(sys.argv[1]) if len(sys.argv) > 1 else 5000
    seed = int(sys.argv[2]) if len(sys.argv) > 2 else 1
    ctx = _Ctx(seed)
    stats, dis, broken = run_spanned(ctx, tvh, n)
    print(stats)
    for name, ok, detail in ctx.obs:
        print("OK  " if ok else "FAIL", name, "" if ok else detail[:1800])
    for l, a, b in dis[:8]:
        print("DISAGREE", l, "\n   impl ", a, "\n   model", b)
