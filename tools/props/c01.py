"""C01 — the parser accepts exactly the valid TOML 1.0.0 documents."""
from props.parse_common import run_parse
def run(ctx):
    run_parse(ctx, "verdict")
