#!/usr/bin/env python3
"""translate.py — tie 1: regenerate lean/TomlVerif/Gen/Tables.lean from /repo's working tree.

Reads Rust `const` items (byte classes, delimiters, keywords, decor defaults, LIMIT) and a few
`match` tables (escape_seq_char arms, toml_write escape arms, date-time range bounds) and writes
them as Lean definitions.  The theorems in Gen/Check*.lean compare them with Spec/* on every run.

A source shape this reader cannot parse is reported (exit 2, message on stderr) — the caller
treats that as a broken tie, not as success.
"""
import re, sys, os, json

REPO = os.environ.get("VERIF_REPO", "/repo")
OUT = os.path.join(os.path.dirname(os.path.abspath(__file__)), "..", "lean", "TomlVerif", "Gen", "Tables.lean")


class TranslateError(Exception):
    pass


def read(rel):
    with open(os.path.join(REPO, rel), encoding="utf-8") as f:
        return f.read()


def strip_comments(src):
    # remove // comments (not inside string/char literals — good enough for the const items we read)
    out = []
    for line in src.split("\n"):
        res = ""
        i = 0
        instr = None
        while i < len(line):
            c = line[i]
            if instr:
                res += c
                if c == "\\":
                    res += line[i + 1] if i + 1 < len(line) else ""
                    i += 2
                    continue
                if c == instr:
                    instr = None
            else:
                if c == '"':
                    instr = '"'
                    res += c
                elif c == "'" and re.match(r"'(\\.|[^\\'])'", line[i:]):
                    m = re.match(r"'(\\.|[^\\'])'", line[i:])
                    res += m.group(0)
                    i += len(m.group(0))
                    continue
                elif line.startswith("//", i):
                    break
                else:
                    res += c
            i += 1
        out.append(res)
    return "\n".join(out)


CONST_RE = re.compile(r"(?m)^[ \t]*(?:pub(?:\([a-z]+\))?\s+)?const\s+([A-Z][A-Z0-9_]*)\s*:\s*([^=]+?)=\s*(.*?);", re.S)


def consts_of(rel):
    src = strip_comments(read(rel))
    # cut test modules
    k = src.find("#[cfg(test)]")
    if k >= 0:
        src = src[:k]
    res = {}
    for m in CONST_RE.finditer(src):
        res[m.group(1)] = (m.group(2).strip(), m.group(3).strip())
    return res


ESC = {"n": 10, "r": 13, "t": 9, "\\": 92, "0": 0, "'": 39, '"': 34}


def byte_lit(tok):
    tok = tok.strip()
    m = re.fullmatch(r"b'(\\x([0-9a-fA-F]{2})|\\(.)|(.))'", tok)
    if m:
        if m.group(2):
            return int(m.group(2), 16)
        if m.group(3):
            if m.group(3) not in ESC:
                raise TranslateError(f"byte escape {tok}")
            return ESC[m.group(3)]
        return ord(m.group(4))
    m = re.fullmatch(r"0x([0-9a-fA-F]+)(u8)?", tok)
    if m:
        return int(m.group(1), 16)
    m = re.fullmatch(r"([0-9]+)(u8)?", tok)
    if m:
        return int(m.group(1))
    return None


def bytestr_lit(tok):
    tok = tok.strip()
    m = re.fullmatch(r'b?"((?:\\.|[^"\\])*)"', tok, re.S)
    if not m:
        return None
    s = m.group(1)
    out = []
    i = 0
    while i < len(s):
        if s[i] == "\\":
            c = s[i + 1]
            if c == "x":
                out.append(int(s[i + 2:i + 4], 16))
                i += 4
                continue
            if c not in ESC:
                raise TranslateError(f"string escape in {tok}")
            out.append(ESC[c])
            i += 2
        else:
            out.extend(s[i].encode("utf-8"))
            i += 1
    return out


def split_top(s, sep=","):
    parts, depth, cur = [], 0, ""
    i = 0
    while i < len(s):
        c = s[i]
        m = re.match(r"b?'(\\.|[^\\'])'", s[i:])
        if m:
            cur += m.group(0)
            i += len(m.group(0))
            continue
        if c in "([":
            depth += 1
        elif c in ")]":
            depth -= 1
        if c == sep and depth == 0:
            parts.append(cur)
            cur = ""
        else:
            cur += c
        i += 1
    if cur.strip():
        parts.append(cur)
    return [p.strip() for p in parts]


def class_expr(val, env, seen=()):
    """Rust ContainsToken value -> Lean Bool expression in variable b."""
    val = val.strip()
    if val.startswith("(") and val.endswith(")"):
        items = split_top(val[1:-1])
        return "(" + " || ".join(class_expr(i, env, seen) for i in items) + ")"
    m = re.fullmatch(r"(.+?)\.\.=(.+)", val)
    if m:
        lo, hi = byte_lit(m.group(1)), byte_lit(m.group(2))
        if lo is None or hi is None:
            raise TranslateError(f"range {val}")
        return f"(decide ({lo} ≤ b.toNat) && decide (b.toNat ≤ {hi}))"
    b = byte_lit(val)
    if b is not None:
        return f"(b.toNat == {b})"
    m = re.fullmatch(r"(?:[a-z_]+::)*([A-Z][A-Z0-9_]*)", val)
    if m:
        name = m.group(1)
        if name in seen or name not in env:
            raise TranslateError(f"unresolved const {name}")
        return class_expr(env[name][1], env, seen + (name,))
    raise TranslateError(f"cannot read byte class `{val}`")


def lean_bytes(bs):
    return "[" + ", ".join(str(b) for b in bs) + "]"


def find_fn(src, name, toplevel=False):
    """text of `fn name...{ ... }` (balanced braces)"""
    m = re.search((r"(?m)^(?:pub(?:\([a-z]+\))?\s+)?" if toplevel else "") + r"fn\s+" + re.escape(name) + r"\b", src)
    if not m:
        raise TranslateError(f"fn {name} not found")
    i = src.index("{", m.end())
    depth = 0
    j = i
    while j < len(src):
        if src[j] == "{":
            depth += 1
        elif src[j] == "}":
            depth -= 1
            if depth == 0:
                return src[m.start():j + 1]
        j += 1
    raise TranslateError(f"fn {name}: unbalanced")


def main():
    out = []
    info = {}
    w = out.append
    w("/- GENERATED by tools/translate.py from /repo's working tree — do not edit. -/")
    w("namespace TomlVerif.Gen")
    w("")
    P = "crates/toml_edit/src/parser/"
    files = {
        "trivia": P + "trivia.rs", "strings": P + "strings.rs", "key": P + "key.rs",
        "numbers": P + "numbers.rs", "datetime": P + "datetime.rs", "array": P + "array.rs",
        "inline_table": P + "inline_table.rs", "table": P + "table.rs", "parser_mod": P + "mod.rs",
        "e_table": "crates/toml_edit/src/table.rs", "e_value": "crates/toml_edit/src/value.rs",
        "e_inline": "crates/toml_edit/src/inline_table.rs",
    }
    allc = {}
    for short, rel in files.items():
        allc[short] = consts_of(rel)
    env = {}
    for short in files:
        for k, v in allc[short].items():
            env.setdefault(k, v)
    for short in files:
        for name, (ty, val) in sorted(allc[short].items()):
            ln = f"{short}_{name}"
            tyn = re.sub(r"\s+", "", ty)
            try:
                if tyn == "u8":
                    b = byte_lit(val)
                    if b is None:
                        raise TranslateError(f"u8 const {name} = {val}")
                    w(f"def {ln} : UInt8 := {b}")
                    info[ln] = b
                elif tyn == "&[u8]":
                    bs = bytestr_lit(val)
                    if bs is None:
                        raise TranslateError(f"bytes const {name} = {val}")
                    w(f"def {ln} : List UInt8 := {lean_bytes(bs)}")
                    info[ln] = bs
                elif tyn == "usize":
                    if not re.fullmatch(r"[0-9_]+", val):
                        if name == "INF":
                            continue
                        raise TranslateError(f"usize const {name} = {val}")
                    w(f"def {ln} : Nat := {int(val.replace('_',''))}")
                    info[ln] = int(val.replace("_", ""))
                elif tyn == "(&str,&str)":
                    items = split_top(val.strip()[1:-1])
                    a, c = bytestr_lit(items[0]), bytestr_lit(items[1])
                    if a is None or c is None:
                        raise TranslateError(f"decor const {name} = {val}")
                    w(f"def {ln} : List UInt8 × List UInt8 := ({lean_bytes(a)}, {lean_bytes(c)})")
                    info[ln] = [a, c]
                elif "RangeInclusive" in tyn or tyn.startswith("(") :
                    e = class_expr(val, env)
                    w(f"def {ln} (b : UInt8) : Bool := {e}")
                    info[ln] = "class"
                else:
                    raise TranslateError(f"const {name}: unknown type {ty}")
            except TranslateError as e:
                raise TranslateError(f"{files[short]}: {e}")
    w("")
    extra_tables(w, info)
    w("")
    w("end TomlVerif.Gen")
    text = "\n".join(out) + "\n"
    os.makedirs(os.path.dirname(OUT), exist_ok=True)
    old = None
    if os.path.exists(OUT):
        old = open(OUT).read()
    if old != text:
        with open(OUT, "w") as f:
            f.write(text)
    return info


def extra_tables(w, info):
    """match tables"""
    # --- escape_seq_char arms:  b'x' => empty.value('\u{..}')
    src = strip_comments(read("crates/toml_edit/src/parser/strings.rs"))
    fn = find_fn(src, "escape_seq_char")
    arms = []
    for m in re.finditer(r"(b'(?:\\.|[^\\'])')\s*=>\s*([^\n]*)", fn):
        key = byte_lit(m.group(1))
        rhs = m.group(2).strip().rstrip(",")
        mv = re.fullmatch(r"empty\.value\('(\\u\{([0-9a-fA-F]+)\}|\\(.)|(.))'\)", rhs)
        if mv:
            if mv.group(2):
                cp = int(mv.group(2), 16)
            elif mv.group(3):
                cp = ESC[mv.group(3)]
            else:
                cp = ord(mv.group(4))
            arms.append((key, ("lit", cp)))
            continue
        mh = re.match(r"cut_err\(hexescape::<(\d+)>\)", rhs)
        if mh:
            arms.append((key, ("hex", int(mh.group(1)))))
            continue
        raise TranslateError(f"strings.rs escape_seq_char: cannot read arm `{m.group(0)}`")
    if "_ =>" not in fn or "cut_err(fail" not in fn:
        raise TranslateError("strings.rs escape_seq_char: default arm is not cut_err(fail)")
    w("/-- arms of `escape_seq_char`: (byte after the backslash, kind, payload): kind 0 = literal code point, kind 1 = N hex digits -/")
    w("def escapeArms : List (UInt8 × Nat × Nat) := [" + ", ".join(
        f"({k}, {0 if v[0]=='lit' else 1}, {v[1]})" for k, v in arms) + "]")
    info["escapeArms"] = arms

    # --- toml_write: arms of the escaped writer, thresholds
    src = strip_comments(read("crates/toml_write/src/string.rs"))
    fn = find_fn(src, "write_toml_value", toplevel=True)
    body = fn[fn.index("match *b"):]
    body = body[:body.index("unescaped_end = i + 1")]
    warms = []
    for m in re.finditer(r"(?m)^\s*(0x[0-9a-fA-F]+)\s*=>\s*\{(.*?)\}", body, re.S):
        key = int(m.group(1), 16)
        blk = m.group(2)
        me = re.search(r'escaped = Some\(r#"(.*?)"#\)', blk)
        cond_ml = "if !is_ml" in blk
        if me:
            warms.append((key, list(me.group(1).encode()), cond_ml))
        elif blk.strip() == "":
            warms.append((key, [], False))
        else:
            raise TranslateError(f"toml_write string.rs: cannot read arm {m.group(0)!r}")
    mc = re.search(r"c if (.*?) => \{\s*break;\s*\}", body, re.S)
    if not mc:
        raise TranslateError("toml_write string.rs: control-character arm not found")
    cond = re.sub(r"\s+", " ", mc.group(1).strip())
    mcond = re.fullmatch(r"c <= (0x[0-9a-fA-F]+) \|\| c == (0x[0-9a-fA-F]+)", cond)
    if not mcond:
        raise TranslateError(f"toml_write string.rs: control condition `{cond}`")
    w("/-- arms of the escaped writer in `write_toml_value`: (byte, escape text, only-when-not-multiline) -/")
    w("def writeEscArms : List (UInt8 × List UInt8 × Bool) := [" + ", ".join(
        f"({k}, {lean_bytes(v)}, {'true' if c else 'false'})" for k, v, c in warms) + "]")
    w(f"def writeCtlLe : Nat := {int(mcond.group(1),16)}")
    w(f"def writeCtlEq : Nat := {int(mcond.group(2),16)}")
    mq = re.search(r"let max_seq_double_quotes = if is_ml \{ (\d+) \} else \{ (\d+) \};", fn)
    if not mq:
        raise TranslateError("toml_write string.rs: max_seq_double_quotes")
    w(f"def writeMaxSeqMl : Nat := {mq.group(1)}")
    w(f"def writeMaxSeqSingle : Nat := {mq.group(2)}")
    mu = re.search(r'write!\(writer, "(\\\\u\{:04X\})", \*b as u32\)', fn)
    if not mu:
        raise TranslateError("toml_write string.rs: \\u{:04X} format")
    # thresholds in the as_* functions: list of conditions, normalised text
    def conds(name, within):
        f = find_fn(within, name)
        m = re.search(r"if (.*?)\{", f, re.S)
        if not m:
            raise TranslateError(f"toml_write string.rs: {name} has no guard")
        return re.sub(r"\s+", " ", m.group(1).strip())
    sb = src[src.index("impl<'s> TomlStringBuilder<'s>"):src.index("pub struct TomlString<")]
    kb = src[src.index("impl<'s> TomlKeyBuilder<'s>"):src.index("pub struct TomlKey<")]
    guards = {
        "v_literal": conds("as_literal", sb), "v_ml_literal": conds("as_ml_literal", sb),
        "v_basic_pretty": conds("as_basic_pretty", sb), "v_ml_basic_pretty": conds("as_ml_basic_pretty", sb),
        "k_unquoted": conds("as_unquoted", kb), "k_literal": conds("as_literal", kb),
        "k_basic_pretty": conds("as_basic_pretty", kb),
    }
    info["write_guards"] = guards

    def guard_expr(g, key):
        # translate `self.metrics.x || 0 < self.metrics.y` into Lean over a metrics record m
        fields = {"escape_codes": "escapeCodes", "escape": "escape", "newline": "newline",
                  "max_seq_single_quotes": "maxSingle", "max_seq_double_quotes": "maxDouble",
                  "unquoted": "unquoted", "single_quotes": "singleQuotes", "double_quotes": "doubleQuotes"}
        parts = [p.strip() for p in g.split("||")]
        outp = []
        for p in parts:
            m = re.fullmatch(r"self\.metrics\.([a-z_]+)", p)
            if m and m.group(1) in fields:
                outp.append(f"m.{fields[m.group(1)]}")
                continue
            m = re.fullmatch(r"(\d+) < self\.metrics\.([a-z_]+)", p)
            if m and m.group(2) in fields:
                outp.append(f"decide ({m.group(1)} < m.{fields[m.group(2)]})")
                continue
            raise TranslateError(f"toml_write string.rs: guard `{g}`")
        return " || ".join(outp)
    w("structure VM where (maxSingle maxDouble : Nat) (escapeCodes escape newline : Bool)")
    w("structure KM where (unquoted singleQuotes doubleQuotes escapeCodes escape : Bool)")
    for k in ["v_literal", "v_ml_literal", "v_basic_pretty", "v_ml_basic_pretty"]:
        w(f"def guard_{k} (m : VM) : Bool := {guard_expr(guards[k], k)}")
    for k in ["k_literal", "k_basic_pretty"]:
        w(f"def guard_{k} (m : KM) : Bool := {guard_expr(guards[k], k)}")
    if guards["k_unquoted"] != "self.metrics.unquoted":
        raise TranslateError(f"toml_write string.rs: as_unquoted guard `{guards['k_unquoted']}`")
    # as_default chains
    def chain(name, within):
        f = find_fn(within, name)
        return re.findall(r"self\.(as_[a-z_]+)\(\)", f)
    vch = chain("as_default", sb)
    kch = chain("as_default", kb)
    w("def vDefaultChain : List String := [" + ", ".join(f'"{c}"' for c in vch) + "]")
    w("def kDefaultChain : List String := [" + ", ".join(f'"{c}"' for c in kch) + "]")
    info["vDefaultChain"] = vch
    info["kDefaultChain"] = kch
    datetime_tables(w, info)
    numbers_tables(w, info)
    panic_inventory(w, info)
    macro_arms(w, info)


PANIC_FILES = [
    "crates/toml_edit/src/parser/trivia.rs", "crates/toml_edit/src/parser/numbers.rs", "crates/toml_edit/src/parser/datetime.rs",
    "crates/toml_edit/src/parser/strings.rs", "crates/toml_edit/src/parser/key.rs", "crates/toml_edit/src/parser/state.rs",
    "crates/toml_edit/src/parser/mod.rs", "crates/toml_edit/src/parser/document.rs", "crates/toml_edit/src/parser/value.rs",
    "crates/toml_edit/src/parser/array.rs", "crates/toml_edit/src/parser/inline_table.rs", "crates/toml_edit/src/parser/table.rs",
    "crates/toml_edit/src/parser/error.rs", "crates/toml_edit/src/raw_string.rs", "crates/toml_edit/src/error.rs",
    "crates/toml_datetime/src/datetime.rs", "crates/toml_edit/src/de/mod.rs",
]
PANIC_RE = re.compile(r"\.expect\(|\.unwrap\(\)|unreachable!|panic!|(?<![a-z_])assert!|(?<![a-z_])assert_eq!|unimplemented!|todo!")


def panic_inventory(w, info):
    """every potential panic site of the anchored files: (file, enclosing fn, construct), in source order"""
    sites = []
    for rel in PANIC_FILES:
        src = strip_comments(read(rel))
        k = src.find("#[cfg(test)]")
        src = src[:k] if k >= 0 else src
        fn = "?"
        for line in src.split("\n"):
            m = re.search(r"\bfn\s+([a-zA-Z0-9_]+)", line)
            if m:
                fn = m.group(1)
            for m in PANIC_RE.finditer(line):
                kind = m.group(0).strip(".(")
                sites.append(f"{rel.split('/src/')[0].split('/')[-1]}/{rel.split('/src/')[1]}:{fn}:{kind}")
    w("/-- potential panic sites (expect / unwrap / unreachable! / panic! / assert!) of the anchored files, in source order -/")
    w("def panicSites : List String := [")
    for st in sites:
        w(f'  "{st}",')
    w("]")
    info["panicSites"] = sites


def lean_str(s):
    return '"' + s.replace("\\", "\\\\").replace('"', '\\"') + '"'


def match_delim(src, i, op, cl):
    """index of the delimiter closing src[i] == op (string-literal aware)"""
    assert src[i] == op
    depth = 0
    j = i
    while j < len(src):
        c = src[j]
        if c == '"':
            j += 1
            while j < len(src) and src[j] != '"':
                j += 2 if src[j] == "\\" else 1
        elif c == op:
            depth += 1
        elif c == cl:
            depth -= 1
            if depth == 0:
                return j
        j += 1
    raise TranslateError(f"unbalanced {op}{cl}")


def macro_arms(w, info):
    """C19: the arms of `toml_internal!` in source order (pattern and expansion, blanks normalised), the `toml!`
    macro and the helper functions the expansions call. Any edit breaks Gen/CheckMacro.lean until the model
    (Model/Macro.lean) and its pinned copy (Model/MacroArms.lean) are reviewed."""
    rel = "crates/toml/src/macros.rs"
    src = strip_comments(read(rel))
    norm = lambda t: " ".join(t.split())
    m = re.search(r"macro_rules!\s*toml_internal\s*\{", src)
    if not m:
        raise TranslateError(f"{rel}: macro_rules! toml_internal not found")
    i = m.end() - 1
    j = match_delim(src, i, "{", "}")
    body = src[i + 1:j]
    arms = []
    k = 0
    while True:
        while k < len(body) and body[k].isspace():
            k += 1
        if k >= len(body):
            break
        if body[k] != "(":
            raise TranslateError(f"{rel}: toml_internal arm {len(arms)}: expected `(` at {body[k:k+30]!r}")
        e = match_delim(body, k, "(", ")")
        pat = body[k:e + 1]
        k = e + 1
        mm = re.match(r"\s*=>\s*", body[k:])
        if not mm or body[k + mm.end():k + mm.end() + 1] != "{":
            raise TranslateError(f"{rel}: toml_internal arm {len(arms)}: expected `=> {{`")
        k += mm.end()
        e = match_delim(body, k, "{", "}")
        rhs = body[k:e + 1]
        k = e + 1
        mm = re.match(r"\s*;", body[k:])
        if mm:
            k += mm.end()
        arms.append(norm(pat) + " => " + norm(rhs))
    if not arms:
        raise TranslateError(f"{rel}: toml_internal has no arms")
    m = re.search(r"macro_rules!\s*toml\s*\{", src)
    if not m:
        raise TranslateError(f"{rel}: macro_rules! toml not found")
    i = m.end() - 1
    helpers = ["macro_rules! toml " + norm(src[i:match_delim(src, i, "{", "}") + 1])]
    fns = re.findall(r"(?m)^(?:pub\s+)?fn\s+([a-z_0-9]+)", src)
    for name in fns:
        helpers.append(norm(find_fn(src, name, toplevel=True)))
    w("/-- arms of `toml_internal!` (crates/toml/src/macros.rs) in source order: `pattern => expansion`, blanks normalised -/")
    w("def macroArms : List String := [")
    w(",\n".join("  " + lean_str(a) for a in arms))
    w("]")
    w("/-- the `toml!` macro and every function of macros.rs, blanks normalised -/")
    w("def macroHelpers : List String := [")
    w(",\n".join("  " + lean_str(a) for a in helpers))
    w("]")
    info["macroArms"] = arms
    info["macroHelpers"] = helpers


def numbers_tables(w, info):
    src = strip_comments(read("crates/toml_edit/src/parser/numbers.rs"))
    k = src.find("#[cfg(test)]")
    src = src[:k] if k >= 0 else src
    f = find_fn(src, "float")
    m = re.search(r"\.verify\(\|f: &f64\| (.*?)\),", f)
    if not m:
        raise TranslateError("numbers.rs float: verify predicate not found")
    w(f'def float_verify : String := "{m.group(1).strip()}"')
    if "cut_err(" not in f or "special_float" not in f:
        raise TranslateError("numbers.rs float: shape")
    f = find_fn(src, "integer")
    arms = re.findall(r'Some\(b"(0.)"\) => cut_err\(([a-z_]+)\.try_map\(\|s\| i64::from_str_radix\(&s\.replace\(\'_\', ""\), (\d+)\)\)\)', f)
    if len(arms) != 3:
        raise TranslateError(f"numbers.rs integer: radix arms {arms}")
    w("def integer_arms : List (String × String × Nat) := [" + ", ".join(f'("{a}", "{b}", {c})' for a, b, c in arms) + "]")
    if "_ => dec_int.and_then(cut_err(rest" not in f or "s.replace('_', \"\").parse()" not in f:
        raise TranslateError("numbers.rs integer: decimal arm")
    f = find_fn(src, "special_float")
    if "Some(b'+') | None => f" not in f or "Some(b'-') => -f" not in f:
        raise TranslateError("numbers.rs special_float: sign arms")
    f = find_fn(src, "nan")
    if "f64::NAN.copysign(1.0)" not in f:
        raise TranslateError("numbers.rs nan: value")
    # toml_write float writers
    src = strip_comments(read("crates/toml_write/src/value.rs"))
    for ty in ("f32", "f64"):
        i = src.index(f"impl WriteTomlValue for {ty} ")
        blk = src[i:src.index("impl", i + 10)]
        arms = re.findall(r'\(([a-z_]+), ([a-z_]+), ([a-z_]+)\) => (?:write!\(writer, "([^"]*)"\)|\{)', blk)
        inner = re.findall(r'write!\(writer, "(\{self\}[^"]*)"\)', blk)
        cond = re.search(r"if (self % 1\.0 == 0\.0)", blk)
        w(f"def write_{ty}_arms : List (String × String × String × String) := [" +
          ", ".join(f'("{a}", "{b}", "{c}", "{d}")' for a, b, c, d in arms) + "]")
        w(f"def write_{ty}_inner : List String := [" + ", ".join(f'"{x}"' for x in inner) + "]")
        w(f"def write_{ty}_integral_test : Bool := {'true' if cond else 'false'}")
    for ty in ("i64",):
        i = src.index(f"impl WriteTomlValue for {ty} ")
        blk = src[i:src.index("impl", i + 10)]
        if 'write!(writer, "{self}")' not in blk:
            raise TranslateError(f"toml_write value.rs: {ty} writer")


def datetime_tables(w, info):
    """range bounds of both date-time parsers"""
    src = strip_comments(read("crates/toml_edit/src/parser/datetime.rs"))
    k = src.find("#[cfg(test)]")
    src = src[:k] if k >= 0 else src
    bounds = {}
    for fn in ["date_month", "date_mday", "time_hour", "time_minute", "time_second"]:
        f = find_fn(src, fn)
        m = re.search(r"\((\d+)\.\.=(\d+)\)\.contains\(&d\)", f)
        md = re.search(r"unsigned_digits::<(\d+), (\d+)>", f)
        if not m or not md:
            raise TranslateError(f"parser/datetime.rs: {fn}: range or digit count not found")
        bounds[fn] = (int(m.group(1)), int(m.group(2)), int(md.group(1)), int(md.group(2)))
    f = find_fn(src, "date_fullyear")
    md = re.search(r"unsigned_digits::<(\d+), (\d+)>", f)
    if not md:
        raise TranslateError("parser/datetime.rs: date_fullyear digits")
    w("/-- (lo, hi, min digits, max digits) of the document parser's date-time fields -/")
    for fn, b in bounds.items():
        w(f"def doc_{fn} : Nat × Nat × Nat × Nat := ({b[0]}, {b[1]}, {b[2]}, {b[3]})")
    w(f"def doc_date_fullyear_digits : Nat × Nat := ({md.group(1)}, {md.group(2)})")
    f = find_fn(src, "full_date_")
    mm = re.search(r"let max_days_in_month = match month \{(.*?)\};", f, re.S)
    if not mm:
        raise TranslateError("parser/datetime.rs: month-length match")
    arms = re.sub(r"\s+", " ", mm.group(1).strip())
    w(f'def doc_month_arms : String := "{arms}"')
    ml = re.search(r"let is_leap_year = (.*?);", f, re.S)
    w(f'def doc_leap : String := "{re.sub(chr(92)+"s+", " ", ml.group(1).strip())}"')
    if "if max_days_in_month < day" not in f:
        raise TranslateError("parser/datetime.rs: max-day comparison")
    f = find_fn(src, "time_secfrac")
    ms = re.search(r"static SCALE: \[u32; (\d+)\] = \[(.*?)\];", f, re.S)
    if not ms:
        raise TranslateError("parser/datetime.rs: SCALE")
    sc = [int(x.strip().replace("_", "")) for x in ms.group(2).split(",") if x.strip()]
    w("def doc_SCALE : List Nat := [" + ", ".join(map(str, sc)) + "]")
    f = find_fn(src, "time_offset")
    mo = re.search(r"\(\((-?\d+) \* (\d+)\)\.\.=\((\d+) \* (\d+)\)\)\.contains\(minutes\)", f)
    if not mo:
        raise TranslateError("parser/datetime.rs: offset range")
    w(f"def doc_offset_range : Int × Int := ({int(mo.group(1)) * int(mo.group(2))}, {int(mo.group(3)) * int(mo.group(4))})")
    if "hours as i16 * 60 + minutes as i16" not in f:
        raise TranslateError("parser/datetime.rs: offset arithmetic")
    f = find_fn(src, "date_time")
    if "(full_date, opt((time_delim, partial_time, opt(time_offset))))" not in f:
        raise TranslateError("parser/datetime.rs: date_time shape")
    # ---- toml_datetime FromStr
    src = strip_comments(read("crates/toml_datetime/src/datetime.rs"))
    i = src.index("impl FromStr for Datetime")
    f = src[i:src.index("fn digit(", i)]
    conds = {
        "month": r"if date\.month < (\d+) \|\| date\.month > (\d+)",
        "day": r"if date\.day < (\d+) \|\| date\.day > max_days_in_month",
        "hour": r"if time\.hour > (\d+)",
        "minute": r"if time\.minute > (\d+)",
        "second": r"if time\.second > (\d+)",
        "nanosecond": r"if time\.nanosecond > ([\d_]+)",
        "offset_fields": r"if hours > (\d+) \|\| minutes > (\d+)",
        "offset_total": r"\(\((-?\d+) \* (\d+)\)\.\.=\((\d+) \* (\d+)\)\)\.contains\(&total_minutes\)",
        "minlen": r"if date\.len\(\) < (\d+)",
        "frac_digits": r"if i < (\d+)",
        "frac_pow": r"10_u32\.pow\((\d+) - i as u32\)",
    }
    for k, rx in conds.items():
        m = re.search(rx, f)
        if not m:
            raise TranslateError(f"toml_datetime datetime.rs: FromStr check `{k}` not found")
        vals = [int(g.replace("_", "")) for g in m.groups()]
        w(f"def std_{k} : List Int := [" + ", ".join(map(str, vals)) + "]")
    mm = re.search(r"let max_days_in_month = match date\.month \{(.*?)\};", f, re.S)
    if not mm:
        raise TranslateError("toml_datetime: month-length match")
    w(f'def std_month_arms : String := "{re.sub(chr(92)+"s+", " ", mm.group(1).strip())}"')
    ml = re.search(r"let is_leap_year =(.*?);", f, re.S)
    w(f'def std_leap : String := "{re.sub(chr(92)+"s+", " ", ml.group(1).strip())}"')
    md = re.search(r"next == Some\('(.)'\) \|\| next == Some\('(.)'\) \|\| next == Some\('(.)'\)", f)
    if not md:
        raise TranslateError("toml_datetime: time delimiters")
    w("def std_time_delims : List UInt8 := [" + ", ".join(str(ord(c)) for c in md.groups()) + "]")
    # Display
    disp = src[src.index("impl fmt::Display for Date {"):src.index("impl FromStr for Datetime")]
    fmts = re.findall(r'write!\(f, "([^"]*)"', disp) + re.findall(r'format!\("([^"]*)"', disp)
    w("def std_display_formats : List String := [" + ", ".join('"' + x + '"' for x in fmts) + "]")


if __name__ == "__main__":
    try:
        info = main()
    except TranslateError as e:
        print(f"translate: {e}", file=sys.stderr)
        sys.exit(2)
    if len(sys.argv) > 1 and sys.argv[1] == "--json":
        print(json.dumps(info))
