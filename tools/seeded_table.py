#!/usr/bin/env python3
"""rewrites section 13 of DESIGN.md from seeded/*/meta.json and seeded/RESULTS.json"""
import json, os, re
ROOT = os.path.abspath(os.path.join(os.path.dirname(__file__), ".."))
sd = os.path.join(ROOT, "seeded")
res = json.load(open(os.path.join(sd, "RESULTS.json")))
rows = []
for i in sorted(d for d in os.listdir(sd) if os.path.isdir(os.path.join(sd, d))):
    m = json.load(open(os.path.join(sd, i, "meta.json")))
    r = res.get(i, {})
    caught = [f"{c}{'' if v.get('concrete') else ' (tie only)'}" for c, v in sorted(r.items()) if isinstance(v, dict) and v.get("caught")]
    missed = [c for c, v in sorted(r.items()) if isinstance(v, dict) and not v.get("caught")]
    rows.append(f"| {i} | {m['property']} | {m['needs_to_manifest'][:230]} | {', '.join(caught) or '—'} | {', '.join(missed) or '—'} |")
text = """

---------------------------------------------------------------------------------------------------

## 13. Seeded changes and which checks catch them

Every change below was written by a fresh sub-agent that saw only the property text and a scratch
worktree, compiles, passes the whole existing suite (2186 tests) and comes with a demonstration that
fails with it and passes without it; each was re-confirmed in a scratch worktree before being kept
(`seeded/<id>/{patch.diff, demo, meta.json}`). `tools/run_seeded.py` applies each to /repo, runs the
checks and restores the tree. "tie only" = the check fails on a table theorem / the correspondence
without a direct-oracle witness of its own. "also run" checks that do not catch a change are listed
for completeness: they are checks of *other* properties.

| id | property | needs, in order to manifest | caught by | other checks run that do not see it |
|---|---|---|---|---|
""" + "\n".join(rows) + """

Checks strengthened because a seeded change was first missed: C01/C02 gained the statement-sequence
and header-order streams (M02, M10); C03 gained the header-order shapes (M10); C14's oracle now
threads the nearest spanned ancestor through dotted tables (M11); C16 gained the wide-table stream
with sort ties, an exact array print oracle and stability theorems (M09); C18's battery gained
toml::Table insert/remove histories per configuration (M14); C07 gained the toml::Value / Holder
typed families judged on the values themselves, because the recorded serde calls of a value whose
own `Serialize` impl is the broken code are already lossy (M19, M24); C08 keeps its in-memory oracle
running after a known class was seen on a sequence (before, the rest of the sequence went
unchecked) and has containers of four and more elements among its hand-written layouts (M20, first
caught by the correspondence only); C16 gained the rest of the Entry API (M21); C14's harness checks
that a span synthesized for a table without one of its own covers every entry below it, on
generated interleaved layouts (M27); C17/C13 gained an externally tagged enum as document root
(M38); C08 gained wide documents (32-90 interleaved tables) edited by appending array-of-tables
elements (M39: the printer's position sort must be stable); C18's battery reports whether `==` on
toml::Table depends on insertion order (M40).
Second-round changes (M21-M40) were written by fresh sub-agents that were told which idea the first
round had already used for that property. Of the 20 second-round changes 13 were caught at once by
the check of their own property, 1 only by checks of neighbouring properties (M24), and 6 were
missed by their own property's check at first (M19/C07 in round one, M21, M27, M38, M39, M40) and
led to the strengthenings above. Third round (M41-M46, the six properties whose checks had needed
strengthening): 4 caught at once by their own check (M41, M42, M44, M45); M43 (C18: a panic only
under preserve_order when toml::Table is deserialized from a serde stream with an absurd size hint)
and M46 (C17: toml_edit::ser::to_string_pretty hides empty tables) were missed and led to the `hint`
battery items of C18 and the `esame` oracle of C17. Third round for C01-C06, C09 (M47-M53): 5 caught
at once; M52 (C06: an implicit table whose pairs all live in dotted children loses its header) and M53
(C09: inside an inline table a four-segment dotted key extends a closed inline table stored under a
dotted prefix) were missed: C06 gained API-flagged tables (set_dotted / set_implicit, visible shapes
only), C09 gained an inline-table definition stream with an independent reference (keys of up to
four segments). Third round for C10-C13, C15, C19, C20 (M54-M60): 5 caught at once; M57 (C13: a tuple
variant read from a table with shuffled index keys, same-typed components, so that two succeeding
routes return different values) and M58 (C15: an error inside a compound value read through
`Option<T>` gets the span of the whole optional value) were missed: C13's typed stream gained shuffled
index-key tables for same-typed tuple variants, C15's typed decodes are repeated through `Option` at
every level. All 60 are caught now. Over the three rounds: 60 changes, 44 caught at once by the check
of their own property, 16 led to a strengthening.
Fourth round (agents were given the list of all ideas already used for their property), C01-C07
(M61-M67): 4 caught at once (C01, C02, C03, C07); M64 (C04: the same site as M34, found independently:
an abort by stack overflow after a forgotten limit) was seen by C05 but not by C04 — C04 now feeds
every nesting construct far beyond the limit to the implementation; M65 (C05: two comparison changes
that only together let the counter step over the limit) was caught through the correspondence only —
C05 gained an independent Python statement of the nesting rule as a direct oracle for both verdicts;
M66 (C06: `[,]` for an empty array with the trailing-comma flag) — C06's flagged stream sets array
flags too.
C08-C14 (M68-M74): 4 caught at once (C09, C10, C12, C13); M69 (C08: `Array::retain` emptying an array with
a trailing comma prints `[,`) was caught through the reviewed probe corpus only — C08 gained the op `adelr`
(removal through `retain`) and 'drain' histories that empty trailing-comma arrays through both mutators; M72
(C11: `toml::Value`'s `visit_u64` wraps above `i64::MAX`, reachable only from a foreign deserializer) was
missed — C11 gained the `vv` op (every width handed to `toml::Value` / `toml::Table` by serde's primitive
deserializers) with `Model/SerdeInt.lean` and the theorems `T11_visit_*`; M74 (C14: a newtype key over
`Spanned<String>`) was missed — C14 now reads every document with four key kinds, which also exposed the
genuine defect F35 in the unchanged code (reported by the same sub-agent as a side observation).
C15-C20 (M75-M80): 4 caught at once (C15 by the new located-decoder stream, C16, C17, C19); M78 (C18: the
`serde` feature of toml_edit no longer forwards `toml_datetime/serde`; hidden by feature unification whenever
`toml` is in the build graph) was missed — C18 now runs `cargo check -p <crate>` for each crate ALONE in its
serde-on / serde-off configurations; M80 (C20: the pretty formatter returns before descending into arrays of
0 or 1 elements) was seen by C07/C17 only through the probe corpus — C20 gained a direct oracle on the crate's
own `VisitMut` client (every array of the `to_string_pretty` output has the layout its length calls for) and
a generator of arrays of every length nested in each other.
Round 4 in numbers: 20 changes, 12 caught at once by the check of their own property, 8 led to a strengthening;
over all four rounds: 80 changes, 56 caught at once, 24 after a strengthening, none left uncaught.
"""
p = os.path.join(ROOT, "DESIGN.md")
s = open(p).read()
SEP = "\n\n---------------------------------------------------------------------------------------------------\n\n"
k = s.find(SEP + "## 13.")
tail = ""
if k >= 0:
    k14 = s.find(SEP + "## 14.", k)
    tail = s[k14:] if k14 >= 0 else ""
    s = s[:k]
open(p, "w").write(s.rstrip("\n") + "\n" + text.rstrip("\n") + "\n" + tail)
print(len(rows), "rows")
