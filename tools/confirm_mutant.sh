#!/bin/sh
# confirm_mutant.sh <worktree> <demo file name> <crate whose tests dir hosts the demo> : existing suite passes with the change, demo fails with it and passes without it
W=$1; DEMO=$2; CRATE=$3
cd $W || exit 2
git diff > /tmp/$(basename $W).patch
echo "== change:"; git diff --stat | tail -1
echo "== existing suite WITH the change"
cargo test --workspace --no-fail-fast --offline 2>&1 | grep -E "^test result|FAILED|failed" | awk '/test result/ {p+=$4; f+=$6} !/test result/ {print} END {print "passed",p,"failed",f}'
T=$(basename $DEMO .rs)
cp $DEMO crates/$CRATE/tests/$T.rs
echo "== demo WITH the change (expected: fails)"
cargo test -p $CRATE --test $T --offline 2>&1 | grep -E "^test result|panicked" | head -5
git stash -q
echo "== demo WITHOUT the change (expected: passes)"
cargo test -p $CRATE --test $T --offline 2>&1 | grep -E "^test result|panicked" | head -5
git stash pop -q
rm crates/$CRATE/tests/$T.rs
git status --short
