#!/bin/sh
# with_seeded.sh <seeded-id> <command…> : apply the seeded change to /repo, rebuild the harness, run the command, restore /repo
ID=$1; shift
P=/verif/seeded/$ID/patch.diff
[ -z "$(git -C /repo status --porcelain --untracked-files=no)" ] || { echo "/repo not clean"; exit 2; }
git -C /repo apply $P || exit 2
(cd /verif/harness && CARGO_TARGET_DIR=/verif/.build/cargo cargo build --offline -q 2>&1 | tail -3)
"$@"
git -C /repo checkout -- .
(cd /verif/harness && CARGO_TARGET_DIR=/verif/.build/cargo cargo build --offline -q 2>&1 | tail -3)
