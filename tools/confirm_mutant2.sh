#!/bin/sh
# confirm_mutant2.sh <worktree> <demo.rs> <crate> <kind: test|example|run-example> [extra cargo args]
W=$1; DEMO=$2; CRATE=$3; KIND=$4; EXTRA=$5
cd $W || exit 2
echo "== change:"; git diff --stat | tail -1
echo "== existing suite WITH the change"
cargo test --workspace --no-fail-fast --offline 2>&1 | grep -E "^test result|FAILED|failed" | awk '/test result/ {p+=$4; f+=$6} !/test result/ {print} END {print "passed",p,"failed",f}'
T=$(basename $DEMO .rs)
rundemo() {
  if [ "$KIND" = "test" ]; then mkdir -p crates/$CRATE/tests; cp $DEMO crates/$CRATE/tests/$T.rs; cargo test -p $CRATE --test $T --offline $EXTRA 2>&1 | grep -E "^test result|panicked|overflow" | head -4; rm crates/$CRATE/tests/$T.rs; rmdir crates/$CRATE/tests 2>/dev/null
  elif [ "$KIND" = "example" ]; then cp $DEMO crates/$CRATE/examples/$T.rs; cargo test -p $CRATE --example $T --offline $EXTRA 2>&1 | grep -E "^test result|panicked|overflow" | head -4; rm crates/$CRATE/examples/$T.rs
  else cp $DEMO crates/$CRATE/examples/$T.rs; cargo run -q -p $CRATE --example $T --offline $EXTRA 2>&1 | tail -3; echo "exit=$?"; rm crates/$CRATE/examples/$T.rs; fi
}
echo "== demo WITH the change (expected: fails)"; rundemo
git diff > /tmp/confirm_$$.diff; git checkout -q -- .   # not git stash: the stash is shared between worktrees
echo "== demo WITHOUT the change (expected: passes)"; rundemo
git apply /tmp/confirm_$$.diff; rm -f /tmp/confirm_$$.diff
git status --short
