#!/usr/bin/env python3
"""mutate_campaign.py — an automated complement to the sub-agent-written seeded changes.

phase `gen`  : sample single-token mutations of the non-test library code, keep those that compile AND pass the whole
               existing suite (in scratch worktrees under /tmp, N workers); survivors are stored under
               work/campaign/survivors/<id>.diff with a one-line description.
phase `eval` : apply each survivor to /repo, run the quick checks of the properties anchored in the mutated file
               (properties.jsonl anchors.files) — or all checks with --all —, restore /repo; results in
               work/campaign/results.json.
A survivor no check catches is either an equivalent mutant (behaviour unchanged) or a gap; triage is manual and is
recorded in DESIGN.md section 14.  Nothing here is registered in MANIFEST.json; /repo is restored after every run.
"""
import os, re, sys, json, random, subprocess, argparse, shutil, hashlib, concurrent.futures as cf
ROOT = os.path.abspath(os.path.join(os.path.dirname(__file__), ".."))
REPO = "/repo"
CAMP = os.path.join(ROOT, "work", "campaign")

OPS = [
    (r"(?<![<>=!\-+*/&|])<(?![<=])", "<=", "lt->le"), (r"<=", "<", "le->lt"), (r"(?<![<>=!\-])>(?![>=])", ">=", "gt->ge"), (r">=", ">", "ge->gt"),
    (r"==", "!=", "eq->ne"), (r"!=", "==", "ne->eq"), (r"&&", "||", "and->or"), (r"\|\|", "&&", "or->and"),
    (r"\bshift_remove\b", "swap_remove", "shift->swap"), (r"\.first\(\)", ".last()", "first->last"), (r"\.last\(\)", ".first()", "last->first"),
    (r"\.min\(", ".max(", "min->max"), (r"\.max\(", ".min(", "max->min"), (r"\.is_some\(\)", ".is_none()", "some->none"), (r"\.is_none\(\)", ".is_some()", "none->some"),
    (r"\btrue\b", "false", "true->false"), (r"\bfalse\b", "true", "false->true"), (r"\+ 1\b", "+ 2", "+1->+2"), (r" - 1\b", "", "drop -1"), (r" \+ 1\b", "", "drop +1"),
    (r"\bif !", "if ", "drop-not"), (r"\.is_empty\(\)", ".len() == 1", "empty->len1"), (r"\bsaturating_sub\b", "wrapping_sub", "sat->wrap"),
    (r"\.rev\(\)", "", "drop rev"), (r"\b0\.\.", "1..", "0..->1.."), (r"\.\.=", "..", "..=->.."),
]


def sh(cmd, **kw):
    return subprocess.run(cmd, capture_output=True, text=True, **kw)


def lib_files():
    out = []
    for crate in ("toml", "toml_edit", "toml_write", "toml_datetime", "serde_spanned"):
        base = os.path.join(REPO, "crates", crate, "src")
        for dp, dn, fns in os.walk(base):
            for f in fns:
                if f.endswith(".rs") and "test" not in f:
                    out.append(os.path.relpath(os.path.join(dp, f), REPO))
    return sorted(out)


def code_lines(src):
    """(index, line) of lines that are code outside #[cfg(test)] modules, comments, doc comments, attribute lines"""
    lines = src.split("\n")
    out = []
    in_test = False
    depth_at = None
    depth = 0
    pending = False
    for i, l in enumerate(lines):
        st = l.strip()
        if st.startswith("#[cfg(test)]"):
            pending = True
        if pending and re.match(r"\s*(pub\s+)?mod\s+\w+\s*\{", l):
            in_test, depth_at, pending = True, depth, False
        opens, closes = l.count("{"), l.count("}")
        if not in_test and st and not st.startswith(("//", "#[", "#![", "*", "/*")) and "debug_assert" not in st and "assert!" not in st:
            out.append(i)
        depth += opens - closes
        if in_test and depth <= depth_at:
            in_test = False
    return lines, out


def candidates(rng, files, n):
    cands = []
    for f in files:
        src = open(os.path.join(REPO, f)).read()
        lines, idx = code_lines(src)
        for i in idx:
            code = lines[i].split("//")[0]
            if '"' in code and code.count('"') >= 2 and re.search(r'"[^"]*(<|>|=|true|false)[^"]*"', code):
                continue
            for rx, rep, name in OPS:
                for m in re.finditer(rx, code):
                    # skip generics / arrows / lifetimes
                    ctx = code[max(0, m.start() - 2): m.end() + 2]
                    if name in ("lt->le", "gt->ge") and (re.search(r"[A-Za-z_>]\s*<\s*[A-Z'&]", code) or "->" in ctx or "=>" in ctx or "::<" in code or re.search(r"<[A-Za-z_' ,&:\[\]()]+>", code)):
                        continue
                    if name in ("ge->gt", "le->lt") and "=>" in ctx:
                        continue
                    cands.append((f, i, m.start(), m.end(), rep, name))
    rng.shuffle(cands)
    # spread over files: at most n/8 per file
    per = {}
    out = []
    for c in cands:
        if per.get(c[0], 0) >= max(3, n // 6):
            continue
        per[c[0]] = per.get(c[0], 0) + 1
        out.append(c)
        if len(out) >= n:
            break
    return out


def make_patch(c):
    f, i, a, b, rep, name = c
    src = open(os.path.join(REPO, f)).read().split("\n")
    old = src[i]
    new = old[:a] + rep + old[b:]
    return old, new


def worker(wid, jobs):
    wt = f"/tmp/camp_w{wid}"
    tgt = f"/tmp/camp_t{wid}"
    sh(["git", "-C", REPO, "worktree", "remove", "--force", wt])
    r = sh(["git", "-C", REPO, "worktree", "add", "--detach", wt, "HEAD"])
    if r.returncode != 0:
        return [("error", str(r.stderr))]
    env = dict(os.environ, CARGO_TARGET_DIR=tgt, CARGO_NET_OFFLINE="true")
    res = []
    # warm build
    sh(["cargo", "test", "--workspace", "--no-run", "--offline"], cwd=wt, env=env)
    for c in jobs:
        f, i, a, b, rep, name = c
        old, new = make_patch(c)
        mid = hashlib.sha1(f"{f}:{i}:{a}:{name}".encode()).hexdigest()[:10]
        p = os.path.join(wt, f)
        lines = open(p).read().split("\n")
        if lines[i] != old:
            res.append((mid, "stale"))
            continue
        lines[i] = new
        open(p, "w").write("\n".join(lines))
        try:
            b1 = sh(["cargo", "build", "--workspace", "--offline"], cwd=wt, env=env)
            if b1.returncode != 0:
                res.append((mid, "no-compile"))
                continue
            t = sh(["cargo", "test", "--workspace", "--no-fail-fast", "--offline"], cwd=wt, env=env, timeout=1500)
            failed = sum(int(m.group(1)) for m in re.finditer(r"test result: \w+\. \d+ passed; (\d+) failed", t.stdout))
            passed = sum(int(m.group(1)) for m in re.finditer(r"test result: \w+\. (\d+) passed", t.stdout))
            if t.returncode != 0 or failed:
                res.append((mid, f"killed-by-suite ({failed} failed)"))
                continue
            d = sh(["git", "-C", wt, "diff"]).stdout
            os.makedirs(os.path.join(CAMP, "survivors"), exist_ok=True)
            open(os.path.join(CAMP, "survivors", mid + ".diff"), "w").write(d)
            json.dump({"id": mid, "file": f, "line": i + 1, "op": name, "old": old.strip(), "new": new.strip(), "suite_passed": passed},
                      open(os.path.join(CAMP, "survivors", mid + ".json"), "w"), indent=1)
            res.append((mid, "SURVIVOR"))
        except subprocess.TimeoutExpired:
            res.append((mid, "killed-by-suite (timeout)"))
        finally:
            sh(["git", "-C", wt, "checkout", "--", "."])
    sh(["git", "-C", REPO, "worktree", "remove", "--force", wt])
    shutil.rmtree(tgt, ignore_errors=True)
    return res


def anchors():
    m = {}
    for l in open(os.path.join(ROOT, "properties.jsonl")):
        p = json.loads(l)
        for f in p["anchors"]["files"]:
            m.setdefault(f, []).append(p["id"])
    return m


def main():
    ap = argparse.ArgumentParser()
    ap.add_argument("phase", choices=["gen", "eval", "report"])
    ap.add_argument("-n", type=int, default=120)
    ap.add_argument("--workers", type=int, default=4)
    ap.add_argument("--seed", type=int, default=1)
    ap.add_argument("--all", action="store_true")
    ap.add_argument("--only", default=None)
    a = ap.parse_args()
    os.makedirs(CAMP, exist_ok=True)
    if a.phase == "gen":
        rng = random.Random(a.seed)
        cs = candidates(rng, lib_files(), a.n)
        chunks = [cs[i::a.workers] for i in range(a.workers)]
        allres = []
        with cf.ThreadPoolExecutor(a.workers) as ex:
            for r in ex.map(lambda t: worker(*t), enumerate(chunks)):
                allres += r
        hist = {}
        for _, st in allres:
            k = st.split(" ")[0]
            hist[k] = hist.get(k, 0) + 1
        log = os.path.join(CAMP, f"gen_seed{a.seed}.json")
        json.dump({"seed": a.seed, "sampled": len(cs), "outcomes": hist, "detail": allres}, open(log, "w"), indent=1)
        print(hist)
        return 0
    if a.phase == "eval":
        if sh(["git", "-C", REPO, "status", "--porcelain", "--untracked-files=no"]).stdout.strip():
            print("refusing: /repo has uncommitted changes")
            return 2
        anc = anchors()
        allchecks = [c["property_id"] for c in json.load(open(os.path.join(ROOT, "MANIFEST.json")))["checks"]]
        resf = os.path.join(CAMP, "results.json")
        results = json.load(open(resf)) if os.path.exists(resf) else {}
        evdir = os.path.join(ROOT, "evidence")
        backup = os.path.join(ROOT, "work", "campaign_evidence_backup")
        shutil.rmtree(backup, ignore_errors=True)
        shutil.copytree(evdir, backup)
        try:
            for fn in sorted(os.listdir(os.path.join(CAMP, "survivors"))):
                if not fn.endswith(".json"):
                    continue
                meta = json.load(open(os.path.join(CAMP, "survivors", fn)))
                mid = meta["id"]
                if a.only and mid != a.only:
                    continue
                if mid in results and not a.only:
                    continue
                checks = allchecks if a.all else sorted(set(anc.get(meta["file"], [])) & set(allchecks)) or allchecks
                r = sh(["git", "-C", REPO, "apply", os.path.join(CAMP, "survivors", mid + ".diff")])
                if r.returncode != 0:
                    results[mid] = {"error": "patch does not apply"}
                    continue
                row = {}
                try:
                    for c in checks:
                        p = sh([sys.executable, os.path.join(ROOT, "tools", "check.py"), c, "--tier", "quick"], cwd=ROOT)
                        vio = [l for l in p.stdout.split("\n") if l.startswith("VIOLATION")]
                        first = [l.strip() for l in p.stdout.split("\n") if l.strip().startswith("violation:")][:1]
                        row[c] = {"caught": p.returncode != 0, "concrete": bool(vio) and "no-failing-input-found" not in vio[0], "first": (first[0][:200] if first else "")}
                finally:
                    sh(["git", "-C", REPO, "checkout", "--", "."])
                results[mid] = {"meta": meta, "checks": row, "caught_by": [c for c in row if row[c]["caught"]]}
                print(mid, meta["file"], meta["line"], meta["op"], "->", results[mid]["caught_by"] or "MISSED", flush=True)
                json.dump(results, open(resf, "w"), indent=1)
        finally:
            sh(["git", "-C", REPO, "checkout", "--", "."])
            sh([sys.executable, os.path.join(ROOT, "tools", "translate.py")])
            shutil.rmtree(evdir)
            shutil.copytree(backup, evdir)
            shutil.rmtree(backup)
        return 0
    if a.phase == "report":
        results = json.load(open(os.path.join(CAMP, "results.json")))
        caught = [m for m, r in results.items() if r.get("caught_by")]
        missed = [m for m, r in results.items() if "checks" in r and not r["caught_by"]]
        print(f"survivors evaluated {len(results)}: caught {len(caught)}, missed {len(missed)}")
        for m in missed:
            me = results[m]["meta"]
            print(f"  MISSED {m} {me['file']}:{me['line']} {me['op']}: `{me['old'][:90]}` -> `{me['new'][:90]}` (checks run: {','.join(results[m]['checks'])})")
        return 0


if __name__ == "__main__":
    sys.exit(main())
