"""defrules — the definition rules of TOML 1.0.0 (DESIGN.md section 3.3) written from the prose of the
specification as a flat map  path -> kind, deliberately unlike the code's tree-with-flags.

A statement is ('std', path) | ('aot', path) | ('kv', path, value) where value is
('s', v) scalar/array placeholder | ('inl', [(path, value), ...]) inline table.
run(stmts) -> ('valid', tree) | ('invalid', why) | ('undecided', why)   (undecided = class U1)
tree: nested dict; arrays of tables are lists of dicts; scalars are whatever was given.
"""


class Invalid(Exception):
    pass


class Undecided(Exception):
    pass


def inline_tree(pairs):
    """an inline table is its own isolated scope with the same rules (no headers inside)"""
    kinds = {}
    tree = {}
    for path, val in pairs:
        node = tree
        for i in range(len(path) - 1):
            p = tuple(path[: i + 1])
            k = kinds.get(p)
            if k is None:
                kinds[p] = "dotted"
                node[path[i]] = {}
            elif k != "dotted":
                raise Invalid(f"inline: {'.'.join(path[:i+1])} is not a table that dotted keys may extend")
            node = node[path[i]]
        p = tuple(path)
        if p in kinds:
            raise Invalid(f"inline: {'.'.join(path)} defined twice")
        kinds[p] = "value"
        node[path[-1]] = value_tree(val)
    return tree


def value_tree(val):
    if isinstance(val, tuple) and val and val[0] == "inl":
        return inline_tree(val[1])
    return val


def run(stmts):
    kinds = {}      # effective path -> kind
    count = {}      # effective path of an aot -> number of elements
    tree = {}
    sect = ()       # effective path of the current section
    sect_id = 0
    undecided = None

    def node_at(eff):
        n = tree
        for c in eff:
            if isinstance(c, tuple):
                n = n[c[1]]
            else:
                n = n[c]
        return n

    def step(eff, name):
        """effective path of child `name` of the table at eff (enters the last element of an aot)"""
        e = eff + (name,)
        if kinds.get(e) == "aot":
            e = e + (("#", count[e] - 1),)
        return e

    try:
        for st in stmts:
            if st[0] in ("std", "aot"):
                path = st[1]
                eff = ()
                for name in path[:-1]:
                    e = eff + (name,)
                    k = kinds.get(e)
                    if k is None:
                        kinds[e] = "implicit"
                        node_at(eff)[name] = {}
                        eff = e
                    elif k == "value":
                        raise Invalid(f"header passes through the value {'.'.join(path)}")
                    elif k == "aot":
                        eff = e + (("#", count[e] - 1),)
                    else:
                        eff = e
                e = eff + (path[-1],)
                k = kinds.get(e)
                if st[0] == "std":
                    if k is None:
                        kinds[e] = "explicit"
                        node_at(eff)[path[-1]] = {}
                    elif k == "implicit":
                        kinds[e] = "explicit"        # super-table declared after its sub-table: allowed once
                    elif k == "explicit":
                        raise Invalid(f"table {'.'.join(path)} defined twice")
                    elif k.startswith("dotted"):
                        raise Invalid(f"header reopens the dotted-key table {'.'.join(path)}")
                    elif k == "value":
                        raise Invalid(f"header redefines the value {'.'.join(path)}")
                    else:
                        raise Invalid(f"header collides with the array of tables {'.'.join(path)}")
                    sect = e
                else:
                    if k is None:
                        kinds[e] = "aot"
                        count[e] = 1
                        node_at(eff)[path[-1]] = [{}]
                    elif k == "aot":
                        count[e] += 1
                        node_at(eff)[path[-1]].append({})
                    else:
                        raise Invalid(f"array-of-tables header collides with {k} {'.'.join(path)}")
                    sect = e + (("#", count[e] - 1),)
                    kinds[sect] = "explicit"
                sect_id += 1
            else:
                _, path, val = st
                eff = sect
                for name in path[:-1]:
                    e = eff + (name,)
                    k = kinds.get(e)
                    if k is None:
                        kinds[e] = f"dotted:{sect_id}"
                        node_at(eff)[name] = {}
                        eff = e
                    elif k == f"dotted:{sect_id}":
                        eff = e
                    elif k == "implicit":
                        # a table that exists only as a by-product of a longer header: U1
                        raise Undecided(f"dotted key extends the header-implicit table {'.'.join(path[:-1])}")
                    elif k == "explicit":
                        raise Invalid(f"dotted key redefines the table {'.'.join(path)} defined in [table] form")
                    elif k == "value":
                        raise Invalid("dotted key extends a value")
                    elif k == "aot":
                        raise Invalid("dotted key appends to an array of tables")
                    else:
                        raise Invalid("dotted key extends a dotted table of another section")
                e = eff + (path[-1],)
                if e in kinds:
                    raise Invalid(f"key {'.'.join(path)} defined twice")
                kinds[e] = "value"
                node_at(eff)[path[-1]] = value_tree(val)
    except Invalid as x:
        return ("invalid", str(x))
    except Undecided as x:
        return ("undecided", str(x))
    return ("valid", tree)
