#!/usr/bin/env python3
"""run_seeded.py [ids…] [--checks C01,C02] — apply each seeded change to /repo, run the checks, undo it.
Writes seeded/RESULTS.json: which checks catch which change (used for the table in DESIGN.md)."""
import os, sys, json, subprocess, argparse
ROOT = os.path.abspath(os.path.join(os.path.dirname(__file__), ".."))
REPO = "/repo"


def sh(cmd, **kw):
    return subprocess.run(cmd, capture_output=True, text=True, **kw)


def main():
    ap = argparse.ArgumentParser()
    ap.add_argument("ids", nargs="*")
    ap.add_argument("--checks", default=None)
    ap.add_argument("--tier", default="quick")
    a = ap.parse_args()
    sd = os.path.join(ROOT, "seeded")
    ids = a.ids or sorted(d for d in os.listdir(sd) if os.path.isdir(os.path.join(sd, d)))
    manifest = json.load(open(os.path.join(ROOT, "MANIFEST.json")))
    allchecks = [c["property_id"] for c in manifest["checks"]]
    resfile = os.path.join(sd, "RESULTS.json")
    results = json.load(open(resfile)) if os.path.exists(resfile) else {}
    if sh(["git", "-C", REPO, "status", "--porcelain", "--untracked-files=no"]).stdout.strip():
        print("refusing: /repo has uncommitted changes")
        return 2
    # evidence files describe runs on the unchanged tree: keep them out of the seeded runs
    import shutil, tempfile
    evdir = os.path.join(ROOT, "evidence")
    backup = tempfile.mkdtemp(prefix="evidence_backup_", dir=os.path.join(ROOT, "work"))
    shutil.copytree(evdir, os.path.join(backup, "evidence"))
    try:
        _run(ids, a, sd, allchecks, results)
    finally:
        shutil.rmtree(evdir)
        shutil.copytree(os.path.join(backup, "evidence"), evdir)
        shutil.rmtree(backup)
    json.dump(results, open(resfile, "w"), indent=1, sort_keys=True)
    return 0


def _run(ids, a, sd, allchecks, results):
    for i in ids:
        meta = json.load(open(os.path.join(sd, i, "meta.json")))
        patch = os.path.join(sd, i, "patch.diff")
        checks = a.checks.split(",") if a.checks else ([meta["property"]] + [c for c in meta.get("also_run", []) if c in allchecks])
        r = sh(["git", "-C", REPO, "apply", patch])
        if r.returncode != 0:
            print(f"{i}: patch does not apply: {r.stderr[:300]}")
            results[i] = {"error": "patch does not apply"}
            continue
        try:
            row = {}
            for c in checks:
                if c not in allchecks:
                    continue
                p = sh([sys.executable, os.path.join(ROOT, "tools", "check.py"), c, "--tier", a.tier], cwd=ROOT)
                os.makedirs(os.path.join(ROOT, "work", "seeded_logs"), exist_ok=True)
                open(os.path.join(ROOT, "work", "seeded_logs", f"{i}_{c}.log"), "w").write(p.stdout + p.stderr)
                vio = [l for l in p.stdout.split("\n") if l.startswith("VIOLATION")]
                first = [l for l in p.stdout.split("\n") if l.strip().startswith("violation:")][:1]
                row[c] = {"caught": p.returncode != 0, "concrete": bool(vio) and "no-failing-input-found" not in vio[0], "first": (first[0].strip()[:300] if first else "")}
                print(f"{i} {c}: {'CAUGHT' if p.returncode else 'missed'} {'(concrete)' if row[c]['concrete'] else ''} {row[c]['first'][:120]}")
            results.setdefault(i, {}).update(row)
        finally:
            sh(["git", "-C", REPO, "checkout", "--", "."])
            sh([sys.executable, os.path.join(ROOT, "tools", "translate.py")])   # regenerate the tables from the restored tree


if __name__ == "__main__":
    sys.exit(main())
