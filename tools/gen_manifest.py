#!/usr/bin/env python3
"""writes MANIFEST.json from the table below (kept in one place so it stays valid)."""
import json, os
ROOT = os.path.abspath(os.path.join(os.path.dirname(__file__), ".."))
BASE_OFF = "cd /repo && cargo nextest run --workspace --no-fail-fast --test-threads 8 --offline || cargo test --workspace --no-fail-fast --offline"

CHECKS = {
 "C10": dict(
  text="Lean 4 theorems (Props/C10.lean) about a hand model of toml_write's string/key writer and toml_edit's string/key parsers: for every byte string, every offered style parses back to exactly the string (induction, no length bound); metrics theorems; default style total. Tables (byte classes, escape arms, thresholds) are regenerated from /repo and re-proved equal to the ABNF spec each run; the hand-written control flow is tied by a differential run (exhaustive short strings over the 14 byte classes x 12 styles + byte sweep + long quote runs) of the compiled model against the real crates, plus the direct oracle parse(write(s)) = s on the implementation.",
  note="Trusted: Lean kernel (axioms propext/Classical.choice/Quot.sound only), translate.py, the differential correspondence (sampling), std::fmt/str. Modelled by hand: control flow of write_toml_value, ValueMetrics/KeyMetrics::calculate, basic_string, ml_basic_body, literal_string, ml_literal_body, simple_key.",
  technique="Lean 4 proof (round-trip by induction) + table re-proof + differential correspondence", design="7/C10"),
 "C12": dict(
  text="Lean 4 models of both date-time parsers (toml_edit parser/datetime.rs with winnow backtrack/cut semantics; toml_datetime FromStr) and of Display; theorems in Props/C12.lean (range enforcement, agreement of the two parsers on every byte string, print/parse round trip for every in-range value, truncation of the fraction); range bounds, digit counts, month-length arms, SCALE, offset range and format strings are regenerated from /repo and re-proved each run; differential run of the compiled models against both real parsers and the printer on exhaustive field-edge strings, all single-edit mutations of seed date-times over the date-time alphabet, random multi-edit mutations and in-range values, plus three direct oracles on the implementation (standalone = document parser; both = an independent regex+range reference of the grammar; parse(print(x)) = x).",
  note="Trusted: Lean kernel, translate.py, differential correspondence (sampling), std integer formatting ({:02}/{:04}/{:09}) modelled as zero padding. Non-ASCII input is modelled on bytes (both parsers reject it).",
  technique="Lean 4 proof (two-model agreement, round trip) + table re-proof + differential correspondence", design="7/C12"),
 "C11": dict(
  text="Lean 4 model of parser/numbers.rs (dec/hex/oct/bin integers with underscores and range check, float lexing, special floats, overflow rejection) and of the toml_write number writers; Spec/Ieee.lean is an exact-rational round-to-nearest-even decimal->binary64 conversion used as the meaning of a float literal. Theorems (Props/C11.lean): every integer returned is within i64 in any base, an overflowing literal of either sign is a committed failure, no parsed float is infinite, integer print/parse round trip. Ties: digit classes/prefixes/keywords, the float overflow predicate, radix arms and the f64/f32 writer arms are regenerated from /repo and re-proved each run; differential run against the real crates on i64 boundaries and random bit patterns, range-edge literals in four bases with signs/underscores/leading zeros, float overflow/underflow/halfway literals with both signs, f64 and f32 bit patterns (std's Display text is an input validated per case), every serde integer width at its edges; direct oracles: exact big-integer reference for integer literals, correctly rounded reference for float literals, print/parse bit-for-bit.",
  note="Trusted: Lean kernel, translate.py, sampling correspondence, Rust std Display for integers and floats (validated per case against Spec.Ieee), str::parse::<f64> assumed correctly rounded (cross-checked on every literal), serde's primitive visitors.",
  technique="Lean 4 proof (range/overflow/round-trip) + table re-proof + differential correspondence", design="7/C11"),
 "C01": dict(
  text="Lean 4 model of the whole toml_edit document parser (trivia, keys, four string kinds, numbers, date-times, arrays, inline tables with table_from_pairs, the line driver, ParseState with implicit/dotted flags and positions) written as total functions with winnow's backtrack/cut semantics; theorems in Props/C01.lean (entry-point equivalence, BOM, and the token-level parse-after-render theorems imported from C10/C11/C12; the document-level completeness/soundness statements are staged, see DESIGN 7/C01). Ties: every byte class, delimiter, keyword, escape arm, date-time bound, LIMIT and number-parser arm is regenerated from /repo and re-proved equal to the ABNF each run; the model is run against five real entry points (ImDocument::parse, DocumentMut, toml::from_str, toml_edit::de::from_str, from_slice) on the toml-test 1.0.0 corpus with its verdicts, grammar-generated valid documents in every lexical variant, the exhaustive 256-byte x 40-slot sweep, byte mutations, truncations at every byte, limit literals and arbitrary bytes; a verdict difference between implementation and model, or between entry points, or against the corpus/generator expectation is reported with the text.",
  note="Trusted: Lean kernel, translate.py, sampling correspondence; winnow combinators and std UTF-8 validation are modelled. The model is the oracle for mutated texts (its agreement with the unchanged implementation is what the correspondence establishes); theorems so far cover the lexical layer, not yet the full document grammar.",
  technique="Lean 4 model + token-level proofs + table re-proof + differential correspondence (5 entry points)", design="7/C01"),
 "C02": dict(
  text="Same model and run as C01, judged on data: the decoded tree (keys, nesting, order, table flags and positions, every scalar's exact value, floats by bit pattern, date-times field by field) of the implementation is compared with the model's tree, with the generator's intended tree (an independent reference: the generator knows what it meant to write, floats through an exact-rational IEEE rounding), and across toml_edit / toml::Table / slice routes. Theorems: string decoding for every written spelling (from C10), integer and date-time value theorems (C11, C12), Spec.Ieee as the float meaning.",
  note="Trusted: as C01; Rust's str::parse::<f64> is cross-checked against Spec.Ieee on every generated float. Key order of implicit-then-explicit tables compared up to permutation (convention K2).",
  technique="Lean 4 model + value theorems + generator-as-reference + differential correspondence", design="7/C02"),
 "C05": dict(
  text="Lean 4 model of the recursion accounting (RecursionCheck counter threaded through value/array/inline-table, the dotted-key charge added by the F9 repair, check_depth on key paths); theorems in Props/C05.lean (guards at the limit; depth bound d + nest v < LIMIT for every accepted value by mutual induction on fuel; key paths shorter than LIMIT; single constructs below the limit accepted). LIMIT is regenerated from /repo and re-proved = 80. The model's verdict and decoded nesting depth are compared with the implementation on documents built from the five nesting constructs singly (depth 1..500) and in every pairwise multiplicative/additive combination around the limit; each accepted document is then parsed, printed, debug-printed, converted, cloned, dropped and deserialized on a 2 MiB thread in a debug and a release build (the part no model can exhibit): a dead worker is a violation with the document as replay.",
  note="Trusted: Lean kernel, translate.py, sampling correspondence. Real stack use per frame is observed, not proved. Depth bound checked on the implementation: 3*LIMIT.",
  technique="Lean 4 proof (depth invariant by mutual induction) + differential correspondence + 2 MiB stack experiment", design="7/C05"),
 "C09": dict(
  text="Lean 4 model of ParseState (descend_path, on_keyval, start_table, start_array_table, finalize_table) over an explicit tree with implicit/dotted flags; theorems in Props/C09.lean proved for every statement history: a key/value is inserted only into a vacant slot, every value defined earlier stays defined and unchanged (whole-run monotonicity T09_run over indexed paths), duplicates / extending a value / reopening explicit, dotted or array tables / dotted keys reaching into arrays of tables are rejected. Correspondence and search: every sequence of up to 3 statements (thorough: 4) from {[p], [[p]], p = 1, p = {q = 1}, p = {q.r = 1}, p = []} over 9 paths on a 2-letter alphabet with random bare/basic/literal spellings, enumerated exhaustively, plus random longer sequences on 3 letters: three-way comparison implementation vs model vs an independent formulation of the definition rules (tools/defrules.py: flat path->kind map written from the prose); class U1 is skipped and counted.",
  note="Trusted: Lean kernel, sampling correspondence beyond the enumerated scope, tools/defrules.py as the reading of the specification's prose (DESIGN.md section 3.3), indexmap modelled as an association list.",
  technique="Lean 4 proof (invariant over statement histories) + exhaustive small-scope three-way comparison", design="7/C09"),
 "C15": dict(
  text="Lean 4 model of winnow's char_boundary (ParseError::char_span), of translate_position and of the index arithmetic in Display for TomlError; theorems in Props/C15.lean (span within bounds and on character boundaries for every offset; line/column = newlines before / characters since the last newline for every valid UTF-8 text and boundary index, with the end-of-input convention; rendering cannot fail). The model is compared with the implementation on every rejected text (span from its start, rendered line/column); direct oracles on the implementation: span within bounds and on boundaries, non-empty message, line/column against an independent character count, toml::de::Error = toml_edit::TomlError; typed decodes of valid generated documents against mismatching target kinds through three deserializer routes must fail with the offending value's span (with source) or the key path (without).",
  note="Trusted: Lean kernel, sampling correspondence; which offset winnow reports is not modelled (only that the span derived from it is well-formed). Known finding F13 (empty message where no parser context applies; pinned by an existing snapshot) is listed in known_findings.json by call site.",
  technique="Lean 4 proof (position arithmetic) + differential correspondence + direct oracles", design="7/C15"),
 "C04": dict(
  text="The Lean models of every entry point (document, value, key, key path, slice, standalone date-time, error rendering) are total functions with no panic outcome; theorems in Props/C04.lean discharge the code's guards (every byte class fed to from_utf8_unchecked is ASCII-only hence valid UTF-8; the remaining sites are tied to theorems of C05/C09/C12/C14/C15 in Model/PanicSites.lean). Tie: the inventory of every expect/unwrap/unreachable!/panic!/assert! in the 17 anchored files is regenerated from /repo and must equal the inventory the models account for (a new or moved panic site breaks the table theorem). Correspondence: per-entry-point verdicts of model and implementation on corpus files, mutations, single tokens, arbitrary and non-UTF-8 bytes, partial characters, unterminated and extreme constructs of several KiB; the implementation runs every entry point and every follow-up operation (print, debug, clone, into_mut, from_document, serialize, error rendering) under catch_unwind in a build with debug assertions and overflow checks, with a per-input time bound.",
  note="Trusted: Lean kernel, translate.py (regex inventory), sampling correspondence. Termination is by construction of the model (fuel); that the fuel bound is never the cause of a rejection is validated by the correspondence, the linear time budget is measured. Clone/Drop/Debug derives are not modelled (their recursion depth is C05).",
  technique="Lean 4 total model + guard proofs + panic-site inventory re-proof + differential correspondence under catch_unwind", design="7/C04"),
 "C18": dict(
  text="The Lean model has exactly two configuration parameters (map order of toml::Table: sorted | insertion; recursion limit: LIMIT | none); theorems in Props/C18.lean state what may depend on them (sorting is independent of insertion order on distinct keys; the sorted plain form is invariant under permutation of table entries) and the parser model takes no other configuration. The tie is the correspondence repeated per configuration: a dedicated crate (harness18) whose Cargo features map to the crates' features is BUILT under each cell of {perf} x {preserve_order} x {parse+display, parse-only, display-only} plus unbounded and serde (quick: 4 cells; thorough: 15 cells + the Cargo-only cells), which also shows that every configuration builds; a fixed seed-independent battery (500 generated documents, the toml-test files, depth documents, 300 API-built documents) is run in each cell and compared with the model instance for that cell (verdict, decoded tree, toml::Table data, iteration order sorted vs insertion) and, for printed text, with the default cell.",
  note="The configuration quantifier is finite and enumerated; the input quantifier is carried by the configuration-independent model plus the per-configuration correspondence on the battery. Whether each cell compiles is established by building it.",
  technique="Lean 4 proof (order invariance) + per-configuration differential correspondence over the enumerated feature matrix", design="7/C18"),
 "C03": dict(
  text="Lean 4 model of the format-preserving side of the parser (Model/Cst.lean: every span and decor slot the real parser records — key leaf/dotted decor, value decor, array element decor / trailing comma / trailing trivia, inline-table preamble, header decor, document trailing, table spans, positions) threaded through the same state machine as the semantic model, and of into_mut + Display for DocumentMut (Model/Encode.lean: visit_nested_tables, stable sort by position, visit_table, get_values flattening, encode_key_path, RawString::encode dropping CRs of decor only). Theorems (Props/C03.lean): CR-stripping laws, value-level tiling (printing a parsed value with its decor reproduces the consumed text) for scalars and arrays at any nesting; the full-strength value statement is refuted on the F15 witness. Correspondence: printed text of the model = DocumentMut::to_string() on generated documents in every layout, the valid corpus and hand-written layouts (plus `cstsem`: the decorated parser erases to the semantic parser's tree). Direct oracle on the implementation: print == normalize(input) (BOM dropped, CRLF->LF outside multi-line string bodies, final newline added) whenever dotted keys are adjacent and no table name is re-spelled; always: printed text valid, same data, fixed point of parse-then-print, every comment kept.",
  note="Known finding F15 (table-naming keys print with their first spelling) is listed by class; the generator classifies such documents. Inline-table and document-level tiling theorems are staged (kept as Prop definitions).",
  technique="Lean 4 model + tiling proofs (partial) + differential correspondence + normalisation oracle", design="7/C03"),
 "C14": dict(
  text="Same span-recording model as C03; theorems (Props/C14.lean): span bounds for parsed values (scalars/arrays), consumed-text characterisation; Props/C15 supplies character-boundary facts. Correspondence: every key / value / table / array-of-tables span of the model equals the implementation's on generated multi-byte documents, the corpus and hand-written layouts. Direct oracles on the implementation: bounds, character boundaries, child inside parent, the spanned slice re-parses to the same key / value, Spanned<T> through serde (a recursive Spanned tree) gives the same value and the same ranges, no span survives into_mut().",
  note="Document-level bounds theorem staged (Prop definition kept). Table spans of out-of-order sub-tables are compared as the code defines them (header..last value).",
  technique="Lean 4 model + bounds proofs (partial) + differential correspondence + re-parse oracle", design="7/C14"),
 "C20": dict(
  text="Lean 4 model of the default Visit / VisitMut walks (Model/Visit.lean, function by function) and an independent pre-order specification (Spec/Preorder.lean). Theorems (Props/C20.lean), all by structural induction over every tree: the hook trace is exactly `doc :: preorder.flatMap hooks` (each node once, in tree order), the mutable walk produces the same trace and leaves the tree unchanged under the identity rewrite, rewriting integers changes exactly the integers (skeleton preserved, count preserved) and that determines the result uniquely; lifted to every document the parser model accepts. Correspondence: tracing visitors overriding all 14 hooks (read-only and mutable) and an integer-rewriting VisitMut on generated documents, the corpus and mutations; direct oracles: ro trace = mut trace, trace vs the generator's intended tree, after = before with every integer incremented, trace = pre-order of the printed tree.",
  note="Order is the tree's iteration order; for an implicit table later defined by its own header this differs from text order (convention K2). DocumentFormatter / Pretty are users of VisitMut and belong to C07.",
  technique="Lean 4 proof (structural induction, trace = preorder) + differential correspondence", design="7/C20"),
}

NA = {}

def main():
    checks = []
    for pid in sorted(CHECKS):
        c = CHECKS[pid]
        checks.append({
            "property_id": pid,
            "quick_cmd": f"python3 tools/check.py {pid} --tier quick",
            "thorough_cmd": f"python3 tools/check.py {pid} --tier thorough",
            "evidence_file": f"evidence/{pid}.json",
            "replay_cmd_template": f"python3 tools/check.py {pid} --replay {{path}}",
            "engine": "lean-model+harness",
            "level_claimed": {"category": "proof", "text": c["text"], "design_ref": "DESIGN.md section " + c["design"]},
            "level_note": c["note"],
            "technique": c["technique"],
        })
    allp = [json.loads(l)["id"] for l in open(os.path.join(ROOT, "properties.jsonl"))]
    na = [{"property_id": p, "reason": NA.get(p, "not yet claimed: model and theorems under construction (see DESIGN.md section 10); will be claimed when its check exists")}
          for p in allp if p not in CHECKS]
    m = {
        "version": 1,
        "setup_cmd": "python3 tools/setup.py",
        "hooks": {"guard": "toml_verif", "enable": "RUSTFLAGS='--cfg toml_verif' (reserved; no hook is compiled in at present: every observation goes through public API)",
                  "baseline_off_cmd": BASE_OFF, "source_commits": [], "add_only": True},
        "engines": [
            {"name": "lean-model", "path": "lean", "serves_properties": sorted(CHECKS), "kind_free_text": "Lean 4 lake project: Spec, Model, Props (theorems), Gen (regenerated tables + table theorems), compiled driver"},
            {"name": "harness", "path": "harness", "serves_properties": sorted(CHECKS), "kind_free_text": "Rust crate tvh with path deps on /repo/crates, line protocol"},
            {"name": "translator", "path": "tools/translate.py", "serves_properties": sorted(CHECKS), "kind_free_text": "regenerates lean/TomlVerif/Gen/Tables.lean from /repo sources"},
        ],
        "checks": checks,
        "not_applicable": na,
        "notes": "Known findings and fixed defects: known_findings.json. Seeded changes used to validate the checks: seeded/.",
    }
    with open(os.path.join(ROOT, "MANIFEST.json"), "w") as f:
        json.dump(m, f, indent=1)
        f.write("\n")

if __name__ == "__main__":
    main()
