#!/usr/bin/env python3
"""check.py <Cxx> [--tier quick|thorough] [--replay file] — the one entry point of every check."""
import sys, os, argparse, importlib, json
sys.path.insert(0, os.path.dirname(os.path.abspath(__file__)))
import vlib


def main():
    ap = argparse.ArgumentParser()
    ap.add_argument("prop")
    ap.add_argument("--tier", default=os.environ.get("VERIF_TIER", "quick"))
    ap.add_argument("--replay", default=None)
    a = ap.parse_args()
    seed = int(os.environ.get("VERIF_SEED", "1") or 1)
    tier = a.tier if a.tier in ("quick", "thorough") else "quick"
    mod = importlib.import_module("props." + a.prop.lower())
    ctx = vlib.Ctx(a.prop.upper(), tier, seed)
    if a.replay:
        with open(a.replay) as f:
            ctx.replay = json.load(f)
    else:
        ctx.replay = None
    mod.run(ctx)
    sys.exit(ctx.finish())


if __name__ == "__main__":
    main()
