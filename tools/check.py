#!/usr/bin/env python3
"""check.py <Cxx> [--tier quick|thorough] [--replay file] — the one entry point of every check."""
import sys, os, argparse, importlib, json
sys.path.insert(0, os.path.dirname(os.path.abspath(__file__)))
import vlib


def replay(path):
    """re-run the recorded case(s) of a replay file through the implementation and the model"""
    with open(path) as f:
        rp = json.load(f)
    head = rp.get("headline", {}).get("replay", {})
    if "unchecked" in head and "case" not in head:
        print(f"replay: no concrete input was found; the obligation that no longer checks is: {head['unchecked']}")
        print(head.get("detail", "")[:2000])
        return 1
    mode, case = head.get("mode"), head.get("case")
    if not mode or case is None:
        print("replay: this replay file carries no line-protocol case; content:")
        print(json.dumps(head, indent=1)[:3000])
        return 1
    ctx = vlib.Ctx(rp["property"], "quick", rp.get("seed", 1))
    vlib.lake_build(ctx, ["driver"], {})
    tvh = vlib.cargo_build(ctx, release=(head.get("build") == "release"))
    impl, model = vlib.run_pair(ctx, tvh, mode, [case])
    print(f"property: {rp['property']}  mode: {mode}")
    print(f"case:  {case[:2000]}")
    if "text" in head:
        print(f"text:  {head['text'][:2000]!r}")
    print(f"recorded: {rp['headline']['what'][:1000]}")
    print(f"impl:  {impl[0][:3000]}")
    print(f"model: {model[0][:3000]}")
    same = impl[0] == model[0] or impl[0].split(' us=')[0] == model[0]
    print("implementation and model " + ("agree on this case now" if same else "DISAGREE on this case"))
    return 0 if same and not impl[0].startswith(("PANIC", "CRASH")) else 1


def main():
    ap = argparse.ArgumentParser()
    ap.add_argument("prop")
    ap.add_argument("--tier", default=os.environ.get("VERIF_TIER", "quick"))
    ap.add_argument("--replay", default=None)
    a = ap.parse_args()
    seed = int(os.environ.get("VERIF_SEED", "1") or 1)
    tier = a.tier if a.tier in ("quick", "thorough") else "quick"
    mod = importlib.import_module("props." + a.prop.lower())
    ctx = vlib.Ctx(a.prop.upper(), tier, seed)
    if a.replay:
        sys.exit(replay(a.replay))
    ctx.replay = None
    mod.run(ctx)
    sys.exit(ctx.finish())


if __name__ == "__main__":
    main()
