#!/usr/bin/env python3
"""setup: build the Lean project (all theorems + driver) and the harness from files on disk, offline."""
import os, sys, subprocess
sys.path.insert(0, os.path.dirname(os.path.abspath(__file__)))
import vlib
rc = subprocess.call([sys.executable, os.path.join(vlib.ROOT, "tools", "translate.py")])
if rc != 0:
    print("setup: translate.py failed (continuing; checks will report it)")
rc1 = subprocess.call(["lake", "build"], cwd=vlib.LEAN)
import shutil
shutil.copyfile(os.path.join(vlib.REPO, "Cargo.lock"), os.path.join(vlib.HARNESS, "Cargo.lock"))
rc2 = subprocess.call(["cargo", "build", "--offline"], cwd=vlib.HARNESS, env=vlib.ENV)
sys.exit(1 if (rc1 or rc2) else 0)
