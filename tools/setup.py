#!/usr/bin/env python3
"""setup: build the Lean project (all theorems + driver) and every harness binary from files on disk, offline."""
import os, sys, subprocess, shutil
sys.path.insert(0, os.path.dirname(os.path.abspath(__file__)))
import vlib
rc = subprocess.call([sys.executable, os.path.join(vlib.ROOT, "tools", "translate.py")])
if rc != 0:
    print("setup: translate.py failed (continuing; checks will report it)")
rc1 = subprocess.call(["lake", "build"], cwd=vlib.LEAN)
shutil.copyfile(os.path.join(vlib.REPO, "Cargo.lock"), os.path.join(vlib.HARNESS, "Cargo.lock"))
henv = dict(vlib.ENV, CARGO_TARGET_DIR=os.path.join(vlib.BUILD, "cargo"))
rc2 = subprocess.call(["cargo", "build", "--offline"], cwd=vlib.HARNESS, env=henv)
rc3 = subprocess.call(["cargo", "build", "--offline", "--release"], cwd=vlib.HARNESS, env=henv)
rc4 = subprocess.call(["cargo", "build", "--offline", "--features", "preserve_order"], cwd=vlib.HARNESS,
                      env=dict(vlib.ENV, CARGO_TARGET_DIR=os.path.join(vlib.BUILD, "cargo_po")))
# C18 feature cells of the quick tier
h18 = os.path.join(vlib.ROOT, "harness18")
rc5 = 0
if os.path.isdir(h18):
    shutil.copyfile(os.path.join(vlib.REPO, "Cargo.lock"), os.path.join(h18, "Cargo.lock"))
    for feats in ["parse,display", "parse,display,perf,preserve_order", "parse", "display"]:
        env = dict(vlib.ENV, CARGO_TARGET_DIR=os.path.join(vlib.BUILD, "c18", feats.replace(",", "_")))
        rc5 |= subprocess.call(["cargo", "build", "--offline", "--features", feats], cwd=h18, env=env)
sys.exit(1 if (rc1 or rc2 or rc3 or rc5) else 0)
