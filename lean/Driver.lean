import TomlVerif.Driver.C10
import TomlVerif.Driver.C12
import TomlVerif.Driver.C11
import TomlVerif.Driver.Canon
import TomlVerif.Driver.Stack
import TomlVerif.Driver.C15
import TomlVerif.Driver.C04
import TomlVerif.Driver.C18
import TomlVerif.Driver.C20
import TomlVerif.Driver.C03
import TomlVerif.Driver.C16
import TomlVerif.Driver.C19
import TomlVerif.Driver.C06
import TomlVerif.Driver.C13
import TomlVerif.Driver.C08
import TomlVerif.Driver.C07
import TomlVerif.Driver.C07Typed
import TomlVerif.Driver.C15Loc
import TomlVerif.Driver.C14Sp

open TomlVerif

def dispatch (mode : String) (line : String) : String :=
  match mode with
  | "c10" => Driver.c10 line
  | "c12" => Driver.c12 line
  | "c11" => Driver.c11 line
  | "doc" => Driver.docLine line
  | "val" => Driver.valLine line
  | "stack" => Driver.stackLine line
  | "c15" => Driver.c15 line
  | "c15d" => Driver.C15Loc.c15d line
  | "c14s" => Driver.C14Sp.c14s line
  | "c04" => Driver.c04 line
  | "c18" => Driver.c18 line
  | "c20" => Driver.c20 line
  | "c03" => Driver.c03 line
  | "c16" => Driver.c16 line
  | "c19" => Driver.c19 line
  | "c06" => Driver.c06 line
  | "c13" => Driver.c13 line
  | "c13p" => Driver.c13P line
  | "c08" => Driver.c08 line
  | "c07" => if line.startsWith "rtt" then Driver.c07typed line else Driver.c07 line
  | "c17" => Driver.c17 line
  | "c06s" => Driver.c06s line
  | "c14" => Driver.c14 line
  | "cstsem" => Driver.cstSem line
  | _ => "bad-mode"

partial def loop (mode : String) (h : IO.FS.Stream) (out : IO.FS.Stream) : IO Unit := do
  let line ← h.getLine
  if line.isEmpty then return ()
  let l := line.trimAscii.toString
  if l.isEmpty then loop mode h out else
  out.putStrLn (dispatch mode l)
  loop mode h out

def main (args : List String) : IO Unit := do
  let mode := args.headD ""
  let out ← IO.getStdout
  loop mode (← IO.getStdin) out
  out.flush
