import TomlVerif.Model.Encode06
/-! The tree a faithful print + parse of a built structure must give back (the right-hand sides of
    the C06 statements), and Boolean equality of decoded trees to evaluate instances. -/
namespace TomlVerif.Spec.Encode06
open TomlVerif TomlVerif.Spec TomlVerif.Model TomlVerif.Model.Encode06

/-- what TOML can say about a double: every NaN is `nan` or `-nan` -/
def canonFloat (bits : Nat) : Nat :=
  if bits / 2 ^ 52 % 2 ^ 11 == 2047 && bits % 2 ^ 52 != 0
  then (if bits / 2 ^ 63 == 1 then Ieee.signBit else 0) + Ieee.nanBits else bits

mutual
/-- the decoded value a faithful round trip gives back: `valOf` with NaNs reduced to their sign -/
def canonValD : DVal → Val
  | .float b _ _ => .float (canonFloat b)
  | .arr items _ => .arr (canonValsD items)
  | .inl items _ => .inl (canonPairsD items) false false
  | v => valOf v
def canonValsD : List DVal → List Val
  | [] => []
  | v :: r => canonValD v :: canonValsD r
def canonPairsD : List (Bytes × DVal) → List (Bytes × Val)
  | [] => []
  | (k, v) :: r => (k, canonValD v) :: canonPairsD r
end

def isValueItem : DItem → Bool | .value _ => true | _ => false

mutual
/-- what a faithful print + parse gives back, flags and positions erased: the values of a table in
    build order, then its sub-tables and arrays of tables in build order (TOML puts a table's
    key/value lines before the headers of its sub-tables), NaNs reduced to their sign -/
def expectI : DItem → Item
  | .value v => .value (canonValD v)
  | .table t => .table (expectT t)
  | .aot ts => .aot (expectTs ts)
def expectT : DTbl → Tbl
  | .mk items _ _ => .mk (expectValues items ++ expectTables items) false false none
def expectTs : List DTbl → List Tbl
  | [] => []
  | t :: r => expectT t :: expectTs r
def expectValues : List (Bytes × DItem) → List (Bytes × Item)
  | [] => []
  | (k, .value v) :: r => (k, .value (canonValD v)) :: expectValues r
  | _ :: r => expectValues r
def expectTables : List (Bytes × DItem) → List (Bytes × Item)
  | [] => []
  | (_, .value _) :: r => expectTables r
  | (k, i) :: r => (k, expectI i) :: expectTables r
end

mutual
/-- forget `implicit`, `dotted`, `doc_position` -/
def eraseVal : Val → Val
  | .arr items => .arr (eraseVals items)
  | .inl items _ _ => .inl (erasePairs items) false false
  | v => v
def eraseVals : List Val → List Val
  | [] => []
  | v :: r => eraseVal v :: eraseVals r
def erasePairs : List (Bytes × Val) → List (Bytes × Val)
  | [] => []
  | (k, v) :: r => (k, eraseVal v) :: erasePairs r
end
mutual
def eraseItem : Item → Item
  | .value v => .value (eraseVal v)
  | .table t => .table (eraseTbl t)
  | .aot ts => .aot (eraseTbls ts)
def eraseTbl : Tbl → Tbl
  | .mk items _ _ _ => .mk (eraseItems items) false false none
def eraseTbls : List Tbl → List Tbl
  | [] => []
  | t :: r => eraseTbl t :: eraseTbls r
def eraseItems : List (Bytes × Item) → List (Bytes × Item)
  | [] => []
  | (k, i) :: r => (k, eraseItem i) :: eraseItems r
end

mutual
/-- Boolean equality of decoded trees (the tree types are nested inductives without `DecidableEq`);
    used only to evaluate instances of the statements below -/
def beqVal : Val → Val → Bool
  | .str a, .str b => a == b
  | .int a, .int b => a == b
  | .float a, .float b => a == b
  | .bool a, .bool b => a == b
  | .dt a, .dt b => decide (a = b)
  | .arr a, .arr b => beqVals a b
  | .inl a i d, .inl b i' d' => beqPairs a b && i == i' && d == d'
  | _, _ => false
def beqVals : List Val → List Val → Bool
  | [], [] => true
  | a :: r, b :: s => beqVal a b && beqVals r s
  | _, _ => false
def beqPairs : List (Bytes × Val) → List (Bytes × Val) → Bool
  | [], [] => true
  | (k, a) :: r, (k', b) :: s => k == k' && beqVal a b && beqPairs r s
  | _, _ => false
end
mutual
def beqItem : Item → Item → Bool
  | .value a, .value b => beqVal a b
  | .table a, .table b => beqTbl a b
  | .aot a, .aot b => beqTbls a b
  | _, _ => false
def beqTbl : Tbl → Tbl → Bool
  | .mk a i d p, .mk b i' d' p' => beqItems a b && i == i' && d == d' && p == p'
def beqTbls : List Tbl → List Tbl → Bool
  | [], [] => true
  | a :: r, b :: s => beqTbl a b && beqTbls r s
  | _, _ => false
def beqItems : List (Bytes × Item) → List (Bytes × Item) → Bool
  | [], [] => true
  | (k, a) :: r, (k', b) :: s => k == k' && beqItem a b && beqItems r s
  | _, _ => false
end
def beqOptVal : Option Val → Option Val → Bool
  | some a, some b => beqVal a b
  | _, _ => false
def beqOptTbl : Option Tbl → Option Tbl → Bool
  | some a, some b => beqTbl a b
  | _, _ => false

end TomlVerif.Spec.Encode06
