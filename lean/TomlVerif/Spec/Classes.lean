import TomlVerif.Basic
/-! Byte classes of toml.abnf (TOML 1.0.0), written from the ABNF, not from the code.
    `non-ascii` is a statement about scalar values; on well-formed UTF-8 it is "any byte ≥ 0x80". -/
namespace TomlVerif.Spec

def inR (lo hi b : Byte) : Bool := lo ≤ b && b ≤ hi

/-- wschar = %x20 / %x09 -/
def isWschar (b : Byte) : Bool := b == 0x20 || b == 0x09
/-- non-ascii bytes -/
def isNonAscii (b : Byte) : Bool := 0x80 ≤ b
/-- non-eol = %x09 / %x20-7E / non-ascii  (TOML 1.0.0: DEL excluded) -/
def isNonEol (b : Byte) : Bool := b == 0x09 || inR 0x20 0x7E b || isNonAscii b
/-- basic-unescaped = wschar / %x21 / %x23-5B / %x5D-7E / non-ascii -/
def isBasicUnescaped (b : Byte) : Bool :=
  isWschar b || b == 0x21 || inR 0x23 0x5B b || inR 0x5D 0x7E b || isNonAscii b
/-- mlb-unescaped = wschar / %x21 / %x23-5B / %x5D-7E / non-ascii -/
def isMlbUnescaped (b : Byte) : Bool := isBasicUnescaped b
/-- literal-char = %x09 / %x20-26 / %x28-7E / non-ascii -/
def isLiteralChar (b : Byte) : Bool := b == 0x09 || inR 0x20 0x26 b || inR 0x28 0x7E b || isNonAscii b
/-- mll-char = %x09 / %x20-26 / %x28-7E / non-ascii -/
def isMllChar (b : Byte) : Bool := isLiteralChar b
/-- unquoted-key char = ALPHA / DIGIT / %x2D / %x5F -/
def isUnquotedChar (b : Byte) : Bool :=
  inR 0x41 0x5A b || inR 0x61 0x7A b || inR 0x30 0x39 b || b == 0x2D || b == 0x5F
def isDigit (b : Byte) : Bool := inR 0x30 0x39 b
def isDigit1_9 (b : Byte) : Bool := inR 0x31 0x39 b
def isDigit0_7 (b : Byte) : Bool := inR 0x30 0x37 b
def isDigit0_1 (b : Byte) : Bool := inR 0x30 0x31 b
/-- HEXDIG = DIGIT / "A"-"F" (case-insensitive in ABNF) -/
def isHexdig (b : Byte) : Bool := isDigit b || inR 0x41 0x46 b || inR 0x61 0x66 b

def QUOTE : Byte := 0x22
def APOS : Byte := 0x27
def BSLASH : Byte := 0x5C
def LF : Byte := 0x0A
def CR : Byte := 0x0D
def HASH : Byte := 0x23

end TomlVerif.Spec
