import TomlVerif.Spec.AstValue
import TomlVerif.Lemmas.Value01
import TomlVerif.Lemmas.State09
/-! Abstract syntax of TOML documents (toml.abnf `toml = expression *( newline expression )`,
    `expression = ws [comment] / ws keyval ws [comment] / ws table ws [comment]`): one constructor per
    line kind.  Keys are *abstract*: a key segment is any token that `simple_key` reads back exactly
    whenever no bare-key character follows (instances: bare keys, every key the writer produces).
    `render` writes a document as bytes, `stmts` is the statement sequence it denotes
    (`Lemmas/State09.lean`: `Stmt`, `step`, `run`). -/
namespace TomlVerif.Spec.AstDoc
open TomlVerif TomlVerif.Spec TomlVerif.Model TomlVerif.Model.Value TomlVerif.Spec.AstValue
open TomlVerif.Lemmas.Value01 (commentBytes)
open TomlVerif.Lemmas.State09 (Stmt)

/-- what may follow a key token: nothing, or a byte that is not a bare-key character -/
def KeyFollow (rest : Bytes) : Prop := ∀ x r, rest = x :: r → isUnquotedChar x = false

/-- a simple key with the blanks around it: `tok` is the key as written, `name` the decoded key -/
structure KeySeg where
  pre : Bytes
  tok : Bytes
  name : Bytes
  post : Bytes

def KeySeg.render (k : KeySeg) : Bytes := k.pre ++ (k.tok ++ k.post)

/-- the blanks are blanks and `simple_key` reads the token back as `name`, consuming exactly the token -/
def KeySegOK (k : KeySeg) : Prop :=
  AllWs k.pre ∧ AllWs k.post ∧ ∀ rest, KeyFollow rest → Key.simpleKey (k.tok ++ rest) = .ok k.name rest

/-- a dotted key `k0 . k1 . … . kn` (`more = []`: a plain key) -/
structure KeyPath where
  first : KeySeg
  more : List KeySeg

/-- `. ws key ws` repeated -/
def renderSep : List KeySeg → Bytes
  | [] => []
  | k :: r => 0x2E :: (k.render ++ renderSep r)

def KeyPath.render (p : KeyPath) : Bytes := p.first.render ++ renderSep p.more
/-- the decoded components -/
def KeyPath.names (p : KeyPath) : List Bytes := p.first.name :: p.more.map KeySeg.name
/-- every component is a key segment, and there are fewer than `LIMIT` components -/
def KeyPath.OK (p : KeyPath) : Prop := KeySegOK p.first ∧ (∀ k ∈ p.more, KeySegOK k) ∧ p.more.length + 1 < LIMIT
/-- the tables a dotted key goes through: all components but the last -/
def KeyPath.path (p : KeyPath) : List Bytes := (splitKeys p.first.name (p.more.map KeySeg.name)).1
/-- the key that is assigned: the last component -/
def KeyPath.last (p : KeyPath) : Bytes := (splitKeys p.first.name (p.more.map KeySeg.name)).2

/-- what may follow a dotted key: nothing, or a byte that is neither a bare-key character nor a blank
    nor a dot (in a document: `=` or `]`) -/
def PathFollow (rest : Bytes) : Prop :=
  ∀ x r, rest = x :: r → isUnquotedChar x = false ∧ isWschar x = false ∧ x ≠ 0x2E

/-- one line of a document, without its line end -/
inductive Line where
  /-- `ws` -/
  | blank (ws : Bytes)
  /-- `ws # body` -/
  | comment (ws body : Bytes)
  /-- `path = w1 v w2 [# cm]` (the blanks before the key are the `pre` of the first segment) -/
  | keyval (path : KeyPath) (w1 : Bytes) (v : AVal) (w2 : Bytes) (cm : Option Bytes)
  /-- `ws [ path ] w2 [# cm]` -/
  | std (ws : Bytes) (path : KeyPath) (w2 : Bytes) (cm : Option Bytes)
  /-- `ws [[ path ]] w2 [# cm]` -/
  | aot (ws : Bytes) (path : KeyPath) (w2 : Bytes) (cm : Option Bytes)

def Line.render : Line → Bytes
  | .blank ws => ws
  | .comment ws body => ws ++ 0x23 :: body
  | .keyval p w1 v w2 cm => p.render ++ 0x3D :: (w1 ++ (AstValue.render v ++ (w2 ++ commentBytes cm)))
  | .std ws p w2 cm => ws ++ 0x5B :: (p.render ++ 0x5D :: (w2 ++ commentBytes cm))
  | .aot ws p w2 cm => ws ++ 0x5B :: 0x5B :: (p.render ++ 0x5D :: 0x5D :: (w2 ++ commentBytes cm))

def CommentOK (cm : Option Bytes) : Prop := ∀ body, cm = some body → ∀ b ∈ body, isNonEol b = true

/-- well-formed line: blanks are blanks, comment text is `non-eol`, keys are key segments, the value is
    well formed, and the tables of the dotted key plus the nesting of the value stay below the limit -/
def Line.WF : Line → Prop
  | .blank ws => AllWs ws
  | .comment ws body => AllWs ws ∧ ∀ b ∈ body, isNonEol b = true
  | .keyval p w1 v w2 cm => p.OK ∧ AllWs w1 ∧ AstValue.WF v ∧ p.more.length + depth v < LIMIT ∧ AllWs w2 ∧ CommentOK cm
  | .std ws p w2 cm => AllWs ws ∧ p.OK ∧ AllWs w2 ∧ CommentOK cm
  | .aot ws p w2 cm => AllWs ws ∧ p.OK ∧ AllWs w2 ∧ CommentOK cm

/-- the statement a line denotes, if any -/
def Line.stmt : Line → Option Stmt
  | .blank _ => none
  | .comment _ _ => none
  | .keyval p _ v _ _ => some (.kv p.path p.last (sem v))
  | .std _ p _ _ => some (.std p.names)
  | .aot _ p _ _ => some (.arr p.names)

/-- a document: optional byte-order mark, lines each ended by LF (`false`) or CRLF (`true`), and
    optionally a last line without line end -/
structure Doc where
  bom : Bool
  lines : List (Line × Bool)
  last : Option Line

def bomBytes (b : Bool) : Bytes := if b then [0xEF, 0xBB, 0xBF] else []

def renderLines : List (Line × Bool) → Bytes
  | [] => []
  | (l, c) :: r => l.render ++ (nlBytes c ++ renderLines r)

def renderLast : Option Line → Bytes
  | none => []
  | some l => l.render

def Doc.render (d : Doc) : Bytes := bomBytes d.bom ++ (renderLines d.lines ++ renderLast d.last)

def stmtsLines : List (Line × Bool) → List Stmt
  | [] => []
  | (l, _) :: r => match l.stmt with
    | some s => s :: stmtsLines r
    | none => stmtsLines r

def stmtsLast : Option Line → List Stmt
  | none => []
  | some l => match l.stmt with
    | some s => [s]
    | none => []

/-- the statement sequence of a document -/
def Doc.stmts (d : Doc) : List Stmt := stmtsLines d.lines ++ stmtsLast d.last

def Doc.WF (d : Doc) : Prop := (∀ p ∈ d.lines, p.1.WF) ∧ ∀ l, d.last = some l → l.WF

end TomlVerif.Spec.AstDoc
