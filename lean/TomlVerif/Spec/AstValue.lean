import TomlVerif.Model.Value
/-! Abstract syntax of TOML values (toml.abnf `val`, `array`, `inline-table`, `ws-comment-newline`)
    with *abstract scalars*: a scalar is any token that `value` reads back exactly whenever a
    value may end after it.  `render` writes the syntax tree as bytes, `sem` is the value it denotes. -/
namespace TomlVerif.Spec.AstValue
open TomlVerif TomlVerif.Spec TomlVerif.Model TomlVerif.Model.Value

/-- bytes that may directly follow a value: wschar, newline, `,`, `]`, `}`, `#` -/
def isFollowByte (b : Byte) : Bool :=
  isWschar b || b == 0x0A || b == 0x0D || b == 0x2C || b == 0x5D || b == 0x7D || b == 0x23

/-- the input after a value is empty or starts with a follow byte -/
def ValFollow : Bytes → Prop
  | [] => True
  | b :: _ => isFollowByte b = true

/-- `ValFollow`, and a space is not followed by a digit (a local date followed by ` 07:32:00` reads on
    as a date-time, so this is the weakest follow condition under which date tokens are scalars) -/
def ValFollowS (rest : Bytes) : Prop :=
  ValFollow rest ∧ ∀ b r, rest = 0x20 :: b :: r → isDigit b = false

/-- bytes that start trivia (`ws-comment-newline`) -/
def isTrivia (b : Byte) : Bool := isWschar b || b == 0x0A || b == 0x0D || b == 0x23

/-- the input is empty or does not start with trivia -/
def NoTriviaHead : Bytes → Prop
  | [] => True
  | b :: _ => isTrivia b = false

structure ScalarTok where
  tok : Bytes
  v : Val

/-- a scalar token: non-empty, starts with a byte that is neither trivia nor `, ] } [ {`, and is read
    back by `value` as `v` (any fuel, any depth) whenever a value may end after it -/
def ScalarOK (t : ScalarTok) : Prop :=
  (∃ b r, t.tok = b :: r ∧ isFollowByte b = false ∧ b ≠ 0x5B ∧ b ≠ 0x7B) ∧
  ∀ fuel d rest, 0 < fuel → ValFollowS rest → value fuel d (t.tok ++ rest) = .ok t.v rest

/-- one piece of `ws-comment-newline` -/
inductive Piece where
  | ws (bs : Bytes)
  | nl (crlf : Bool)
  | comment (body : Bytes) (crlf : Bool)

abbrev Wcn := List Piece

def nlBytes (crlf : Bool) : Bytes := if crlf then [0x0D, 0x0A] else [0x0A]

def Piece.render : Piece → Bytes
  | .ws bs => bs
  | .nl c => nlBytes c
  | .comment body c => 0x23 :: (body ++ nlBytes c)

def Piece.WF : Piece → Prop
  | .ws bs => ∀ b ∈ bs, isWschar b = true
  | .nl _ => True
  | .comment body _ => ∀ b ∈ body, isNonEol b = true

def renderWcn : Wcn → Bytes
  | [] => []
  | p :: w => p.render ++ renderWcn w

def WcnWF (w : Wcn) : Prop := ∀ p ∈ w, p.WF

def AllWs (bs : Bytes) : Prop := ∀ b ∈ bs, isWschar b = true

/-- a bare key with the blanks around it -/
structure KeyTok where
  pre : Bytes
  key : Bytes
  post : Bytes

def KeyTok.render (k : KeyTok) : Bytes := k.pre ++ k.key ++ k.post
def KeyTok.WF (k : KeyTok) : Prop :=
  AllWs k.pre ∧ AllWs k.post ∧ k.key ≠ [] ∧ ∀ b ∈ k.key, isUnquotedChar b = true

/-- `. ws key ws` repeated -/
def renderKeySep : List KeyTok → Bytes
  | [] => []
  | k :: r => 0x2E :: (k.render ++ renderKeySep r)

/-- a dotted key `k0 . k1 . … . kn` of bare keys (`more = []`: a plain key) -/
structure DKey where
  first : KeyTok
  more : List KeyTok

def DKey.render (k : DKey) : Bytes := k.first.render ++ renderKeySep k.more
def DKey.keys (k : DKey) : List Bytes := k.first.key :: k.more.map KeyTok.key
/-- every component is a bare key, and there are fewer than `LIMIT` components -/
def DKey.WF (k : DKey) : Prop := k.first.WF ∧ (∀ x ∈ k.more, x.WF) ∧ k.more.length + 1 < LIMIT

/-- `k0 :: ks` split into everything but the last, and the last -/
def splitKeys : Bytes → List Bytes → List Bytes × Bytes
  | k, [] => ([], k)
  | k, k' :: ks => (k :: (splitKeys k' ks).1, (splitKeys k' ks).2)

/-- the tables a dotted key goes through -/
def DKey.path (k : DKey) : List Bytes := (splitKeys k.first.key (k.more.map KeyTok.key)).1
/-- the key that is assigned -/
def DKey.last (k : DKey) : Bytes := (splitKeys k.first.key (k.more.map KeyTok.key)).2

/-- values: scalars, arrays `[ wcn val wcn , … [,] wcn ]`, inline tables `{ ws key ws = ws val ws , … ws }`
    with (dotted) bare keys -/
inductive AVal where
  | scalar (t : ScalarTok)
  | arr (items : List (Wcn × AVal × Wcn)) (trailingComma : Bool) (tail : Wcn)
  | inl (items : List (DKey × Bytes × AVal × Bytes)) (tail : Bytes)

mutual
def render : AVal → Bytes
  | .scalar t => t.tok
  | .arr items tc tail =>
    0x5B :: (renderItems items ++ ((if tc then [0x2C] else []) ++ (renderWcn tail ++ [0x5D])))
  | .inl items tail => 0x7B :: (renderPairs items ++ (tail ++ [0x7D]))
/-- array items joined by `,` -/
def renderItems : List (Wcn × AVal × Wcn) → Bytes
  | [] => []
  | (pre, v, post) :: r => renderWcn pre ++ (render v ++ (renderWcn post ++ renderItemsSep r))
/-- array items each preceded by `,` -/
def renderItemsSep : List (Wcn × AVal × Wcn) → Bytes
  | [] => []
  | (pre, v, post) :: r => 0x2C :: (renderWcn pre ++ (render v ++ (renderWcn post ++ renderItemsSep r)))
def renderPairs : List (DKey × Bytes × AVal × Bytes) → Bytes
  | [] => []
  | (k, w1, v, w2) :: r => k.render ++ (0x3D :: (w1 ++ (render v ++ (w2 ++ renderPairsSep r))))
def renderPairsSep : List (DKey × Bytes × AVal × Bytes) → Bytes
  | [] => []
  | (k, w1, v, w2) :: r => 0x2C :: (k.render ++ (0x3D :: (w1 ++ (render v ++ (w2 ++ renderPairsSep r)))))
end

mutual
/-- the value a syntax tree denotes.  An inline table is its `path . key = value` entries assembled in
    order by `tableFromPairs` (dotted keys create nested tables; `WF` demands that this succeeds, i.e.
    that no key is defined twice) -/
def sem : AVal → Val
  | .scalar t => t.v
  | .arr items _ _ => .arr (semItems items)
  | .inl items _ => .inl ((tableFromPairs (flatPairs items) []).getD []) false false
def semItems : List (Wcn × AVal × Wcn) → List Val
  | [] => []
  | (_, v, _) :: r => sem v :: semItems r
/-- the entries `(path, key, value)` of an inline table in source order -/
def flatPairs : List (DKey × Bytes × AVal × Bytes) → List (List Bytes × Bytes × Val)
  | [] => []
  | (k, _, v, _) :: r => (k.path, k.last, sem v) :: flatPairs r
end

mutual
/-- nesting depth of the syntax tree -/
def depth : AVal → Nat
  | .scalar _ => 0
  | .arr items _ _ => 1 + depthItems items
  | .inl items _ => 1 + depthPairs items
def depthItems : List (Wcn × AVal × Wcn) → Nat
  | [] => 0
  | (_, v, _) :: r => max (depth v) (depthItems r)
/-- each component of a dotted key but the last is one more table -/
def depthPairs : List (DKey × Bytes × AVal × Bytes) → Nat
  | [] => 0
  | (k, _, v, _) :: r => max (k.more.length + depth v) (depthPairs r)
end

mutual
/-- well-formed: scalars are scalar tokens, trivia is trivia, `[,]` is excluded, the entries of an inline
    table can be assembled (by `Lemmas/InlineKeys01.lean` this holds exactly when no full key is a prefix of, or
    equal to, another) -/
def WF : AVal → Prop
  | .scalar t => ScalarOK t
  | .arr items tc tail => WFItems items ∧ WcnWF tail ∧ (items = [] → tc = false)
  | .inl items tail => WFPairs items ∧ AllWs tail ∧ (tableFromPairs (flatPairs items) []).isSome = true
def WFItems : List (Wcn × AVal × Wcn) → Prop
  | [] => True
  | (pre, v, post) :: r => WcnWF pre ∧ WF v ∧ WcnWF post ∧ WFItems r
def WFPairs : List (DKey × Bytes × AVal × Bytes) → Prop
  | [] => True
  | (k, w1, v, w2) :: r => k.WF ∧ AllWs w1 ∧ WF v ∧ AllWs w2 ∧ WFPairs r
end

theorem semItems_eq_map (l : List (Wcn × AVal × Wcn)) : semItems l = l.map fun i => sem i.2.1 := by
  induction l with
  | nil => rfl
  | cons i l ih => obtain ⟨a, v, b⟩ := i; simp [semItems, ih]

theorem flatPairs_eq_map (l : List (DKey × Bytes × AVal × Bytes)) :
    flatPairs l = l.map fun i => (i.1.path, i.1.last, sem i.2.2.1) := by
  induction l with
  | nil => rfl
  | cons i l ih => obtain ⟨k, a, v, b⟩ := i; simp [flatPairs, ih]

end TomlVerif.Spec.AstValue
