import TomlVerif.Model.Datetime
import TomlVerif.Model.Tree
import TomlVerif.Spec.Utf8
import TomlVerif.Spec.Ieee
/-! The serde data model as a value (`SVal`: one constructor per `Serializer` method), plain TOML
    data (`V`), and the documented mapping from the first to the second (`expected`), together
    with the structural description of the shapes that have no TOML image (`unsupported`). -/
namespace TomlVerif.Spec.Serde
open TomlVerif TomlVerif.Model

/-- which `serialize_{i,u}N` method an integer goes through -/
inductive IntW where
  | i8 | i16 | i32 | i64 | u8 | u16 | u32 | u64 | i128 | u128
  deriving Repr, DecidableEq

inductive SVal where
  | bool (b : Bool)
  | int (w : IntW) (n : Int)
  | f32 (bits : Nat)
  | f64 (bits : Nat)
  | char (cp : Nat)
  | str (s : Bytes)
  | bytes (b : Bytes)
  | none
  | some (v : SVal)
  | unit
  | unitStruct (name : Bytes)
  | newtype (name : Bytes) (v : SVal)
  | seq (xs : List SVal)
  | tuple (xs : List SVal)
  | tupleStruct (name : Bytes) (xs : List SVal)
  | map (kvs : List (SVal × SVal))
  | struct (name : Bytes) (fields : List (Bytes × SVal))
  | unitVariant (name variant : Bytes)
  | newtypeVariant (name variant : Bytes) (v : SVal)
  | tupleVariant (name variant : Bytes) (xs : List SVal)
  | structVariant (name variant : Bytes) (fields : List (Bytes × SVal))

inductive Scalar where
  | str (s : Bytes)
  | int (n : Int)
  | float (bits : Nat)
  | bool (b : Bool)
  | dt (d : Datetime.Datetime)
  deriving Repr, DecidableEq

/-- plain TOML data: what `toml_edit::Value` holds when it comes out of the serializer, and what
    a TOML text means once tables of every syntax are read as maps -/
inductive V where
  | sc (s : Scalar)
  | arr (xs : List V)
  | inl (kvs : List (Bytes × V))

/-- `toml_datetime::__unstable::NAME` = "$__toml_private_Datetime" -/
def dtName : Bytes :=
  [0x24, 0x5f, 0x5f, 0x74, 0x6f, 0x6d, 0x6c, 0x5f, 0x70, 0x72, 0x69, 0x76, 0x61, 0x74, 0x65, 0x5f,
   0x44, 0x61, 0x74, 0x65, 0x74, 0x69, 0x6d, 0x65]
/-- `toml_datetime::__unstable::FIELD` = "$__toml_private_datetime" -/
def dtField : Bytes :=
  [0x24, 0x5f, 0x5f, 0x74, 0x6f, 0x6d, 0x6c, 0x5f, 0x70, 0x72, 0x69, 0x76, 0x61, 0x74, 0x65, 0x5f,
   0x64, 0x61, 0x74, 0x65, 0x74, 0x69, 0x6d, 0x65]

def i64Max : Int := 9223372036854775807
def i64Min : Int := -9223372036854775808

def is128 : IntW → Bool
  | .i128 => true
  | .u128 => true
  | _ => false

/-- an integer has a TOML image when it is not sent through the 128-bit methods and fits `i64`.
    `SVal.int w n` presupposes that `n` is a value of the width `w`, so only `u64` can exceed. -/
def intOk (w : IntW) (n : Int) : Bool := !is128 w && !(w == .u64 && decide (n > i64Max))

def isNan64 (b : Nat) : Bool := b / 2 ^ 52 % 2048 == 2047 && b % 2 ^ 52 != 0

/-- `if v.is_nan() { v = v.copysign(1.0) }` -/
def clearNanSign (b : Nat) : Nat := if isNan64 b then b % 2 ^ 63 else b

/-- `f32 as f64` on bit patterns (exact; a NaN keeps its payload in the high bits) -/
def f32to64 (b : Nat) : Nat :=
  let s := b / 2 ^ 31 % 2
  let e := b / 2 ^ 23 % 256
  let m := b % 2 ^ 23
  if e == 255 then s * 2 ^ 63 + 2047 * 2 ^ 52 + m * 2 ^ 29
  else if e == 0 then
    if m == 0 then s * 2 ^ 63
    else
      let k := Ieee.bitLength m
      s * 2 ^ 63 + (k + 873) * 2 ^ 52 + (m * 2 ^ (53 - k) - 2 ^ 52)
  else s * 2 ^ 63 + (e + 896) * 2 ^ 52 + m * 2 ^ 29

def intsOfBytes : Bytes → List V
  | [] => []
  | b :: r => .sc (.int b.toNat) :: intsOfBytes r

/-- a map key has an image when it is a string or a unit variant, possibly inside newtype structs -/
def expectedKey : SVal → Option Bytes
  | .str s => some s
  | .unitVariant _ v => some v
  | .newtype _ v => expectedKey v
  | _ => none

/-- the struct `toml_datetime::Datetime` serializes as: the last `FIELD` entry decides, every
    `FIELD` entry must be a string holding a date-time -/
def expectedDatetime : List (Bytes × SVal) → Option Datetime.Datetime → Option Datetime.Datetime
  | [], acc => acc
  | (k, v) :: r, acc =>
    if k == dtField then
      match v with
      | .str s =>
        match Datetime.Std.fromStr s with
        | some d => expectedDatetime r (some d)
        | none => none
      | _ => none
    else expectedDatetime r acc

mutual
/-- the documented mapping. `none` = the value has no TOML image. -/
def expected : SVal → Option V
  | .bool b => some (.sc (.bool b))
  | .int w n => if intOk w n then some (.sc (.int n)) else none
  | .f32 b => some (.sc (.float (clearNanSign (f32to64 b))))
  | .f64 b => some (.sc (.float (clearNanSign b)))
  | .char cp => some (.sc (.str (Utf8.encode cp)))
  | .str s => some (.sc (.str s))
  | .bytes b => some (.arr (intsOfBytes b))
  | .none => none
  | .some v => expected v
  | .unit => none
  | .unitStruct _ => none
  | .newtype _ v => expected v
  | .seq xs => match expectedList xs with | some l => some (.arr l) | none => none
  | .tuple xs => match expectedList xs with | some l => some (.arr l) | none => none
  | .tupleStruct _ xs => match expectedList xs with | some l => some (.arr l) | none => none
  | .map kvs => match expectedMap kvs [] with | some l => some (.inl l) | none => none
  | .struct name fields =>
    if name == dtName then
      match expectedDatetime fields none with
      | some d => some (.sc (.dt d))
      | none => none
    else match expectedFields fields [] with | some l => some (.inl l) | none => none
  | .unitVariant _ variant => some (.sc (.str variant))
  | .newtypeVariant _ variant v =>
    match expected v with | some x => some (.inl [(variant, x)]) | none => none
  | .tupleVariant _ variant xs =>
    match expectedList xs with | some l => some (.inl [(variant, .arr l)]) | none => none
  | .structVariant _ variant fields =>
    match expectedFields fields [] with | some l => some (.inl [(variant, .inl l)]) | none => none
def expectedList : List SVal → Option (List V)
  | [] => some []
  | x :: r =>
    match expected x with
    | none => none
    | some v => match expectedList r with | some l => some (v :: l) | none => none
/-- fields in order; a field holding `None` is omitted; a repeated name replaces in place -/
def expectedFields : List (Bytes × SVal) → List (Bytes × V) → Option (List (Bytes × V))
  | [], acc => some acc
  | (k, v) :: r, acc =>
    match v with
    | .none => expectedFields r acc
    | v =>
      match expected v with
      | none => none
      | some x => expectedFields r (aset k x acc)
def expectedMap : List (SVal × SVal) → List (Bytes × V) → Option (List (Bytes × V))
  | [], acc => some acc
  | (k, v) :: r, acc =>
    match expectedKey k with
    | none => none
    | some key =>
      match v with
      | .none => expectedMap r acc
      | v =>
        match expected v with
        | none => none
        | some x => expectedMap r (aset key x acc)
end

/-- `FIELD` entries of a date-time struct that are not a string holding a date-time -/
def badDatetimeFields : List (Bytes × SVal) → Bool
  | [] => false
  | (k, v) :: r =>
    if k == dtField then
      match v with
      | .str s => (Datetime.Std.fromStr s).isNone || badDatetimeFields r
      | _ => true
    else badDatetimeFields r

def hasDtField : List (Bytes × SVal) → Bool
  | [] => false
  | (k, _) :: r => k == dtField || hasDtField r

mutual
/-- the documented unsupported shapes, structurally: `None` anywhere but directly under a struct
    field / map value (so: inside a sequence, tuple, `Some`, newtype, variant payload, or at the
    root), unit and unit structs, an integer sent through the 128-bit methods or beyond `i64`,
    a map key that is not a string / unit variant, a date-time struct without a valid date-time -/
def unsupported : SVal → Bool
  | .bool _ => false
  | .int w n => !intOk w n
  | .f32 _ => false
  | .f64 _ => false
  | .char _ => false
  | .str _ => false
  | .bytes _ => false
  | .none => true
  | .some v => unsupported v
  | .unit => true
  | .unitStruct _ => true
  | .newtype _ v => unsupported v
  | .seq xs => unsupportedList xs
  | .tuple xs => unsupportedList xs
  | .tupleStruct _ xs => unsupportedList xs
  | .map kvs => unsupportedMap kvs
  | .struct name fields =>
    if name == dtName then badDatetimeFields fields || !hasDtField fields
    else unsupportedFields fields
  | .unitVariant _ _ => false
  | .newtypeVariant _ _ v => unsupported v
  | .tupleVariant _ _ xs => unsupportedList xs
  | .structVariant _ _ fields => unsupportedFields fields
def unsupportedList : List SVal → Bool
  | [] => false
  | x :: r => unsupported x || unsupportedList r
def unsupportedFields : List (Bytes × SVal) → Bool
  | [] => false
  | (_, v) :: r =>
    match v with
    | .none => unsupportedFields r
    | v => unsupported v || unsupportedFields r
def unsupportedMap : List (SVal × SVal) → Bool
  | [] => false
  | (k, v) :: r =>
    (expectedKey k).isNone ||
    match v with
    | .none => unsupportedMap r
    | v => unsupported v || unsupportedMap r
end

/-- the fields `toml_datetime::Datetime` hands over: exactly one, `FIELD`, holding a string -/
def isDtFields : List (Bytes × SVal) → Bool
  | [(k, .str _)] => k == dtField
  | _ => false

mutual
/-- how date-time structs occur in the value. `aware = false`: not at all.
    `aware = true`: only as `toml_datetime::Datetime` produces them (`isDtFields`). -/
def dtShape (aware : Bool) : SVal → Bool
  | .some v => dtShape aware v
  | .newtype _ v => dtShape aware v
  | .seq xs => dtShapeList aware xs
  | .tuple xs => dtShapeList aware xs
  | .tupleStruct _ xs => dtShapeList aware xs
  | .map kvs => dtShapeMap aware kvs
  | .struct name fields =>
    if name == dtName then aware && isDtFields fields else dtShapeFields aware fields
  | .newtypeVariant _ _ v => dtShape aware v
  | .tupleVariant _ _ xs => dtShapeList aware xs
  | .structVariant _ _ fields => dtShapeFields aware fields
  | _ => true
def dtShapeList (aware : Bool) : List SVal → Bool
  | [] => true
  | x :: r => dtShape aware x && dtShapeList aware r
def dtShapeFields (aware : Bool) : List (Bytes × SVal) → Bool
  | [] => true
  | (_, v) :: r => dtShape aware v && dtShapeFields aware r
def dtShapeMap (aware : Bool) : List (SVal × SVal) → Bool
  | [] => true
  | (_, v) :: r => dtShape aware v && dtShapeMap aware r
end

/-- no date-time struct anywhere in the value -/
def noDatetime (v : SVal) : Bool := dtShape false v
/-- every date-time struct in the value is one that `toml_datetime::Datetime` produces -/
def wfDatetime (v : SVal) : Bool := dtShape true v

end TomlVerif.Spec.Serde
